"""debug helper: verify one contract serially.  usage: dbg.py <contracts module> <index> [prop]"""
import sys, time
import os; sys.path[:0]=['/verif', os.environ.get('VERIF_REPO','/repo')]
import importlib
from vlib.common import Report
from pyvc.contract import Verifier
cm=importlib.import_module(sys.argv[1])
i=int(sys.argv[2]); prop=sys.argv[3] if len(sys.argv)>3 else cm.CONTRACTS[i].props[0]
rep=Report(prop,"quick",0)
v=Verifier(rep,prop,sys.argv[1],0)
t=time.time()
sh=(int(sys.argv[4]),int(sys.argv[5])) if len(sys.argv)>5 else (0,1)
v.verify(cm.CONTRACTS[i], i, sh)
print("time %.2f"%(time.time()-t),"queries",v.it.nq,"solver %.2f"%v.it.solver_time)
for o in rep.obligations[:60]: print(o.name,o.status,o.detail[:300])
print("bounded",rep.bounded); print("downgraded",rep.downgraded); print("errors",rep.engine_errors); print("canaries",rep.canaries, "violations", rep.violations)
