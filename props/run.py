"""Driver: ./check Cxx --tier quick|thorough [--replay path]"""
import argparse, importlib, json, os, subprocess, sys, time, traceback


def main():
    ap = argparse.ArgumentParser()
    ap.add_argument("prop")
    ap.add_argument("--tier", default=os.environ.get("VERIF_TIER", "quick"), choices=["quick", "thorough"])
    ap.add_argument("--replay")
    a = ap.parse_args()
    seed = int(os.environ.get("VERIF_SEED", "0") or 0)
    if a.replay:
        return replay(a.prop, a.replay)
    from vlib.common import Report, VERIF
    # replay files are per run: what an earlier run (on another tree) left behind is removed
    import shutil
    shutil.rmtree(os.path.join(VERIF, "replays", a.prop), ignore_errors=True)
    mod = importlib.import_module("props." + a.prop.lower())
    rep = Report(a.prop, a.tier, seed, level=getattr(mod, "LEVEL", "proof"))
    try:
        mod.run(rep, a.tier, seed)
    except Exception:
        rep.engine_error("check crashed: " + traceback.format_exc()[-1500:])
    code = rep.finish(f"./check {a.prop} --tier {a.tier}")
    sys.exit(code)


def replay(prop, path):
    d = json.load(open(path))
    code = d.get("python")
    if not code:
        print("replay file carries no runnable input:", d.get("note", ""))
        print(json.dumps({k: v for k, v in d.items() if k != "python"}, indent=1)[:3000])
        sys.exit(2)
    from vlib.common import run_native
    rc, out, err = run_native(code)
    print(out.strip())
    if err.strip():
        print(err.strip()[-2000:])
    if rc not in (0, 17):
        print("replay: the replay program itself failed (exit %d)" % rc)
        sys.exit(3)
    print("replay:", "violation reproduces" if rc == 17 else "does not reproduce")
    sys.exit(1 if rc == 17 else 0)


if __name__ == "__main__":
    main()
