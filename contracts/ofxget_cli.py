"""C19 / C18 - the command line as the commands see it: extractns (argparse namespace -> mapping) under contract.

Every option of the namespace whose value is not None - False, 0, '' and [] included (the store_false flags
--no-transactions / --no-balances / --no-positions put False there) - is in the mapping with that very value;
an option left at None is absent (so that the configuration files and the defaults show through)."""
import builtins
import z3
from pyvc.contract import *
from pyvc.values import *
from ofxtools.scripts import ofxget as G
from contracts.client import Marker

KEYS = ["inctran", "dryrun", "user", "checking"]


class NsArg(Arg):
    def __init__(self, name="ns"):
        self.name = name

    def make(self, it):
        d = {}
        for k in KEYS:
            d[k] = (SBool(z3.Bool(f"cli_{k}_is_None")), SVal(object, z3.Const(f"cli_{k}", V), {"eq": "term"}))
        return d, []


def call_extract(it, fn, a):
    ns = a[0]
    conc = {}
    for k, (n, v) in ns.items():
        conc[k] = None if it.branch(n.e) else v
    it.models[builtins.vars] = lambda it_, ar, kw: dict(conc)
    return it.call(G.extractns, [Marker("argparse.Namespace")], {})


CONTRACTS = [
    Contract("ofxtools.scripts.ofxget:extractns", args=[NsArg()], call=call_extract,
             ensures=[(f"{k}: present-iff-not-None", f"ns[{k!r}][0] == ({k!r} not in result)") for k in KEYS] +
                     [(f"{k}: the-value-given (whatever its truth value)", f"ns[{k!r}][0] or result[{k!r}] is ns[{k!r}][1]") for k in KEYS],
             notes="values are opaque: nothing is known about their type or truth value, so False / 0 / '' / [] are covered",
             props=["C19", "C18"], symbolic_only=True),
]

# a list-valued entry of the configuration file (account numbers): every spelling of the separators gives the same items.
# str.split on a symbolic text is outside the engine: decided by enumeration of EVERY text of up to 6 characters over
# blank, comma and two item characters (5461 texts) - exhaustive for that bound, labelled bounded
import itertools as _it


class _Txt(Arg):
    def __init__(self, name):
        self.name = name


def _all_texts(tier):
    n = 7 if tier == "thorough" else 6
    return [["".join(w)] for k in range(n + 1) for w in _it.product(" ,a1", repeat=k)]


CONTRACTS.append(
    Contract("ofxtools.scripts.ofxget:convert_list", args=[_Txt("string")],
             ensures=[("the-items-between-the-commas-without-surrounding-blanks", "result == spec.ofxget.list_items(string)")],
             cases=_all_texts, native_only=True, shards=4,
             notes="every text of up to 6 characters (7 in thorough) over blank, comma and two item characters", props=["C19", "C18"]))
