"""Ownership-tracked model of xml.etree.ElementTree.Element for frame proofs (C17) and for the groom/ungroom
value contracts (C07): an element is a heap object with a tag, a text and a child list; every element carries
its *owner* - 'input' (handed to the function under contract by its caller) or 'fresh' (allocated during the
call).  Every write (tag/text/tail store, append/insert/remove/clear on the child list) is logged in the world
with the owner of the object written.  copy.deepcopy allocates fresh copies of the whole subtree; copy.copy
allocates a fresh node whose child list holds the *same* child objects (that is what a shallow copy of an
Element is).  Tags and texts are symbolic (opaque texts, V sort); the number of direct children is concrete per
contract instance, grandchildren are carried along as opaque subtrees ('rest').

Trusted: that xml.etree's Element behaves like this list-of-children record for the operations used
(iteration, len, find('./TAG') = first direct child with that tag, remove by identity, attribute stores),
and that deepcopy/copy have the semantics above."""
import copy as _copy
import xml.etree.ElementTree as ET
import z3
from pyvc import core as C
from pyvc import models as M
from pyvc.values import Abstract, Sym, SVal, SIte, ExcVal, V, zbool


class World(Sym):
    def __init__(self):
        self.writes = []        # (owner, label, what)
        self.n = 0

    def log(self, elem, what):
        self.writes.append((elem.owner, elem.label, what))

    def input_writes(self):
        return [w for w in self.writes if w[0] == "input"]


class OElem(Abstract):
    pytype = ET.Element
    identity_object = True

    def __init__(self, world, owner, label, tag, text, kids, rest=None):
        self.world = world; self.owner = owner; self.label = label
        self.tag = tag; self.text = text; self.tail = None
        self.kids = list(kids)
        self.rest = rest          # opaque identity of everything below the modelled depth (copied by deepcopy)
        world.n += 1

    # ---- copies
    def deep(self):
        return OElem(self.world, "fresh", self.label + "'", self.tag, self.text, [k.deep() for k in self.kids], self.rest)

    def shallow(self):
        return OElem(self.world, "fresh", self.label + "^", self.tag, self.text, list(self.kids), self.rest)

    # ---- protocol
    def p_getattr(self, it, name):
        if name in ("tag", "text", "tail"):
            return getattr(self, name)
        if name == "remove":
            def remove(child):
                for i, k in enumerate(self.kids):
                    if k is child:
                        self.world.log(self, "remove")
                        del self.kids[i]
                        return None
                raise C.Raised(ExcVal(ValueError, ("list.remove(x): x not in list",)))
            return remove
        if name == "append":
            def append(child):
                self.world.log(self, "append"); self.kids.append(child)
            return append
        if name == "insert":
            def insert(i, child):
                self.world.log(self, "insert"); self.kids.insert(it.concrete_key(i), child)
            return insert
        if name == "clear":
            def clear():
                self.world.log(self, "clear"); self.kids[:] = []; self.text = None; self.tail = None
            return clear
        if name == "extend":
            def extend(xs):
                self.world.log(self, "extend"); self.kids.extend(it.iterate(xs))
            return extend
        if name == "find":
            def find(path):
                p = it.concrete_key(path)
                if isinstance(p, str) and p.startswith(".//") and p[3:].isalnum():
                    want, deep = p[3:], True
                elif isinstance(p, str) and p.startswith("./") and "/" not in p[2:] and p[2:].isalnum():
                    want, deep = p[2:], False
                elif isinstance(p, str) and p.isalnum():
                    want, deep = p, False
                else:
                    raise C.Unsupported(f"find({p!r})")

                def search(node):
                    for k in node.kids:           # document order: a child, then its descendants
                        r = M.equal(it, k.tag, want)
                        if r is True or (r is not False and it.branch(zbool(r))):
                            return k
                        if deep:
                            g = search(k)
                            if g is not None:
                                return g
                    return None
                return search(self)
            return find
        if name == "__class__":
            return ET.Element
        raise C.Unsupported(f"Element.{name}")

    def p_setattr(self, it, name, value):
        if name not in ("tag", "text", "tail"):
            raise C.Unsupported(f"Element.{name} = ...")
        self.world.log(self, name)
        setattr(self, name, value)

    def p_iter(self, it):
        return list(self.kids)

    def p_len(self, it):
        return len(self.kids)

    def p_truth(self, it):
        return len(self.kids) > 0

    def p_getitem(self, it, key):
        k = it.concrete_key(key)
        return self.kids[k]

    def p_setitem(self, it, key, value):
        self.world.log(self, "setitem")
        self.kids[it.concrete_key(key)] = value

    def p_isinstance(self, it, t):
        return issubclass(ET.Element, t) if isinstance(t, type) else any(issubclass(ET.Element, x) for x in t)

    def p_eq(self, it, other):
        return self is other


def m_deepcopy(it, a, k):
    x = a[0]
    if isinstance(x, SIte):
        x = it.force(x)
    if isinstance(x, OElem):
        return x.deep()
    if it.all_concrete(a, k):
        return _copy.deepcopy(x)
    raise C.Unsupported("deepcopy of a symbolic value")


def m_copy(it, a, k):
    x = a[0]
    if isinstance(x, SIte):
        x = it.force(x)
    if isinstance(x, OElem):
        return x.shallow()
    if it.all_concrete(a, k):
        return _copy.copy(x)
    raise C.Unsupported("copy of a symbolic value")


def install(it):
    it.models[_copy.deepcopy] = m_deepcopy
    it.models[_copy.copy] = m_copy


def make_tree(world, k, prefix="c", grand=False):
    """input element with k direct children: symbolic tags and texts, opaque subtrees below -> (tree, assumptions);
    grand: every child with an even index is an aggregate holding one grandchild with a symbolic tag"""
    from pyvc.values import tlen
    kids = []; asm = []
    for i in range(k):
        tag = z3.Const(f"{prefix}{i}_tag", V); text = z3.Const(f"{prefix}{i}_text", V)
        asm += [tlen(tag) >= 1, tlen(text) >= 0]
        gk = []
        if grand and i % 2 == 0:
            gt = z3.Const(f"{prefix}{i}g_tag", V)
            asm.append(tlen(gt) >= 1)
            gk = [OElem(world, "input", f"{prefix}{i}g", SVal(str, gt), SVal(str, z3.Const(f"{prefix}{i}g_text", V)), [], rest=z3.Const(f"{prefix}{i}g_rest", V))]
        kids.append(OElem(world, "input", f"{prefix}{i}", SVal(str, tag), SVal(str, text) if not gk else None, gk, rest=z3.Const(f"{prefix}{i}_rest", V)))
    rt = z3.Const("root_tag", V)
    asm.append(tlen(rt) >= 1)
    return OElem(world, "input", "elem", SVal(str, rt), None, kids), asm
