"""C17, bounded companion (engine R) on real classes, real element trees and real documents: what the frame proofs
and the census establish in general is exercised end to end, and a violation comes with the failing history.

One case = one shard of the model classes (all ~390 classes in the thorough tier, a seeded sample in the quick
tier).  For every class a valid instance is built with the C13 witness constructor; its element tree, a few
deliberately broken variants (a truncated date-time, children in reverse order, an undefined class) and - for
OFX roots - the whole document with header are the *items*.  Each item is kept as bytes and rebuilt for every
call, so no call can see an object another call has touched.

  frames        around every from_etree / to_etree / OFXTree.parse+convert: the element tree, the model and the
                source bytes are compared before/after
  repeat        every call is made twice in a row: equal outcomes (value or exception class)
  history       the outcomes of order 0..n-1 are compared with those of the reversed order and of a seeded
                shuffle in which failing items are interleaved
  threads       the same items converted by 8 threads at once (2, 4 and 16 in the thorough tier) give the
                outcomes of the sequential run - the schedules are whatever the OS produces: nothing is claimed
                about schedules not seen
"""
import copy, io, random, threading
import xml.etree.ElementTree as ET
from pyvc.contract import *
from pyvc.contract import frame_snapshot
import ofxtools.models as models
from ofxtools.models.base import Aggregate

_state = {}


def _env(seed):
    key = ("env", seed)
    if key not in _state:
        from xengine import aggx
        e = aggx.env()
        cl = []
        for n in dir(models):
            o = getattr(models, n)
            if isinstance(o, type) and issubclass(o, Aggregate) and n.isupper() and o.__name__ == n:
                cl.append(o)
        _state[key] = (e, aggx.Builder(e, seed), sorted(cl, key=lambda c: c.__name__))
    return _state[key]


ALWAYS = ["MFINFO", "STOCKINFO", "MAIL", "STMTTRN", "OFX", "INVPOSLIST", "SECLIST", "BALLIST", "STMTRS", "SONRS"]


def classes_of(tier, seed, shard, nshards):
    e, b, cl = _env(seed)
    if tier == "thorough":
        return cl[shard::nshards]
    rng = random.Random(seed * 131 + 7)
    names = set(ALWAYS) | set(c.__name__ for c in rng.sample(cl, 110))
    chosen = [c for c in cl if c.__name__ in names]
    return chosen[shard::nshards]


def rich_instance(C, b, e, rng):
    from xengine import aggx
    names = [n for n, t in C.spec.items() if aggx.kind(e, t) in ("element", "subaggregate")]
    lists = [n for n, t in C.spec.items() if aggx.is_list(aggx.kind(e, t))]
    for _ in range(5):
        extra = rng.sample(names, min(len(names), rng.randint(0, 4)))
        mem = tuple(rng.choice(lists) for _ in range(rng.randint(0, 3))) if lists else ()
        try:
            return b.witness(C, extra, mem)
        except Exception:
            continue
    return b.witness(C)


def datetime_leaves(C):
    from ofxtools import Types
    return [n.upper() for n, t in C.spec.items() if isinstance(t, Types.DateTime)]


def make_items(tier, seed, shard, nshards):
    """-> [(kind, label, bytes)]   kind: 'tree' (from_etree) | 'doc' (header + body through OFXTree)"""
    e, b, cl = _env(seed)
    rng = random.Random(seed * 7 + shard)
    items = []
    for C in classes_of(tier, seed, shard, nshards):
        try:
            inst = b.witness(C, ("yld",), ()) if C.__name__ in ("MFINFO", "STOCKINFO") else rich_instance(C, b, e, rng)
        except Exception:
            continue
        tree = inst.to_etree()
        data = ET.tostring(tree)
        items.append(("tree", C.__name__, data))
        # broken variants
        dts = [c for c in tree if c.tag in datetime_leaves(C) and c.text]
        if dts:
            t2 = copy.deepcopy(tree)
            victim = [c for c in t2 if c.tag == dts[0].tag][0]
            victim.text = victim.text[:10]                     # truncated timestamp
            items.append(("tree", C.__name__ + "/bad-datetime", ET.tostring(t2)))
            t3 = copy.deepcopy(tree)
            victim = [c for c in t3 if c.tag == dts[0].tag][0]
            victim.text = "20051020120000.000[-5:EST]"          # a valid one with an offset: normalised to UTC
            items.append(("tree", C.__name__ + "/offset-datetime", ET.tostring(t3)))
        from ofxtools import Types as _T
        strs = [c for c in tree if c.text and isinstance(C.spec.get(c.tag.lower()), _T.String) and (C.spec[c.tag.lower()].length or 99) >= 24]
        if strs:
            # a text that still looks like an entity after it has been read (the institution escaped it twice)
            t7 = copy.deepcopy(tree)
            [c for c in t7 if c.tag == strs[0].tag][0].text = "Fish &amp;amp; Chips &amp;lt;1&amp;gt;"
            items.append(("tree", C.__name__ + "/entity-looking-text", ET.tostring(t7)))
        if len(tree) >= 2:
            t4 = copy.deepcopy(tree)
            kids = list(t4)
            for k in kids:
                t4.remove(k)
            for k in reversed(kids):
                t4.append(k)
            items.append(("tree", C.__name__ + "/reversed", ET.tostring(t4)))
        if len(tree):
            # the same tree as a stock XML parser delivers it from an indented file: whitespace text on the aggregates,
            # whitespace tails everywhere (whatever the conversion makes of it, it must not rewrite what it was given)
            t6 = copy.deepcopy(tree)
            for node in t6.iter():
                if len(node):
                    node.text = "\n    "
                node.tail = "\n  "
            items.append(("tree", C.__name__ + "/whitespace-from-a-stock-parser", ET.tostring(t6)))
        if C.__name__ in ("MFINFO", "STOCKINFO", "MAIL"):
            # the keyword tags as they appear on the wire (groom renames them), plus a vendor extension
            t5 = copy.deepcopy(tree)
            for c in t5:
                if c.tag == "YLD":
                    c.tag = "YIELD"
                if c.tag == "FRM":
                    c.tag = "FROM"
            ET.SubElement(t5, "INTU.X").text = "1"
            items.append(("tree", C.__name__ + "/wire-tags", ET.tostring(t5)))
        if C.__name__ == "OFX":
            from ofxtools.header import make_header
            for version in (102, 203):
                header = bytes(str(make_header(version=version, newfileuid="NONE")), "utf_8")
                body = ET.tostring(tree, encoding="utf_8", method="html")
                items.append(("doc", f"OFX/v{version}", header + body))
                # documents that are refused before / while the header is read: the caller's stream is still the caller's
                items.append(("doc", f"OFX/v{version}/no-header", body))
                if version < 200:
                    items.append(("doc", f"OFX/v{version}/unknown-charset", header.replace(b"CHARSET:NONE", b"CHARSET:9999") + body))
                    items.append(("doc", f"OFX/v{version}/undecodable-body", header.replace(b"ENCODING:USASCII", b"ENCODING:UNICODE").replace(b"CHARSET:NONE", b"CHARSET:NONE") + b"<OFX>\xff\xfe</OFX>"))
                else:
                    items.append(("doc", f"OFX/v{version}/bad-declaration", header.replace(b'VERSION="', b'VERSION="x') + body))
    und = ET.Element("NOSUCHAGGREGATE"); ET.SubElement(und, "X").text = "1"
    items.append(("tree", "undefined-class", ET.tostring(und)))
    return items


def outcome(item, problems):
    """run one item; every frame is checked; -> ('ok', canonical bytes) | ('raised', exception class name)"""
    kind, label, data = item
    try:
        if kind == "tree":
            elem = ET.fromstring(data)
            before = ET.tostring(elem)
            try:
                m = Aggregate.from_etree(elem)
            finally:
                if ET.tostring(elem) != before:
                    problems.append(("frame", label, "from_etree modified the element tree it was given", before[:300], ET.tostring(elem)[:300]))
        else:
            from ofxtools.Parser import OFXTree
            src = io.BytesIO(data)
            p = OFXTree()
            try:
                p.parse(src)
            finally:
                # on the failing path too: the stream handed in is the caller's - not closed, not rewritten
                if src.closed:
                    problems.append(("frame", label, "parse closed the caller's stream", data[:200], b"<closed>"))
                elif src.getvalue() != data:
                    problems.append(("frame", label, "parse modified the source bytes", data[:200], src.getvalue()[:200]))
            root_before = ET.tostring(p._root)
            try:
                m = p.convert()
            finally:
                if ET.tostring(p._root) != root_before:
                    problems.append(("frame", label, "convert modified the parsed element tree", root_before[:300], ET.tostring(p._root)[:300]))
            # the documented use: edit the parsed tree in place, then convert again - the second conversion is the conversion
            # of the tree as it is NOW (whatever an earlier convert() on this parser did), and hands out objects of its own
            def _oc(f):
                try:
                    return ("ok", ET.tostring(f().to_etree()))
                except Exception as ex:
                    return ("raised", type(ex).__name__)
            parents = [n_ for n_ in p._root.iter() if len(n_)]
            victim_parent = parents[-1] if parents else p._root
            if len(victim_parent):
                victim_parent.remove(victim_parent[-1])
                want = _oc(lambda: Aggregate.from_etree(copy.deepcopy(p._root)))
                got = _oc(p.convert)
                if got != want:
                    problems.append(("history", label, "convert() after an in-place edit of the parsed tree is not the conversion of the edited tree", want[1][:300] if isinstance(want[1], bytes) else want[1], got[1][:300] if isinstance(got[1], bytes) else got[1]))
        snap = frame_snapshot(m)
        out1 = ET.tostring(m.to_etree())
        if frame_snapshot(m) != snap:
            problems.append(("frame", label, "to_etree modified the model", repr(snap)[:300], repr(frame_snapshot(m))[:300]))
        out2 = ET.tostring(m.to_etree())
        if out1 != out2:
            problems.append(("repeat", label, "to_etree twice on the same model", out1[:300], out2[:300]))
        return ("ok", out1)
    except Exception as ex:
        return ("raised", type(ex).__name__)


def run_shard(tier, seed, shard, nshards):
    import logging, warnings
    logging.disable(logging.CRITICAL)
    warnings.simplefilter("ignore")
    items = make_items(tier, seed, shard, nshards)
    problems = []
    n = len(items)
    base = {}
    for i in range(n):
        base[i] = outcome(items[i], problems)
        again = outcome(items[i], problems)
        if again != base[i]:
            problems.append(("repeat", items[i][1], "same item twice in a row", base[i], again, items[i][2][:400]))
    evals = 2 * n

    def compare(order, what):
        nonlocal evals
        for i in order:
            o = outcome(items[i], problems)
            evals += 1
            if o != base[i]:
                problems.append(("history", items[i][1], what, base[i], o, items[i][2][:400]))
    compare(list(reversed(range(n))), "outcome in the reversed order differs from the outcome in the first order")
    rng = random.Random(seed + 17 * shard)
    bad = [i for i in range(n) if base[i][0] == "raised"]
    order = list(range(n)); rng.shuffle(order)
    mixed = []
    for i in order:
        if bad and rng.random() < 0.5:
            mixed.append(rng.choice(bad))
        mixed.append(i)
    compare(mixed, "outcome in a shuffled order with failing items interleaved differs")
    # threads
    for T in ((8,) if tier != "thorough" else (2, 4, 16)):
        results = {}
        tp = [[] for _ in range(T)]

        def worker(t):
            for i in mixed[t::T]:
                results[(t, i)] = outcome(items[i], tp[t])
        ths = [threading.Thread(target=worker, args=(t,)) for t in range(T)]
        for th in ths:
            th.start()
        for th in ths:
            th.join()
        evals += len(mixed)
        for (t, i), o in results.items():
            if o != base[i]:
                problems.append(("threads", items[i][1], f"outcome under {T} concurrent threads differs from the sequential one", base[i], o, items[i][2][:400]))
        for t in range(T):
            problems += [("threads-" + p[0],) + p[1:] for p in tp[t]]
    return {"items": n, "evaluations": evals, "problems": problems[:8], "nproblems": len(problems)}


def call(it, fn, a):
    tier, seed, shard, nshards = a
    return run_shard(tier, seed, shard, nshards)


class P(Arg):
    def __init__(self, name):
        self.name = name


NSH = 16


def cases(tier):
    return [[tier, 0, k, NSH] for k in range(NSH)]


CONTRACTS = [
    Contract("ofxtools.models.base:Aggregate.from_etree",
             args=[P("tier"), P("seed"), P("shard"), P("nshards")], call=call,
             ensures=[("C17-frames-repeat-history-threads", "result['nproblems'] == 0 and result['items'] > 0")],
             cases=cases, native_only=True, shards=NSH,
             notes="bounded: every model class (thorough) / a seeded sample of ~120 classes incl. MFINFO, STOCKINFO, MAIL, STMTTRN, OFX (quick): witness instance + broken variants + whole documents; frames around every call, each call twice, three orders (failing items interleaved), 8 threads (2/4/16 thorough)",
             props=["C17"]),
]
