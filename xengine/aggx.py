"""Engine X over the aggregate model classes (property C13, DESIGN sections 5 and 9).

Everything here is evaluated on the *real* objects of the imported package: the
class list is enumerated from ``ofxtools.models`` on every run, each invariant
clause I1..I9 is decided per (class[, attribute | mutex group]) and the
for-all/exists clause I9 carries a witness constructor whose result is run
through the real pipeline ``to_etree -> ET.tostring(method="html") ->
Parser.TreeBuilder -> Aggregate.from_etree``.

The module is plain Python (no z3) so that ``native()`` can re-decide a single
obligation under /venv/bin/python when a replay file is run.
"""
import warnings, inspect, pkgutil, importlib, random, datetime, decimal, itertools, re, sys, time
import xml.etree.ElementTree as ET

# ET.tostring(method="html") writes no end tag for these and does not escape text in script/style.
# The set grew over CPython versions (3.13 added embed/source/track/wbr): use the union.
HTML_VOID = frozenset("area base basefont br col embed frame hr img input isindex link meta param source track wbr".split()) \
    | frozenset(getattr(ET, "HTML_EMPTY", ()))
HTML_RAW = frozenset(("script", "style"))
# Parser.TreeBuilder.regex admits [A-Z0-9./_ ]+ as a tag; '.' marks vendor extensions (groom() deletes them),
# '/' marks an end tag and ' ' never occurs in a Python identifier
TAG_RE = re.compile(r"[A-Z0-9_]+\Z")

CLAUSES = ("I1", "I2", "I3", "I4", "I5", "I6", "I7", "I8", "I9", "I11", "I12", "I13")
MAX_CANDIDATES = 6000


class WitnessError(Exception):
    pass


class Env:
    pass


_ENV = None


def env():
    global _ENV
    if _ENV is None:
        _ENV = _load()
    return _ENV


def _load():
    warnings.simplefilter("ignore")
    try:
        from vlib.common import adversarial_warmup
        adversarial_warmup()
    except Exception:
        pass
    import ofxtools.models as M
    from ofxtools.models.base import Aggregate, ElementList
    from ofxtools import Types
    from ofxtools.Parser import TreeBuilder
    from ofxtools.utils import UTC
    e = Env()
    e.M, e.Aggregate, e.ElementList, e.Types, e.TreeBuilder, e.UTC = M, Aggregate, ElementList, Types, TreeBuilder, UTC
    # modules of the package that the package itself does not import still define classes a writer can emit
    e.import_errors = []
    for mi in pkgutil.walk_packages(M.__path__, M.__name__ + "."):
        if mi.name not in sys.modules:
            try:
                importlib.import_module(mi.name)
            except Exception as ex:  # pragma: no cover
                e.import_errors.append(f"{mi.name}: {type(ex).__name__} {ex}")
    seen, stack = set(), [Aggregate]
    while stack:
        c = stack.pop()
        if c in seen:
            continue
        seen.add(c)
        stack += c.__subclasses__()
    e.exported = {v for v in vars(M).values() if inspect.isclass(v) and issubclass(v, Aggregate)}
    universe = {c for c in seen if c.__module__ == M.__name__ or c.__module__.startswith(M.__name__ + ".")} | e.exported
    e.spec = {}
    for c in universe:
        e.spec[c] = list(c.spec.items())
    # classes named as a child type anywhere are part of the space even if defined elsewhere
    more = True
    while more:
        more = False
        for c in list(universe):
            for n, t in e.spec[c]:
                if kind(e, t) in ("subaggregate", "listaggregate"):
                    ty = getattr(t, "__type__", None)
                    if inspect.isclass(ty) and issubclass(ty, Aggregate) and ty not in universe:
                        universe.add(ty)
                        e.spec[ty] = list(ty.spec.items())
                        more = True
    e.classes = sorted(universe, key=lambda c: (c.__name__, c.__module__))
    e.referenced = {t.__type__ for c in e.classes for n, t in e.spec[c]
                    if kind(e, t) in ("subaggregate", "listaggregate") and inspect.isclass(getattr(t, "__type__", None))}
    uni = set(e.classes)
    # abstract base: has subclasses, is never named as a child type, and does not carry an OFX-style (upper-case) name
    e.abstract = [c for c in e.classes
                  if any(s in uni for s in c.__subclasses__()) and c not in e.referenced and c.__name__ != c.__name__.upper()]
    ab = set(e.abstract)
    e.concrete = [c for c in e.classes if c not in ab]
    e.by_key = {(c.__module__, c.__name__): c for c in e.classes}
    return e


def kind(e, t):
    T = e.Types
    if isinstance(t, T.Unsupported):
        return "unsupported"
    if isinstance(t, T.ListAggregate):
        return "listaggregate"
    if isinstance(t, T.ListElement):
        return "listelement"
    if isinstance(t, T.SubAggregate):
        return "subaggregate"
    return "element"


def is_list(k):
    return k in ("listaggregate", "listelement")


def key_of(c):
    return (c.__module__, c.__name__)


# --------------------------------------------------------------------------------------------
# witness constructor
# --------------------------------------------------------------------------------------------

_ALNUM = "ABCDEFGHIJKLMNOPQRSTUVWXYZabcdefghijklmnopqrstuvwxyz0123456789"


class Builder:
    """Builds minimal valid instances from the spec alone (no class-specific knowledge).

    witness(C, extra, members): an instance of C in which every attribute of
    ``extra`` is present and which has one member for every list attribute named
    in ``members``.  Required children and one choice per required-mutex group
    are added; if the class refuses that (custom validate_args), optional
    children and list members are added one and two at a time until the
    constructor accepts.  Element values are drawn with the run's seed.
    """

    def __init__(self, e, seed):
        self.e = e
        self.seed = seed
        self.memo = {}
        self.stack = []
        self.attempts = 0

    # ---- values
    def value(self, t, rng):
        T = self.e.Types
        if isinstance(t, T.ListElement):
            return self.value(t.converter, rng)
        if isinstance(t, T.Bool):
            return rng.choice((True, False))
        if isinstance(t, T.OneOf):
            return rng.choice(list(t.valid))
        if isinstance(t, T.String):
            n = t.length if getattr(t, "length", None) else 8
            return "".join(rng.choice(_ALNUM) for _ in range(rng.randint(1, max(1, min(n, 8)))))
        if isinstance(t, T.Integer):
            n = t.length if getattr(t, "length", None) else 4
            return rng.randint(0, 10 ** min(n, 6) - 1)
        if isinstance(t, T.Decimal):
            if t.scale is None:
                return decimal.Decimal(f"{rng.randint(0, 9999)}.{rng.randint(0, 99):02d}")
            return decimal.Decimal(rng.randint(1, 99999)) * t.scale
        if isinstance(t, T.Time):
            return datetime.time(rng.randint(0, 23), rng.randint(0, 59), rng.randint(0, 59), tzinfo=self.e.UTC)
        if isinstance(t, T.DateTime):
            return datetime.datetime(rng.randint(1990, 2030), rng.randint(1, 12), rng.randint(1, 28),
                                     rng.randint(0, 23), rng.randint(0, 59), rng.randint(0, 59), tzinfo=self.e.UTC)
        raise WitnessError(f"no value generator for element type {type(t).__name__}")

    # ---- search
    def _candidates(self, C, need0, members0):
        e = self.e
        kinds = {n: kind(e, t) for n, t in e.spec[C]}
        single = [n for n, k in kinds.items() if k in ("element", "subaggregate")]
        lists = [n for n, k in kinds.items() if is_list(k)]
        groups = []
        for g in (getattr(C, "requiredMutexes", None) or []):
            if not any(m in need0 for m in g):
                groups.append([m for m in g if m in single])
        choices = list(itertools.islice(itertools.product(*groups), 64)) or [()]
        bases = []
        for ch in choices:
            b = frozenset(need0) | frozenset(ch)
            if b not in bases:
                bases.append(b)
        for b in bases:
            yield b, members0
        for b in bases:
            for l in lists:
                yield b, members0 + (l,)
        for b in bases:
            for o in single:
                if o not in b:
                    yield b | {o}, members0
                    for l in lists:
                        yield b | {o}, members0 + (l,)
        for b in bases:
            rest = [o for o in single if o not in b]
            for a, c in itertools.combinations(rest, 2):
                yield b | {a, c}, members0
                for l in lists:
                    yield b | {a, c}, members0 + (l,)

    def _build(self, C, need, members, rng):
        e = self.e
        kw, ar = {}, []
        sd = dict(e.spec[C])
        for n, t in e.spec[C]:
            if n in need:
                k = kind(e, t)
                if k == "subaggregate":
                    kw[n] = self.witness(t.__type__)
                elif k == "element":
                    kw[n] = self.value(t, rng)
                else:
                    raise WitnessError(f"{C.__name__}.{n} is {k}: cannot be passed as a keyword")
        for n in members:
            t = sd[n]
            ar.append(self.witness(t.__type__) if kind(e, t) == "listaggregate" else self.value(t, rng))
        return C(*ar, **kw)

    def witness(self, C, extra=(), members=()):
        e = self.e
        extra = frozenset(extra)
        members = tuple(members)
        key = (C, extra, members)
        if key in self.memo:
            r = self.memo[key]
            if isinstance(r, Exception):
                raise r
            return r
        if not (inspect.isclass(C) and issubclass(C, e.Aggregate)):
            raise WitnessError(f"{C!r} is not an Aggregate subclass")
        if C in self.stack:
            raise WitnessError("class graph is cyclic through " + C.__name__)
        if C not in e.spec:
            e.spec[C] = list(C.spec.items())
        self.stack.append(C)
        try:
            need0 = set(extra)
            for n, t in e.spec[C]:
                if kind(e, t) in ("element", "subaggregate") and getattr(t, "required", False):
                    need0.add(n)
            rng = random.Random(f"{self.seed}|{C.__module__}.{C.__name__}|{sorted(extra)}|{members}")
            last = None
            tried = 0
            for need, mem in self._candidates(C, need0, members):
                tried += 1
                self.attempts += 1
                if tried > MAX_CANDIDATES:
                    break
                try:
                    inst = self._build(C, need, mem, rng)
                except Exception as ex:  # the constructor's refusal is data here
                    last = ex
                    continue
                self.memo[key] = inst
                return inst
            err = WitnessError(f"no valid instance of {C.__name__} with {sorted(extra)} + members {list(members)} "
                               f"after {tried} candidate constructions; last error: {type(last).__name__}: {str(last)[:300]}")
            self.memo[key] = err
            raise err
        finally:
            self.stack.pop()


# --------------------------------------------------------------------------------------------
# views, expressions, the real pipeline
# --------------------------------------------------------------------------------------------

def expr(e, x, used):
    """Python expression that rebuilds the model instance x (for self-contained replays)."""
    if isinstance(x, e.Aggregate):
        C = type(x)
        used.add(C)
        parts = [expr(e, m, used) for m in x]
        for n, t in C.spec_no_listaggregates.items():
            if isinstance(t, e.Types.Unsupported):
                continue
            v = getattr(x, n)
            if v is not None:
                parts.append(f"{n}={expr(e, v, used)}")
        return f"{C.__name__}({', '.join(parts)})"
    if isinstance(x, datetime.datetime):
        return f"datetime.datetime({x.year}, {x.month}, {x.day}, {x.hour}, {x.minute}, {x.second}, {x.microsecond}, tzinfo=UTC)"
    if isinstance(x, datetime.time):
        return f"datetime.time({x.hour}, {x.minute}, {x.second}, {x.microsecond}, tzinfo=UTC)"
    if isinstance(x, decimal.Decimal):
        return f"Decimal({str(x)!r})"
    return repr(x)


PRE = "import sys, warnings, importlib\nwarnings.simplefilter('ignore')\n"

PIPE = ("def pipeline(x):\n"
        "    text = ET.tostring(x.to_etree(), method='html').decode()\n"
        "    b = TreeBuilder(); b.feed(text)\n"
        "    return Aggregate.from_etree(b.close())\n")


def snippet_with_witness(e, x, check, comment):
    used = set()
    ex = expr(e, x, used)
    imports = "".join(f"from {c.__module__} import {c.__name__}\n" for c in sorted(used, key=lambda c: c.__name__))
    return (PRE + "import datetime\nimport xml.etree.ElementTree as ET\nfrom decimal import Decimal\n"
            "from ofxtools.utils import UTC\nfrom ofxtools.Parser import TreeBuilder\nfrom ofxtools.models.base import Aggregate\n"
            + "# " + comment + "\n" + PIPE +
            "try:\n" + "".join("    " + l + "\n" for l in imports.splitlines()) +
            f"    x = {ex}\n    y = pipeline(x)\n    ok = {check}\n"
            "except Exception as ex:\n    print(type(ex).__name__, ex); ok = False\n"
            "sys.exit(0 if ok else 17)\n")


def snippet_native(clause, C, name, seed):
    return (PRE + "# re-decides this one obligation with the check's own (z3-free) engine on the current tree\n"
            "from xengine.aggx import native\n"
            f"sys.exit(native({clause!r}, {C.__module__!r}, {C.__name__!r}, {name!r}, {seed!r}))\n")


def pipeline(e, x):
    """the real write/read route; returns (written root, text, model read back, warnings raised)"""
    with warnings.catch_warnings(record=True) as w:
        warnings.simplefilter("always")
        root = x.to_etree()
        text = ET.tostring(root, method="html").decode()
        b = e.TreeBuilder()
        b.feed(text)
        y = e.Aggregate.from_etree(b.close())
    return root, text, y, [str(i.message)[:160] for i in w]


def R(name, clause, C, ok, detail="", python="", attr="", t0=None, sample=None):
    return {"name": name, "clause": clause, "class": C.__name__ if C is not None else "", "module": C.__module__ if C is not None else "",
            "attr": attr, "ok": bool(ok), "detail": detail, "python": python,
            "time": (time.time() - t0) if t0 else 0.0, "sample": sample}


# --------------------------------------------------------------------------------------------
# clauses
# --------------------------------------------------------------------------------------------

def i1(e, C, seed=0):
    t0 = time.time()
    name = f"C13/I1/{C.__name__}"
    got = getattr(e.M, C.__name__, None)
    ok = got is C
    det = "" if ok else (f"getattr(ofxtools.models, {C.__name__!r}) is {got!r}, not the class defined in {C.__module__}: "
                         f"Aggregate.from_etree cannot find it by its tag")
    py = (PRE + "import ofxtools.models as M\n"
          "try:\n"
          f"    C = getattr(importlib.import_module({C.__module__!r}), {C.__name__!r}, None)\n"
          "except ImportError:\n    C = None\n"
          "# Aggregate.from_etree() looks a class up as getattr(ofxtools.models, elem.tag)\n"
          f"sys.exit(17 if C is not None and getattr(M, {C.__name__!r}, None) is not C else 0)\n")
    return [R(name, "I1", C, ok, det, py, t0=t0)]


def i2(e, C, seed=0):
    out = []
    for n, t in e.spec[C]:
        k = kind(e, t)
        if k not in ("subaggregate", "listaggregate"):
            continue
        t0 = time.time()
        ty = getattr(t, "__type__", None)
        name = f"C13/I2/{C.__name__}/{n}"
        if not (inspect.isclass(ty) and issubclass(ty, e.Aggregate)):
            ok, det = False, f"{C.__name__}.{n}: child type {ty!r} is not an Aggregate subclass"
        else:
            ok = ty.__name__.lower() == n
            det = "" if ok else (f"{C.__name__}.{n} is declared as {type(t).__name__}({ty.__name__}) but to_etree writes <{ty.__name__}>, "
                                 f"_convert.update_args looks up '{ty.__name__.lower()}' in the spec and _apply_args admits list members "
                                 f"only under '{ty.__name__.lower()}': the child can never be stored in or read back into '{n}'")
        py = (PRE + "from ofxtools import Types\n"
              "try:\n"
              f"    C = getattr(importlib.import_module({C.__module__!r}), {C.__name__!r}, None)\n"
              "except ImportError:\n    C = None\n"
              f"t = None if C is None else C.spec.get({n!r})\n"
              f"bad = isinstance(t, Types.SubAggregate) and getattr(t.__type__, '__name__', '').lower() != {n!r}\n"
              "sys.exit(17 if bad else 0)\n")
        out.append(R(name, "I2", C, ok, det, py, attr=n, t0=t0))
    return out


def _written_tag(e, n, t):
    k = kind(e, t)
    if k in ("subaggregate", "listaggregate") and inspect.isclass(getattr(t, "__type__", None)):
        return t.__type__.__name__
    return n.upper()


def _tag_problem(tag):
    if not TAG_RE.match(tag):
        return f"tag {tag!r} is outside [A-Z0-9_]+ (TreeBuilder's tag alphabet without '.', '/', ' ')"
    if tag.lower() in HTML_VOID:
        return f"tag {tag!r} is an HTML void element: ET.tostring(method='html') writes no end tag for it"
    if tag.lower() in HTML_RAW:
        return f"tag {tag!r}: ET.tostring(method='html') does not escape text inside script/style"
    return None


def _mk_elem(e, C, items):
    root = ET.Element(C.__name__)
    for n, t in items:
        ch = ET.SubElement(root, _written_tag(e, n, t))
        if kind(e, t) in ("element", "listelement"):
            ch.text = "x"
        else:
            ET.SubElement(ch, "X").text = "x"
    return root


def i3(e, C, seed=0):
    """tags survive ungroom (after writing) followed by groom (before reading)"""
    out = []
    items = [(n, t) for n, t in e.spec[C] if kind(e, t) != "unsupported"]
    overrides = any(("groom" in B.__dict__ or "ungroom" in B.__dict__) for B in C.mro() if B is not e.Aggregate)

    def one(sub, name, attr=""):
        t0 = time.time()
        try:
            src = _mk_elem(e, C, sub)
            before = [ch.tag for ch in src]
            written = C.ungroom(src)
            if written is None:
                raise ValueError("ungroom returned None")
            wtags = [ch.tag for ch in written]
            back = C.groom(written)
            if back is None:
                raise ValueError("groom returned None")
            btags = [ch.tag for ch in back]
            probs = [p for p in (_tag_problem(t) for t in wtags) if p]
            ok = btags == before and len(wtags) == len(before) and not probs and written.tag == C.__name__ == back.tag
            det = "" if ok else f"tags {before} written as {wtags} read back as {btags}" + ("; " + "; ".join(probs) if probs else "")
        except Exception as ex:
            ok, det = False, f"groom/ungroom raised {type(ex).__name__}: {ex}"
        return R(name, "I3", C, ok, det, snippet_native("I3", C, name, seed), attr=attr, t0=t0)

    out.append(one(items, f"C13/I3/{C.__name__}"))
    if overrides:
        for n, t in items:
            out.append(one([(n, t)], f"C13/I3/{C.__name__}/{n}", n))
    return out


def _member_profile(e, x):
    return sorted(type(m).__name__ if isinstance(m, e.Aggregate) else "str:" + str(m) for m in x)


def i4(e, C, seed=0, builder=None):
    """list members are written where the reader accepts them"""
    sp = e.spec[C]
    idx = [i for i, (n, t) in enumerate(sp) if is_list(kind(e, t))]
    if not idx:
        return []
    t0 = time.time()
    b = builder or Builder(e, seed)
    name = f"C13/I4/{C.__name__}"
    # a list attribute whose name does not match its member class (clause I2) can hold no member at all:
    # it is reported there and left out of the position check here
    misnamed = [sp[i][0] for i in idx if kind(e, sp[i][1]) == "listaggregate"
                and getattr(getattr(sp[i][1], "__type__", None), "__name__", "").lower() != sp[i][0]]
    idx = [i for i in idx if sp[i][0] not in misnamed]
    if not idx:
        return []
    L = [sp[i][0] for i in idx]
    between = [sp[i][0] for i in range(idx[0], idx[-1] + 1) if kind(e, sp[i][1]) in ("element", "subaggregate")]
    static_ok = not between
    probes = [(tuple(between), tuple(L))]
    # fallbacks when the one big witness cannot be built (mutually exclusive in-between children, member limits)
    small = []
    for a in between:
        ia = [i for i, (n, t) in enumerate(sp) if n == a][0]
        before = [sp[i][0] for i in idx if i < ia][-1]
        after = [sp[i][0] for i in idx if i > ia][0]
        small.append(((a,), (before, after)))
    if not between:
        small += [((), (l1, l2)) for l1, l2 in zip(L, L[1:])] or [((), (L[0],))]
    problems, built, wit, py = [], 0, None, ""
    todo = list(probes)
    fell_back = False
    while todo:
        extra, members = todo.pop(0)
        try:
            x = b.witness(C, extra, members)
        except Exception as ex:
            if not fell_back and small and small != probes:
                fell_back = True
                todo = list(small)      # search the smaller shapes instead
                continue
            problems.append(f"no witness with {list(extra)} + members {list(members)}: {str(ex)[:300]}")
            continue
        built += 1
        check = ("type(y) is type(x) and sorted(type(m).__name__ if isinstance(m, Aggregate) else 'str:' + str(m) for m in y) == "
                 "sorted(type(m).__name__ if isinstance(m, Aggregate) else 'str:' + str(m) for m in x) and "
                 "all(getattr(y, a) is not None for a in %r)" % (list(extra),))
        try:
            root, text, y, ws = pipeline(e, x)
            good = type(y) is type(x) and _member_profile(e, y) == _member_profile(e, x) and all(getattr(y, a) is not None for a in extra)
            if not good:
                problems.append(f"members/children differ after the round trip of {text[:200]}")
        except Exception as ex:
            good = False
            problems.append(f"round trip of a {C.__name__} with members of {list(members)} and {list(extra)} present raised "
                            f"{type(ex).__name__}: {str(ex)[:200]}")
        if wit is None or not good:
            wit = expr(e, x, set())
            py = snippet_with_witness(e, x, check, f"{name}: to_etree writes all list members at the first list attribute; the reader must accept that")
        if not good:
            break
    ok = static_ok and not problems
    det = ""
    if not ok:
        det = (f"list attributes {L} of {C.__name__}" + (f" are separated by non-list attributes {between}" if between else "")
               + ("; " + "; ".join(problems) if problems else "; no failing instance could be built"))
    if not py:
        py = snippet_native("I4", C, name, seed)
    return [R(name, "I4", C, ok, det, py, t0=t0,
              sample={"obligation": name, "list_attributes": L, "between": between, "left_to_I2": misnamed, "witness": (wit or "")[:400], "witnesses_built": built})]


def i5(e, C, seed=0):
    out = []
    sd = dict(e.spec[C])
    seen = set()
    for kindattr, label in (("optionalMutexes", "optional"), ("requiredMutexes", "required")):
        eff = [list(g) for g in (getattr(C, kindattr, None) or [])]
        src = next((B.__name__ for B in C.mro() if kindattr in B.__dict__), "?")
        for B in C.mro():
            for g in (B.__dict__.get(kindattr) or []):
                g = list(g)
                gid = (label, tuple(sorted(g)))
                if gid in seen:
                    continue
                seen.add(gid)
                t0 = time.time()
                name = f"C13/I5/{C.__name__}/{label}:{'+'.join(g)}"
                probs = []
                if not any(set(x) == set(g) for x in eff):
                    probs.append(f"declared by base {B.__name__} but not in force: {C.__name__}.{kindattr} resolves to {src}.{kindattr} = {eff}")
                for m in g:
                    if m not in sd:
                        probs.append(f"'{m}' is not an attribute of {C.__name__}")
                        continue
                    k = kind(e, sd[m])
                    if is_list(k):
                        probs.append(f"'{m}' is a repeated child ({k}): list members are positional, validate_args counts keyword arguments only, so the group never sees it")
                    elif k == "unsupported":
                        probs.append(f"'{m}' is Unsupported (its value is always None)")
                    elif getattr(sd[m], "required", False):
                        probs.append(f"'{m}' is individually required")
                if len(set(g)) < 2:
                    probs.append("group has fewer than two distinct members")
                py = (PRE + "from ofxtools import Types\n"
                      "try:\n"
                      f"    C = getattr(importlib.import_module({C.__module__!r}), {C.__name__!r}, None)\n"
                      "except ImportError:\n    C = None\n"
                      f"group, attr = {g!r}, {kindattr!r}\n"
                      "if C is None or not any(set(g) == set(group) for B in C.mro() for g in (B.__dict__.get(attr) or [])):\n"
                      "    sys.exit(0)   # class or group no longer declared\n"
                      "sp = C.spec\n"
                      "bad = not any(set(g) == set(group) for g in getattr(C, attr))\n"
                      "bad = bad or len(set(group)) < 2 or any(m not in sp or isinstance(sp[m], (Types.ListAggregate, Types.ListElement, Types.Unsupported))\n"
                      "                 or getattr(sp[m], 'required', False) for m in group)\n"
                      "sys.exit(17 if bad else 0)\n")
                out.append(R(name, "I5", C, not probs, "; ".join(probs), py, attr=f"{label}:{'+'.join(g)}", t0=t0))
    return out


def i6(e, C, seed=0):
    t0 = time.time()
    name = f"C13/I6/{C.__name__}"
    ks = [(n, kind(e, t)) for n, t in e.spec[C]]
    le = [n for n, k in ks if k == "listelement"]
    la = [n for n, k in ks if k == "listaggregate"]
    if issubclass(C, e.ElementList):
        ok = len(le) == 1 and not la
        det = "" if ok else f"ElementList {C.__name__} must have exactly one ListElement and no ListAggregate; has ListElement {le}, ListAggregate {la}"
    else:
        ok = not le
        det = "" if ok else f"{C.__name__} is not an ElementList but declares ListElement {le} (to_etree would call member.to_etree() on a str)"
    return [R(name, "I6", C, ok, det, snippet_native("I6", C, name, seed), t0=t0)]


def i7(e, C, seed=0):
    t0 = time.time()
    name = f"C13/I7/{C.__name__}"
    probs = []
    p = _tag_problem(C.__name__)
    if p:
        probs.append("class name: " + p)
    for n, t in e.spec[C]:
        if n != n.lower():
            probs.append(f"attribute {n!r} is not lower-case: update_args looks up elem.tag.lower()")
        p = _tag_problem(n.upper())
        if p:
            probs.append(f"attribute {n!r}: " + p)
    return [R(name, "I7", C, not probs, "; ".join(probs), snippet_native("I7", C, name, seed), t0=t0)]


def _children(e, C):
    return [t.__type__ for n, t in e.spec.get(C, []) if kind(e, t) in ("subaggregate", "listaggregate")
            and inspect.isclass(getattr(t, "__type__", None)) and issubclass(t.__type__, e.Aggregate)]


def i8(e, C, seed=0):
    """C is not reachable from itself along SubAggregate/ListAggregate references"""
    t0 = time.time()
    name = f"C13/I8/{C.__name__}"
    seen, stack, path = set(), [(c, (C.__name__, c.__name__)) for c in _children(e, C)], None
    while stack:
        c, p = stack.pop()
        if c is C:
            path = p
            break
        if c in seen:
            continue
        seen.add(c)
        if c not in e.spec:
            e.spec[c] = list(c.spec.items())
        stack += [(d, p + (d.__name__,)) for d in _children(e, c)]
    ok = path is None
    det = "" if ok else "cycle: " + " -> ".join(path)
    return [R(name, "I8", C, ok, det, snippet_native("I8", C, name, seed), t0=t0)]


def i9(e, C, seed=0, builder=None):
    """for every declared child there is an instance containing it that survives the real write/read route"""
    out = []
    b = builder or Builder(e, seed)
    stats = {"children": 0, "unsupported": 0, "witnesses": 0}
    for n, t in e.spec[C]:
        k = kind(e, t)
        if k == "unsupported":
            stats["unsupported"] += 1
            continue
        stats["children"] += 1
        t0 = time.time()
        name = f"C13/I9/{C.__name__}/{n}"
        sample = None
        try:
            x = b.witness(C, (n,), ()) if not is_list(k) else b.witness(C, (), (n,))
        except Exception as ex:
            out.append(R(name, "I9", C, False, f"no witness: {str(ex)[:500]}", snippet_native("I9", C, name, seed), attr=n, t0=t0))
            continue
        stats["witnesses"] += 1
        if k == "element":
            check = f"type(y) is type(x) and x.{n} is not None and type(y.{n}) is type(x.{n}) and y.{n} == x.{n}"
        elif k == "subaggregate":
            check = f"type(y) is type(x) and x.{n} is not None and type(y.{n}) is type(x.{n}) and type(x.{n}).__name__.lower() == {n!r}"
        elif k == "listaggregate":
            check = (f"type(y) is type(x) and [type(m).__name__.lower() for m in x].count({n!r}) >= 1 and "
                     f"[type(m).__name__.lower() for m in y].count({n!r}) == [type(m).__name__.lower() for m in x].count({n!r})")
        else:
            check = "type(y) is type(x) and len(x) >= 1 and list(y) == list(x)"
        py = snippet_with_witness(e, x, check, f"{name}: the child must be written and read back into the same attribute")
        try:
            root, text, y, ws = pipeline(e, x)
            tags = [ch.tag.lower() for ch in C.groom(root)]
            ok = bool(eval(check, {"x": x, "y": y})) and n in tags
            det = "" if ok else (f"child {n!r} of {C.__name__} not read back into the same attribute: wrote {text[:300]!r}, "
                                 f"child tags after groom {tags}, read {y!r}" + (f", warnings {ws}" if ws else ""))
            sample = {"obligation": name, "kind": k, "witness": expr(e, x, set())[:300], "written": text[:300]}
        except Exception as ex:
            ok, det = False, f"write/read of the witness raised {type(ex).__name__}: {str(ex)[:300]}; witness {expr(e, x, set())[:300]}"
        out.append(R(name, "I9", C, ok, det, py, attr=n, t0=t0, sample=sample))
    return out, stats


def i11(e, C, seed=0, builder=None):
    """a tree whose children stand in the class's own declared order is accepted by the reader, and every child comes back
    (the complement of I4, which is about where the WRITER puts list members): only generated for classes that declare a
    non-repeated child after a repeated one - for the others I4's witness already is in declared order"""
    sp = e.spec[C]
    idx = [i for i, (n, t) in enumerate(sp) if is_list(kind(e, t))]
    if not idx:
        return []
    later = [sp[i][0] for i in range(idx[0] + 1, len(sp)) if kind(e, sp[i][1]) in ("element", "subaggregate")]
    if not later:
        return []
    t0 = time.time()
    b = builder or Builder(e, seed)
    name = f"C13/I11/{C.__name__}"
    L = [sp[i][0] for i in idx if not (kind(e, sp[i][1]) == "listaggregate"
                                       and getattr(getattr(sp[i][1], "__type__", None), "__name__", "").lower() != sp[i][0])]
    order = {n.upper(): i for i, (n, t) in enumerate(sp)}
    problems, built, py = [], 0, ""
    for a in later:
        ia = [i for i, (n, t) in enumerate(sp) if n == a][0]
        before = [l for l in L if order[l.upper()] < ia][-1:]
        after = [l for l in L if order[l.upper()] > ia][:1]
        members = tuple(before + after)
        if not members:
            continue
        try:
            x = b.witness(C, (a,), members)
        except Exception:
            continue            # reachability of the child itself is clause I9
        built += 1
        tags = []
        try:
            with warnings.catch_warnings():
                warnings.simplefilter("ignore")
                root = x.to_etree()
                kids = list(root)
                if any(k.tag not in order for k in kids):
                    continue        # a class whose ungroom() renames children: declared order is not the wire order
                for k in kids:
                    root.remove(k)
                for k in sorted(kids, key=lambda k: order[k.tag]):      # stable: members of one list keep their order
                    root.append(k)
                tags = [k.tag for k in root]
                text = ET.tostring(root, method="html").decode()
                tb = e.TreeBuilder(); tb.feed(text)
                y = e.Aggregate.from_etree(tb.close())
            good = type(y) is type(x) and _member_profile(e, y) == _member_profile(e, x) and getattr(y, a) is not None
            if not good:
                problems.append(f"children in declared order {tags} do not all come back")
        except Exception as ex:
            good = False
            problems.append(f"a {C.__name__} whose children stand in declared order {tags} is refused: {type(ex).__name__}: {str(ex)[:200]}")
        if not good and not py:
            used = set()
            exs = expr(e, x, used)
            imports = "".join(f"from {c.__module__} import {c.__name__}\n" for c in sorted(used, key=lambda c: c.__name__))
            py = (PRE + "import datetime\nimport xml.etree.ElementTree as ET\nfrom decimal import Decimal\n"
                  "from ofxtools.utils import UTC\nfrom ofxtools.Parser import TreeBuilder\nfrom ofxtools.models.base import Aggregate\n"
                  f"# {name}: children put in the order the class declares them must be readable\n"
                  "try:\n" + "".join("    " + l + "\n" for l in imports.splitlines()) +
                  f"    x = {exs}\n    root = x.to_etree(); kids = list(root)\n"
                  "    order = {n.upper(): i for i, n in enumerate(type(x).spec)}\n"
                  "    for k in kids: root.remove(k)\n"
                  "    for k in sorted(kids, key=lambda k: order[k.tag]): root.append(k)\n"
                  "    b = TreeBuilder(); b.feed(ET.tostring(root, method='html').decode())\n"
                  "    y = Aggregate.from_etree(b.close())\n"
                  f"    ok = type(y) is type(x) and len(y) == len(x) and getattr(y, {a!r}) is not None\n"
                  "except Exception as ex:\n    print(type(ex).__name__, ex); ok = False\n"
                  "sys.exit(0 if ok else 17)\n")
    if not built:
        return []
    ok = not problems
    return [R(name, "I11", C, ok, "; ".join(problems), py or snippet_native("I11", C, name, seed), t0=t0)]


def i12(e, C, seed=0):
    """a slot admits only instances that are written under the slot's own tag: SubAggregate.convert admits by isinstance,
    to_etree writes type(value).__name__ - so no other class of the space may be a strict subclass of a declared child type"""
    out = []
    for n, t in e.spec[C]:
        if kind(e, t) != "subaggregate":
            continue
        ty = getattr(t, "__type__", None)
        if not (inspect.isclass(ty) and issubclass(ty, e.Aggregate)):
            continue
        t0 = time.time()
        name = f"C13/I12/{C.__name__}/{n}"
        subs = sorted(s.__name__ for s in e.classes if s is not ty and issubclass(s, ty) and s.__name__ != ty.__name__)
        ok = not subs
        det = "" if ok else (f"{C.__name__}.{n} is declared as SubAggregate({ty.__name__}) and admits by isinstance: an instance of its subclass "
                             f"{subs[0]} is accepted in this slot but written under <{subs[0]}>, not <{ty.__name__}>, and is not read back into '{n}'"
                             + (f" (also: {subs[1:6]})" if len(subs) > 1 else ""))
        py = (PRE + "from ofxtools import Types\nimport ofxtools.models as M, inspect\nfrom ofxtools.models.base import Aggregate\n"
              "try:\n"
              f"    C = getattr(importlib.import_module({C.__module__!r}), {C.__name__!r}, None)\n"
              "except ImportError:\n    C = None\n"
              f"t = None if C is None else C.spec.get({n!r})\n"
              "ty = getattr(t, '__type__', None)\n"
              "bad = [v.__name__ for v in vars(M).values() if inspect.isclass(v) and inspect.isclass(ty) and v is not ty and issubclass(v, ty)]\n"
              "print(bad)\nsys.exit(17 if bad else 0)\n")
        out.append(R(name, "I12", C, ok, det, py, attr=n, t0=t0))
    return out


def i13(e, C, seed=0, builder=None):
    """a group in force is enforced: the constructor refuses an instance carrying two members of an exclusivity group
    (I5 reads the declarations; a validate_args override that does not consult them is only seen by trying)"""
    out = []
    sd = dict(e.spec[C])
    b = builder or Builder(e, seed)
    for kindattr, label in (("optionalMutexes", "optional"), ("requiredMutexes", "required")):
        for g in (getattr(C, kindattr, None) or []):
            g = [m for m in g if isinstance(m, str)]
            usable = [m for m in g if m in sd and kind(e, sd[m]) in ("element", "subaggregate") and not getattr(sd[m], "required", False)]
            if len(usable) < 2:
                continue
            t0 = time.time()
            m1, m2 = usable[0], usable[1]
            name = f"C13/I13/{C.__name__}/{label}:{'+'.join(g)}"
            try:
                x1 = b.witness(C, (m1,), ())
                x2 = b.witness(C, (m2,), ())
            except Exception:
                continue                  # no witness: reachability is clause I9's business
            names = [n for n, t in e.spec[C] if kind(e, t) in ("element", "subaggregate")]
            kw = {n: getattr(x1, n) for n in names if getattr(x1, n) is not None}
            v2 = getattr(x2, m2)
            if v2 is None or kw.get(m1) is None:
                continue
            kw[m2] = v2
            try:
                with warnings.catch_warnings():
                    warnings.simplefilter("ignore")
                    C(*list(x1), **kw)
                ok, det = False, (f"{C.__name__} declares the {label} exclusivity group {g}, yet the constructor builds an instance holding both "
                                  f"'{m1}' and '{m2}'")
            except Exception:
                ok, det = True, ""
            if ok and label == "required":
                # exactly one: an instance with NONE of the group - the members left out, or spelled out as None - is refused too
                for spelled in [None] + [m_ for m_ in g if m_ in sd]:
                    kw0 = {n: v for n, v in kw.items() if n not in g}
                    if spelled:
                        kw0[spelled] = None
                    try:
                        with warnings.catch_warnings():
                            warnings.simplefilter("ignore")
                            C(*list(x1), **kw0)
                        ok, det = False, (f"{C.__name__} declares the required group {g}, yet the constructor builds an instance holding none of its members"
                                          + (f" ('{spelled}' given as None)" if spelled else ""))
                        break
                    except Exception:
                        pass
            used = set()
            try:
                ex1, ex2 = expr(e, x1, used), expr(e, x2, used)
                imports = "".join(f"from {c.__module__} import {c.__name__}\n" for c in sorted(used, key=lambda c: c.__name__))
                py = (PRE + "import datetime\nfrom decimal import Decimal\nfrom ofxtools.utils import UTC\n"
                      "try:\n" + "".join("    " + l + "\n" for l in imports.splitlines()) +
                      f"    x1 = {ex1}\n    x2 = {ex2}\n"
                      f"    names = {names!r}\n"
                      "    kw = {n: getattr(x1, n) for n in names if getattr(x1, n) is not None}\n"
                      f"    kw[{m2!r}] = getattr(x2, {m2!r})\n"
                      "except Exception as ex:\n    print('witness no longer constructible', ex); sys.exit(0)\n"
                      "try:\n    type(x1)(*list(x1), **kw)\nexcept Exception:\n    sys.exit(0)\n"
                      "sys.exit(17)\n")
            except Exception:
                py = snippet_native("I13", C, name, seed)
            out.append(R(name, "I13", C, ok, det, py, attr=f"{label}:{'+'.join(g)}", t0=t0))
    return out


PER_CLASS = {"I12": i12, "I1": i1, "I2": i2, "I3": i3, "I4": i4, "I5": i5, "I6": i6, "I7": i7, "I8": i8}


def check_class(e, C, seed, builder=None):
    """all obligations of one concrete class; returns (results, stats)"""
    b = builder or Builder(e, seed)
    res = []
    for cl in ("I1", "I2", "I3"):
        res += PER_CLASS[cl](e, C, seed)
    res += i4(e, C, seed, b)
    for cl in ("I5", "I6", "I7", "I8", "I12"):
        res += PER_CLASS[cl](e, C, seed)
    res += i11(e, C, seed, b)
    res += i13(e, C, seed, b)
    r9, stats = i9(e, C, seed, b)
    res += r9
    return res, stats


def work(job):
    """process-pool entry: job = (list of (module, name) keys, seed)"""
    keys, seed = job
    e = env()
    b = Builder(e, seed)
    results, stats = [], {"children": 0, "unsupported": 0, "witnesses": 0, "attempts": 0}
    for k in keys:
        r, s = check_class(e, e.by_key[k], seed, b)
        results += r
        for kk in ("children", "unsupported", "witnesses"):
            stats[kk] += s[kk]
    stats["attempts"] = b.attempts
    return results, stats


def native(clause, module, clsname, name, seed=0):
    """re-decide one obligation on the current tree: 17 still violated, 0 holds or no longer exists"""
    e = env()
    try:
        C = getattr(importlib.import_module(module), clsname, None)
    except ImportError:
        C = None
    if C is None or not (inspect.isclass(C) and issubclass(C, e.Aggregate)):
        print("class no longer exists")
        return 0
    if C not in e.spec:
        e.spec[C] = list(C.spec.items())
    if clause == "I9":
        res, _ = i9(e, C, seed)
    elif clause == "I4":
        res = i4(e, C, seed)
    elif clause == "I11":
        res = i11(e, C, seed)
    elif clause == "I13":
        res = i13(e, C, seed)
    else:
        res = PER_CLASS[clause](e, C, seed)
    for r in res:
        if r["name"] == name:
            print(name, "holds" if r["ok"] else "VIOLATED: " + r["detail"])
            return 0 if r["ok"] else 17
    print("obligation no longer generated")
    return 0
