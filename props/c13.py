"""C13 - every child a model class declares can be built, written and read back (engine X: exhaustive, finite).

One obligation per (class, clause[, attribute | mutex group]); the class list is enumerated from the
imported package on every run.  Clauses I1..I9 are described in DESIGN section 9 (I10 is folded into I5).
A failing obligation is a VIOLATION unless its exact name is listed under "covers" of a C13 entry of
known_findings.json; such an obligation is *not* counted as discharged - it is left out of the
obligations and listed under coverage.carved_out, and the finding is replayed natively at the end.
"""
import collections, inspect, os, time
from concurrent.futures import ProcessPoolExecutor

from props.common import replay_known_findings
from vlib.common import load_known_findings

LEVEL = "other"
BACKEND = "enumeration"
WORKERS = 16

EXPLANATION = (
    "Exhaustive decision over a finite, fully enumerated space - not a sample and not a symbolic proof. "
    "On every run the check imports ofxtools.models (and every submodule of the package), enumerates every Aggregate "
    "subclass (transitive __subclasses__() of Aggregate plus everything in the package namespace), and for every concrete "
    "class decides each structural clause on the real class object: I1 the class is found under its own name in the "
    "package namespace (from_etree's lookup); I2 every SubAggregate/ListAggregate attribute is named after its type; "
    "I3 tags survive ungroom followed by groom; I4 list members are written where the library's reader accepts them "
    "(decided statically from the attribute order and confirmed by a constructed instance); I5 every mutual-exclusion "
    "group declared anywhere in the MRO is in force in the class and names existing, non-repeated, not individually "
    "required attributes (I10); I6 ElementList has exactly one ListElement, other aggregates none; I7 tag alphabet and "
    "HTML-serializer hazards; I8 the class reference graph has no cycle through the class. Clause I9 is the "
    "for-all/exists statement: for EVERY declared child of EVERY concrete class (Unsupported placeholders excepted and "
    "counted) a witness constructor builds a minimal valid instance containing that child from the spec alone "
    "(required children, a required-mutex choice, further optional children or list members searched when a custom "
    "validate_args refuses), and that instance is run through the real route instance.to_etree() -> "
    "ET.tostring(method='html') -> ofxtools.Parser.TreeBuilder().feed()/close() -> Aggregate.from_etree(); the child must "
    "come back in the same attribute with an equal value / the same class. A child for which no witness can be built is a "
    "failed obligation, never a skipped one. The space is the finite set of (class, clause, attribute/group) triples of "
    "the tree under test; every one of them is generated and decided (exhaustive: true), so a new class, attribute or "
    "group is picked up without editing the check. What is NOT claimed: that the round trip holds for all values of a "
    "child (that is C01/C10) - element values in the witnesses are seeded random alphanumeric strings, plain decimals, "
    "integers, enum members and UTC date-times."
)


def _chunks(e, n):
    """balanced split of the concrete classes (largest specs first, round robin)"""
    from xengine import aggx
    order = sorted(e.concrete, key=lambda c: (-len(e.spec[c]), c.__name__))
    out = [[] for _ in range(n)]
    for i, c in enumerate(order):
        out[i % n].append(aggx.key_of(c))
    return [c for c in out if c]


def _run_pool(e, seed):
    from xengine import aggx
    jobs = [(ch, seed) for ch in _chunks(e, WORKERS * 3)]
    if os.environ.get("VERIF_SERIAL"):
        return [aggx.work(j) for j in jobs]
    with ProcessPoolExecutor(max_workers=WORKERS) as ex:
        return list(ex.map(aggx.work, jobs))


def run(rep, tier, seed):
    from xengine import aggx
    t0 = time.time()
    e = aggx.env()
    rep.extra["explanation"] = EXPLANATION
    rep.extra["exhaustive"] = True
    rep.trusted += [
        "T-X-ENUM: the class universe is taken from Aggregate.__subclasses__() (transitively) after importing every submodule of "
        "ofxtools.models, plus every Aggregate subclass in vars(ofxtools.models); a class created dynamically after import is not seen",
        "T-X-HTML: xml.etree.ElementTree.tostring(method='html') is the rendering used between to_etree and TreeBuilder "
        "(the library's own renderers are the subject of C02)",
        "T-X-ENGINE: xengine/aggx.py (clause evaluators and witness constructor, plain Python) written for this task; "
        "mitigated by the native replays of every known finding and by seeded edits of a scratch tree during development",
    ]
    rep.assumptions += [
        "C13 is the structural statement only: one witness instance per declared child; values in witnesses are seeded random "
        "alphanumeric strings, plain decimals, integers, enum members, booleans and UTC date-times (value-level round trip is C01/C10)",
        "abstract bases (classes with subclasses, never named as a child type, without an OFX-style upper-case name) are enumerated and "
        "listed but carry no obligations of their own: every attribute and mutex group they declare is checked in each concrete subclass",
    ]
    for err in e.import_errors:
        rep.engine_error("submodule of ofxtools.models failed to import: " + err)
    if not e.concrete:
        rep.engine_error("no concrete Aggregate subclass enumerated")
        return
    # anchor functions (recorded with their source hash; engine X evaluates them, it does not model them)
    for fn in ("from_etree", "_convert", "to_etree", "_apply_args", "validate_args", "groom", "ungroom"):
        try:
            f = inspect.getattr_static(e.Aggregate, fn)
            f = getattr(f, "__func__", f)
            src, line = inspect.getsourcelines(f)
            rep.note_function(f"ofxtools.models.base.Aggregate.{fn}", inspect.getsourcefile(f), line, "".join(src))
        except Exception:
            pass

    covers = {}
    for kf in load_known_findings().get("findings", []):
        if kf.get("property") == rep.prop:
            for n in kf.get("covers", []):
                covers[n] = kf["id"]

    seeds = [seed] if tier == "quick" else [seed, seed + 1, seed + 2, seed + 3]
    carved, now_passing, per_clause = [], [], collections.Counter()
    stats = collections.Counter()
    samples = {}
    seen_names = set()
    for si, sd in enumerate(seeds):
        try:
            parts = _run_pool(e, sd)
        except Exception as ex:
            rep.engine_error(f"enumeration worker failed: {type(ex).__name__}: {ex}")
            return
        nres = nbad = 0
        for results, st in parts:
            if si == 0:
                stats.update(st)
            for r in results:
                nres += 1
                if si > 0:
                    # thorough tier: the same enumeration with other witness values; only new failures are recorded
                    if r["ok"] or r["name"] in covers or r["clause"] not in ("I4", "I9", "I11", "I13"):
                        continue
                    nbad += 1
                    r = dict(r, name=f"{r['name']}@seed{sd}")
                name = r["name"]
                if name in seen_names:
                    rep.engine_error(f"obligation name generated twice: {name} (two classes with the same __name__?)")
                    continue
                seen_names.add(name)
                fn = f"{r['module']}.{r['class']}"
                if r["ok"]:
                    per_clause[r["clause"]] += 1
                    rep.ok(name, BACKEND, r["time"], "top", fn)
                    if name in covers:
                        now_passing.append({"obligation": name, "known_finding": covers[name]})
                    if r.get("sample") and r["clause"] in ("I4", "I9"):
                        k = (r["clause"], r["sample"].get("kind", ""))
                        samples.setdefault(k, r["sample"])
                elif name in covers:
                    carved.append({"obligation": name, "known_finding": covers[name], "detail": r["detail"][:300]})
                else:
                    per_clause[r["clause"]] += 1
                    rep.fail(name, BACKEND, r["detail"][:600], r["time"], "top", fn)
                    rep.violation(name, {"class": r["class"], "module": r["module"], "clause": r["clause"], "attribute": r["attr"],
                                         "detail": r["detail"], "python": r["python"],
                                         "rerun": f"./check C13 --replay replays/C13/<this file>  (exit 1 while the invariant is still violated)"})
        if si > 0:
            rep.add_bounded("witness constructor (I4, I9)", "X(value variation)", f"seed {sd}: all children again with other element values", nres, nbad)

    # examples written out
    for k in sorted(samples):
        rep.sample(samples[k])
    for o in rep.obligations:
        if o.name.startswith("C13/I5/") and len(rep.samples) < 9:
            rep.sample({"obligation": o.name, "status": o.status, "class": o.function})
            break
    for c in carved[:3]:
        rep.sample({"obligation": c["obligation"], "status": "carved out: " + c["known_finding"], "detail": c["detail"][:200]})

    rep.extra.update({
        "classes_enumerated": len(e.classes),
        "concrete_classes": len(e.concrete),
        "abstract_bases": [c.__name__ for c in e.abstract],
        "exported_by_package": len(e.exported),
        "declared_children": stats["children"],
        "unsupported_children": stats["unsupported"],
        "witnesses_built": stats["witnesses"],
        "constructor_attempts": stats["attempts"],
        "obligations_per_clause": dict(sorted(per_clause.items())),
        "carved_out": carved,
        "carved_out_count": len(carved),
        "covered_now_passing": now_passing,
        "enumeration_size": len(seen_names),
        "enumeration_time_s": round(time.time() - t0, 2),
        "rule": "one obligation per (concrete class, clause I1..I9[, attribute | mutex group]) generated from the imported package; "
                "I9: one constructed instance per declared non-Unsupported child run through to_etree/tostring/TreeBuilder/from_etree",
    })
    if stats["children"] == 0:
        rep.engine_error("no declared child enumerated")
    replay_known_findings(rep)
