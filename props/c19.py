"""C19 - ofxget requests exactly the configured or discovered accounts and the given dates."""
from props.common import run_contracts, replay_known_findings
from props.c10 import TRUSTED

LEVEL = "proof"


def run(rep, tier, seed):
    rep.trusted += TRUSTED + [
        "abstract callees in the symbolic contracts: convert_datetime, get_passwd, init_client / OFXClient.request_statements (argument recorders)",
    ]
    rep.assumptions += [
        "proved: request_stmt / request_stmtend hand OFXClient.request_statements exactly one request per configured account - in type order, with that account's type, the start/end/as-of dates and the include flags - for the listed account-list length patterns with all account numbers and flags symbolic (loops are unrolled over list lengths 0..3; longer lists by uniformity of the comprehension, stated); _acctIsActive is true for ACTIVE only",
        "--all (discovery, merge with configuration, bank / broker id derivation) and the date conversion are covered by the bounded run on the real functions: sampled account-information responses (any mix of kinds and service statuses, grouped or one per ACCTINFO, any order) and 184 configured-account patterns (729 in thorough)",
        "composition with C06 gives the wire-level statement",
    ]
    run_contracts(rep, "contracts.ofxget", tier, seed)
    # what the client then makes of the requests handed over (builders, dispatch arms, assembly): the C06 contracts, run here too
    run_contracts(rep, "contracts.client_compose", tier, seed, select=lambda c: "trnrq" in c.target or "wrap_stmtrq" in c.target or "request_statements" in c.target, accept_props=["C06"])
    run_contracts(rep, "contracts.ofxget_cli", tier, seed)
    run_contracts(rep, "contracts.ofxget_discover", tier, seed)
    run_contracts(rep, "contracts.ofxget_native", tier, seed)
    replay_known_findings(rep)
