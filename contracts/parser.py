"""Sidecar contracts for ofxtools.Parser.TreeBuilder (properties C02, C08).  The C accelerator's
xml.etree.ElementTree.TreeBuilder is mirrored by a ghost builder (T-EXT): start pushes, data sets text, end pops
WITHOUT comparing the tag, close returns the root WITHOUT checking for open elements."""
import xml.etree.ElementTree as ET
import z3
from pyvc.contract import *
from pyvc.values import *
from pyvc import core as C
from pyvc import models as M
from ofxtools import Parser as P
from ofxtools.Parser import TreeBuilder, ParseError


def ev(o):
    return o.fields.setdefault("__events__", [])


def gstack(o):
    return o.fields.setdefault("__ghost_stack__", [])


def install_ghost_builder(it):
    def start(it_, o, a, k):
        if o.fields.get("__root_done__") and not gstack(o):
            raise C.Raised(ExcVal(ET.ParseError if hasattr(ET, "ParseError") else SyntaxError, ("multiple elements on top level",)))
        ev(o).append(("start", a[0])); gstack(o).append(a[0])
        return None

    def data(it_, o, a, k):
        ev(o).append(("data", a[0]))
        return None

    def end(it_, o, a, k):
        if not gstack(o):
            raise C.Raised(ExcVal(IndexError, ("pop from empty stack",)))
        gstack(o).pop()
        if not gstack(o):
            o.fields["__root_done__"] = True
        ev(o).append(("end", a[0]))
        return None

    def close(it_, o, a, k):
        ev(o).append(("close",))
        return "ROOT"
    for n, f in (("start", start), ("data", data), ("end", end), ("close", close)):
        it.methods[(ET.TreeBuilder, n)] = f


class BuilderArg(Arg):
    """a TreeBuilder whose open elements are `stack` (both in the library's own bookkeeping and in the ghost C builder)"""

    def __init__(self, name="self", stack=()):
        self.name = name; self.stack = list(stack)

    def make(self, it):
        f = {"__ghost_stack__": list(self.stack), "__events__": []}
        if self.stack:
            f["_open_tags"] = list(self.stack)
        return SObj(TreeBuilder, f, fresh=False, label="self"), []


def call_m(name):
    def call(it, fn, a):
        install_ghost_builder(it)
        r = it.call(getattr(TreeBuilder, name), list(a), {})
        return (r, a[0].fields.get("__events__", []), a[0].fields.get("_open_tags", []))
    return call


def OTx(name):
    return OptArg(TextArg(name, sampler=lambda r: r.choice(["x", " x ", "a b", "   ", "\n", "", "\tq\r\n"])))


CONTRACTS = [
    # 0 _groomstring: whitespace trimmed at both ends only; blank -> None
    Contract("ofxtools.Parser:TreeBuilder._groomstring", args=[OTx("string")],
             ensures=[("trimmed-only", "(result is None and (string is None or spec.render.trim(string) == '')) or (result is not None and string is not None and result == spec.render.trim(string) and result != '')")],
             props=["C02"]),
]
# _start: leaf with data = one complete child; start tag without data = push; with its own end tag = empty aggregate
for closetag in (None, "X"):
    CONTRACTS.append(Contract("ofxtools.Parser:TreeBuilder._start",
                              args=[BuilderArg(stack=["P"]), Const("tag", "X"), OptArg(TextArg("text", nonempty=True)), Const("closetag", closetag)],
                              call=call_m("_start"),
                              ensures=[("leaf", "text is None or (result[1] == [('start', 'X'), ('data', text), ('end', 'X')] and result[2] == ['P'])"),
                                       ("aggregate", "text is not None or " + ("(result[1] == [('start', 'X'), ('end', 'X')] and result[2] == ['P'])" if closetag else "(result[1] == [('start', 'X')] and result[2] == ['P', 'X'])"))],
                              notes=f"closetag={closetag}", props=["C02", "C08"], symbolic_only=True, modifies=["self"]))
# _feedmatch with an end tag: must match the innermost open element (C08 top)
for stack, outcome in ((["P", "X"], "ok"), (["X", "P"], "mismatch"), (["P"], "mismatch"), ([], "empty")):
    if outcome == "ok":
        kw = dict(ensures=[("pops-the-innermost", "result[1] == [('end', 'X')] and result[2] == ['P']")])
    elif outcome == "mismatch":
        kw = dict(raises=[(ParseError, "True", "must")])
    else:
        kw = dict(raises=[(IndexError, "True", "must")])
    CONTRACTS.append(Contract("ofxtools.Parser:TreeBuilder._feedmatch",
                              args=[BuilderArg(stack=stack), Const("tag", "/X"), Const("text", None), Const("closetag", None)],
                              call=call_m("_feedmatch"), notes=f"end tag </X> with open elements {stack}", props=["C08"], symbolic_only=True, modifies=["self"], **kw))
CONTRACTS += [
    Contract("ofxtools.Parser:TreeBuilder._feedmatch",
             args=[BuilderArg(stack=["P", "X"]), Const("tag", "/X"), TextArg("text", nonempty=True), Const("closetag", None)],
             call=call_m("_feedmatch"), raises=[(ParseError, "True", "must")], notes="text after an end tag", props=["C08"], symbolic_only=True, modifies=["self"]),
    Contract("ofxtools.Parser:TreeBuilder.close", args=[BuilderArg(stack=["P"])], call=call_m("close"),
             raises=[(ParseError, "True", "must")], notes="truncated body: an element is still open", props=["C08"], symbolic_only=True, modifies=["self"]),
    Contract("ofxtools.Parser:TreeBuilder.close", args=[BuilderArg(stack=[])], call=call_m("close"),
             ensures=[("root", "result[0] == 'ROOT' and result[1] == [('close',)]")], props=["C08", "C02"], symbolic_only=True, modifies=["self"]),
]


# =============================================================================== feed() on body shapes with symbolic characters
import itertools
TAGCH = "ABCDEFGHIJKLMNOPQRSTUVWXYZ0123456789._"
NOT_LT_NOT_WS = [(33, 59), (61, 132), (134, 159), (161, 5759), (5761, 8191), (8203, 8231), (8234, 8238), (8240, 8286), (8288, 12287), (12289, 0xD7FF), (0xE000, 0x10FFFF)]
NOT_LT = [(0, 59), (61, 0xD7FF), (0xE000, 0x10FFFF)]
WSCH = " \t\r\n"

STRUCTS = [
    ("a", []),
    ("a", [("l",)]), ("a", [("a", [])]),
    ("a", [("l",), ("l",)]), ("a", [("l",), ("a", [])]), ("a", [("a", []), ("l",)]), ("a", [("a", []), ("a", [])]),
    ("a", [("a", [("l",)])]), ("a", [("a", [("a", [])])]),
]


def nodes_of(st):
    out = [st]
    if st[0] == "a":
        for c in st[1]:
            out += nodes_of(c)
    return out


class ShapeArg(Arg):
    """a body text for a tree structure and per-node rendering choices; every tag character ranges over the tag
    alphabet, every data character over all of Unicode except '<' (no whitespace at the ends), every whitespace
    character over {space, tab, CR, LF}"""
    name = "shape"

    def __init__(self, struct, choices):
        self.struct = struct; self.choices = choices

    def make(self, it):
        self.n = 0
        asm = []
        events = []
        tags = []

        def sym(prefix, k, charset, per_pos=None):
            self.n += 1
            a = StrArg(f"{prefix}{self.n}", length=k, charset=charset, per_pos=per_pos or {})
            v, am = a.make(it)
            asm.extend(am)
            return v

        def cat(*parts):
            items = []
            for p in parts:
                items += (SStr.lit(p) if isinstance(p, str) else p).items
            return SStr(items)
        ch = iter(self.choices)

        def rend(node, parent_tag):
            close, wsi, cdata = next(ch)
            tag = sym("t", 2, TAGCH)
            tags.append((tag, parent_tag))
            ws = sym("w", 1, WSCH) if wsi else SStr([])
            if node[0] == "l":
                data = sym("d", 3, NOT_LT, per_pos={0: NOT_LT_NOT_WS, 2: NOT_LT_NOT_WS})
                events.extend([("start", tag), ("data", data), ("end", tag)])
                if cdata:
                    # CDATA data: no ']]>' inside
                    asm.append(z3.Not(z3.And(data.items[0][1] == 93, data.items[1][1] == 93, data.items[2][1] == 62)))
                    asm.append(z3.Not(z3.And(data.items[1][1] == 93, data.items[2][1] == 93)))
                    s = cat("<", tag, ">", ws if wsi == 1 else "", "<![CDATA[", data, "]]>", ws if wsi == 2 else "")
                else:
                    s = cat("<", tag, ">", ws if wsi == 1 else "", data, ws if wsi == 2 else "")
                if close:
                    s = cat(s, "</", tag, ">")
                return cat(s, ws)
            events.append(("start", tag))
            s = cat("<", tag, ">", ws)
            for c in node[1]:
                s = cat(s, rend(c, tag))
            events.append(("end", tag))
            return cat(s, "</", tag, ">", ws)
        text = rend(self.struct, None)
        # a data element that omits its end tag must not be named like its parent (inherently ambiguous SGML)
        for tag, parent in tags:
            if parent is not None:
                asm.append(z3.Or(*[a[1] != b[1] for a, b in zip(tag.items, parent.items)]))
        return {"text": text, "events": events}, asm

    def concretize(self, model, value):
        return "".join(chr(model.eval(zint(c), model_completion=True).as_long()) for _, c in value["text"].items)


def call_feed(it, fn, a):
    install_ghost_builder(it)
    o = SObj(TreeBuilder, {"__ghost_stack__": [], "__events__": []}, fresh=True, label="builder")
    if it is None:
        raise RuntimeError("symbolic only")
    it.call(TreeBuilder.feed, [o, a[0]["text"]], {})
    r = it.call(TreeBuilder.close, [o], {})
    return (o.fields["__events__"], r)


def shape_choices(nn, tier):
    per = [(True, 0, False), (False, 0, False), (False, 1, False), (True, 2, False), (True, 1, True), (False, 2, True)]
    if nn <= 2:
        return list(itertools.product(per, repeat=nn))
    sub = [(True, 0, False), (False, 1, False), (False, 2, True)] if tier != "thorough" else per
    return list(itertools.product(sub, repeat=nn))


F0 = len(CONTRACTS)
for st in STRUCTS:
    nn = len(nodes_of(st))
    for tier in ("quick", "thorough"):
        for combo in shape_choices(nn, tier):
            if tier == "thorough" and combo in shape_choices(nn, "quick"):
                continue
            CONTRACTS.append(Contract("ofxtools.Parser:TreeBuilder.feed", args=[ShapeArg(st, combo)], call=call_feed,
                                      ensures=[("events-are-the-tree", "spec.render.events_equal(result[0], shape['events'] + [('close',)]) and result[1] == 'ROOT'")],
                                      notes=f"structure {st} choices {combo}", props=["C02"], symbolic_only=True, tier=tier, max_paths=400))
