"""C01, bounded companion (engine R): write -> bytes -> read on real instances of the real classes, through the
real OFXClient.serialize, OFXTree.parse and OFXTree.convert.

One case = one shard of the model classes (every class, in both tiers).  For each class, 2 instances (6 in
the thorough tier) are built with the C13 witness constructor and *varied values*:
   strings   over letters, digits, & < > " ' and non-ASCII characters, interior blanks, never empty, no
             leading/trailing whitespace; some spell an entity - the constructor decodes those once (C10's known
             finding KF-C10-string-entity), and the value the instance then holds is what must survive (&nbsp; is not
             injected: decoded at an edge it would be edge whitespace, outside the property's domain)
   decimals  negative/positive, 0..6 fractional digits, written in plain notation (values whose str() has an
             exponent are the known finding KF-C11-decimal-exponent)
   date-times with milliseconds and time zones other than UTC; times likewise
   optional children and list members present / absent (seeded)
Each instance is written in every wire form
   OFXv1 (102 103 151 160) x end tags on/off x pretty-printing on/off,  OFXv2 (200 201 202 203 210 211 220) x
   pretty-printing on/off
parsed, converted and compared with the original: same classes and nesting, same list members in order,
date-times equal as instants, decimals equal in value and exponent, everything else equal.
Carve-outs (each one a listed known finding, replayed separately on every run): the form without end tags of
an instance containing an aggregate with no children (KF-C01-unclosed-empty-aggregate), and
TAX1099INT_V100 with members of both list attributes and taxexemptint (KF-C13-tax1099int-list-adjacency)."""
import datetime, decimal, io, random
import xml.etree.ElementTree as ET
from pyvc.contract import *
import ofxtools.models as models
from ofxtools.models.base import Aggregate
from contracts.spec.ofxtypes import has_entity

_state = {}
V1 = (102, 103, 151, 160)
V2 = (200, 201, 202, 203, 210, 211, 220)
CHARS = "abcXYZ019 &<>\"'é€ß日._-/;#" + "ampltg"


def _builder(seed):
    if ("b", seed) in _state:
        return _state[("b", seed)]
    from xengine import aggx
    e = aggx.env()

    class RichBuilder(aggx.Builder):
        def value(self, t, rng):
            T = self.e.Types
            if isinstance(t, T.ListElement):
                return self.value(t.converter, rng)
            if isinstance(t, T.OneOf) and rng.random() < 0.15 and all(isinstance(v, str) for v in t.valid):
                # a token given as a member of a str-mixin Enum (a common way for callers to spell enumerations): it IS the
                # token as far as ==, hash and the str content go; its str() is something else
                import enum
                tok = rng.choice(list(t.valid))
                return enum.Enum("Tok", {"M": tok}, type=str).M
            if isinstance(t, (T.Bool, T.OneOf)):
                return super().value(t, rng)
            if isinstance(t, T.String):
                n = t.length if getattr(t, "length", None) else 12
                for _ in range(20):
                    k = rng.randint(1, max(1, min(n, 10)))
                    s = "".join(rng.choice(CHARS) for _ in range(k))
                    if rng.random() < 0.15:
                        # text spelling an entity or a character reference: the constructor decodes it once (that
                        # is C10's known finding); what the *instance* then holds must survive the wire
                        e_ = rng.choice(("&amp;", "&lt;", "&gt;", "&quot;", "&apos;", "&#38;", "&amp;amp;", "&amp;lt;"))
                        cut = rng.randint(0, len(s))
                        s = (s[:cut] + e_ + s[cut:])[:n] if len(e_) <= n else s
                    if rng.random() < 0.4 and len(s) < n:
                        cut = rng.randint(0, len(s))
                        s = s[:cut] + rng.choice("&<>&") + s[cut:]           # markup characters are common, not rare
                    if rng.random() < 0.15 and len(s) >= 3:
                        # a run of interior whitespace (blanks, tab, line break): data is trimmed at its ends only
                        cut = rng.randint(1, len(s) - 1)
                        s = (s[:cut] + rng.choice(("  ", "   ", "\t", " \n ", "\u00a0\u00a0")) + s[cut:])[:n]
                    s = s.strip()
                    if s and len(s) <= n:
                        return s
                return "x"
            if isinstance(t, T.Integer):
                n = getattr(t, "length", None)
                if not n:
                    # no digit limit declared: any Python int, also those no binary float can hold
                    return rng.choice((0, 1, -1, rng.randint(0, 999999), -rng.randint(0, 999999), 2 ** 53 + 1, -(2 ** 53 + 1), 2 ** 63 - 1, 2 ** 64 - 1,
                                       99999999999999999, 10 ** 18 + 3, rng.randint(10 ** 16, 10 ** 30)))
                return rng.choice((0, 1, -1, 10 ** n - 1, -(10 ** n - 1), rng.randint(0, 10 ** n - 1), -rng.randint(0, 10 ** n - 1), rng.randint(0, 10 ** min(n, 6) - 1)))
            if isinstance(t, T.Decimal):
                if t.scale is None:
                    if rng.random() < 0.35:
                        # amounts that are equal in value but differ in exponent (or in the sign of zero) recur all the time
                        return decimal.Decimal(rng.choice(("-10.00", "-10.0", "-10", "0.00", "0.0", "0", "100", "100.00", "1.5", "1.50", "1.500")))
                    for _ in range(20):
                        d = decimal.Decimal(f"{rng.choice(('', '-'))}{rng.randint(0, 999999)}" + ("." + "".join(rng.choice("0123456789") for _ in range(rng.randint(1, 6))) if rng.random() < 0.8 else ""))
                        if "E" not in str(d):
                            return d
                return super().value(t, rng)
            if isinstance(t, (T.Time, T.DateTime)) and rng.random() < 0.5:
                # zones that carry a name - also names the library knows as US abbreviations, on the other side of the world
                off = datetime.timedelta(hours=rng.randint(-12, 14), minutes=rng.choice((0, 0, 30, 45)))
                tz = datetime.timezone(off, rng.choice(("EST", "EDT", "CST", "CDT", "MST", "MDT", "PST", "PDT", "GMT", "UTC", "IST", "JST", "X")))
                if isinstance(t, T.Time):
                    return datetime.time(rng.randint(0, 23), rng.randint(0, 59), rng.randint(0, 59), rng.randint(0, 999) * 1000, tzinfo=tz)
                return datetime.datetime(rng.randint(1970, 2037), rng.randint(1, 12), rng.randint(1, 28), rng.randint(0, 23), rng.randint(0, 59),
                                         rng.randint(0, 59), rng.randint(0, 999) * 1000, tzinfo=tz)
            if isinstance(t, T.Time):
                tz = datetime.timezone(datetime.timedelta(hours=rng.randint(-12, 14), minutes=rng.choice((0, 0, 30, 45))))
                return datetime.time(rng.randint(0, 23), rng.randint(0, 59), rng.randint(0, 59), rng.randint(0, 999) * 1000, tzinfo=tz)
            if isinstance(t, T.DateTime):
                tz = datetime.timezone(datetime.timedelta(hours=rng.randint(-12, 14), minutes=rng.choice((0, 0, 30, 45))))
                return datetime.datetime(rng.randint(1970, 2037), rng.randint(1, 12), rng.randint(1, 28), rng.randint(0, 23), rng.randint(0, 59),
                                         rng.randint(0, 59), rng.randint(0, 999) * 1000, tzinfo=tz)
            return super().value(t, rng)
    cl = []
    for n in dir(models):
        o = getattr(models, n)
        if isinstance(o, type) and issubclass(o, Aggregate) and n.isupper() and o.__name__ == n:
            cl.append(o)
    _state[("b", seed)] = (e, RichBuilder(e, seed), sorted(cl, key=lambda c: c.__name__))
    return _state[("b", seed)]


def classes_of(tier, seed, shard, nshards):
    e, b, cl = _builder(seed)
    return cl[shard::nshards]


def instances(C, b, e, rng, n):
    from xengine import aggx
    names = [a for a, t in C.spec.items() if aggx.kind(e, t) in ("element", "subaggregate")]
    lists = [a for a, t in C.spec.items() if aggx.is_list(aggx.kind(e, t))]
    out = []
    tries = 0
    while len(out) < n and tries < 3 * n:
        tries += 1
        extra = rng.sample(names, min(len(names), rng.randint(0, 5))) if tries > 1 else []
        mem = tuple(rng.choice(lists) for _ in range(rng.randint(0, 3))) if lists and tries > 1 else ()
        if tries == 2 and len(lists) >= 2:
            # members of two kinds interleaved (a kind re-appears after another one): their order is part of the model
            a_, b_ = rng.sample(lists, 2)
            mem = (a_, b_, a_)
        try:
            x = b.witness(C, extra, mem)
        except Exception:
            continue
        if not any(x is y for y in out):
            out.append(x)
    return out


# ------------------------------------------------------------------------------------------ comparison
def differences(a, b, path="", out=None):
    out = out if out is not None else []
    if len(out) > 5:
        return out
    if isinstance(a, str) and type(a) is not str and type(b) is str:
        a = str.__str__(a)          # a token given as a str-subclass member comes back as the plain token: the same text
    if type(a) is not type(b):
        out.append(f"{path}: class {type(a).__name__} became {type(b).__name__}")
        return out
    if isinstance(a, Aggregate):
        for attr in type(a).spec_no_listaggregates if hasattr(type(a), "spec_no_listaggregates") else []:
            try:
                va, vb = getattr(a, attr), getattr(b, attr)
            except Exception as ex:
                out.append(f"{path}.{attr}: {type(ex).__name__}")
                continue
            differences(va, vb, f"{path}.{attr}", out)
        if len(a) != len(b):
            out.append(f"{path}: {len(a)} list members became {len(b)}")
        else:
            for i, (x, y) in enumerate(zip(a, b)):
                differences(x, y, f"{path}[{i}]", out)
        return out
    if isinstance(a, decimal.Decimal):
        if a != b or a.as_tuple().exponent != b.as_tuple().exponent:
            out.append(f"{path}: decimal {a!r} became {b!r}")
        return out
    if isinstance(a, datetime.datetime):
        if a != b or a.microsecond // 1000 != b.microsecond // 1000:
            out.append(f"{path}: instant {a.isoformat()} became {b.isoformat()}")
        return out
    if isinstance(a, datetime.time) and isinstance(b, datetime.time) and a.utcoffset() is not None and b.utcoffset() is not None:
        # a time of day with an offset names an instant of the day: compared modulo 24 h, to the millisecond
        def ms(t):
            return (((t.hour * 60 + t.minute) * 60 + t.second) * 1000 + t.microsecond // 1000 - int(t.utcoffset().total_seconds() * 1000)) % 86400000
        if ms(a) != ms(b):
            out.append(f"{path}: time of day {a.isoformat()} became {b.isoformat()}")
        return out
    if a != b:
        out.append(f"{path}: {a!r} became {b!r}")
    return out


def has_empty_aggregate(x):
    if isinstance(x, Aggregate):
        t = x.to_etree()
        return any(len(e) == 0 and not (e.text or "").strip() for e in t.iter())
    return False


import re as _re
_DATA_OK = _re.compile(r"(?:[^&<]|&(?:amp|lt|gt|quot|apos|nbsp|#[0-9]+|#x[0-9A-Fa-f]+);)*\Z")


def wire_lexical_problems(data):
    """element data on the wire holds no raw '<' and no '&' that does not start an entity (so that it can be told
    from markup by any reader, not only by this library's)"""
    from contracts.spec import render as RR_
    try:
        text = data.decode("utf_8")
    except UnicodeDecodeError as ex:
        return [f"body is not UTF-8: {ex}"]
    i = text.find("<OFX>") if "<OFX>" in text else text.find("<", text.find("?>") + 1 if text.lstrip().startswith("<?") else 0)
    body = text[text.rfind("?>") + 2:] if "?>" in text else text[text.find("\n<") + 1 if "\n<" in text else 0:]
    out = []
    try:
        for kind, val in RR_.tokens(body[body.find("<"):]):
            if kind == "text" and not _DATA_OK.match(val):
                out.append(f"element data {val.strip()[:40]!r} holds a raw '&' or '<'")
    except RR_.RefError as ex:
        out.append(f"body cannot be tokenized: {ex}")
    return out[:2]


def forms(tier, rng):
    out = []
    for v in V1:
        for close in (True, False):
            for pp in (False, True):
                out.append((v, close, pp))
    for v in V2:
        for pp in (False, True):
            out.append((v, True, pp))
    if tier == "thorough":
        return out
    # quick: all six wire forms on a seeded choice of header versions
    v1, v2 = rng.choice(V1), rng.choice(V2)
    return [f for f in out if f[0] in (v1, v2)]


def adjacency_kf(x):
    return type(x).__name__ == "TAX1099INT_V100" and getattr(x, "taxexemptint", None) is not None and any(type(m).__name__ == "ORIGSTATE" for m in x)


def contains(x, pred):
    if pred(x):
        return True
    if isinstance(x, Aggregate):
        for attr in type(x).spec_no_listaggregates:
            try:
                if contains(getattr(x, attr), pred):
                    return True
            except Exception:
                pass
        return any(contains(m, pred) for m in x)
    return False


def run_shard(tier, seed, shard, nshards):
    import logging, warnings
    logging.disable(logging.CRITICAL)
    warnings.simplefilter("ignore")
    from ofxtools.Client import OFXClient
    from ofxtools.Parser import OFXTree
    e, b, cl = _builder(seed)
    rng = random.Random(seed * 31 + shard)
    client = OFXClient("https://example.invalid/ofx")
    problems = []
    kf = {}
    evals = 0
    ninst = 0
    for C in classes_of(tier, seed, shard, nshards):
        for x in instances(C, b, e, rng, 6 if tier == "thorough" else 2):
            ninst += 1
            empty = has_empty_aggregate(x)
            adj = contains(x, adjacency_kf)
            for version, close, pp in forms(tier, rng):
                evals += 1
                what = f"{C.__name__} v{version} close_elements={close} prettyprint={pp}"
                try:
                    data = client.serialize(x, version=version, prettyprint=pp, close_elements=close, newfileuid="NONE")
                    lex = wire_lexical_problems(data)
                    if lex and not (not close and empty):
                        problems.append((what + " (lexical)", lex, ET.tostring(x.to_etree())[:600], bytes(data)[-500:]))
                    p = OFXTree()
                    p.parse(io.BytesIO(data))
                    y = p.convert()
                    d = differences(x, y)
                except Exception as ex:
                    d = [f"{type(ex).__name__}: {str(ex)[:200]}"]
                    data = locals().get("data", b"")
                if not d:
                    continue
                if not close and empty:
                    kf["KF-C01-unclosed-empty-aggregate"] = kf.get("KF-C01-unclosed-empty-aggregate", 0) + 1
                    continue
                if adj:
                    kf["KF-C13-tax1099int-list-adjacency"] = kf.get("KF-C13-tax1099int-list-adjacency", 0) + 1
                    continue
                problems.append((what, d[:3], ET.tostring(x.to_etree())[:600], bytes(data)[-500:]))
    return {"instances": ninst, "evaluations": evals, "problems": problems[:6], "nproblems": len(problems), "known_finding_hits": kf}


def call(it, fn, a):
    tier, seed, shard, nshards = a
    return run_shard(tier, seed, shard, nshards)


class P(Arg):
    def __init__(self, name):
        self.name = name


NSH = 16


def cases(tier):
    return [[tier, 0, k, NSH] for k in range(NSH)]


CONTRACTS = [
    Contract("ofxtools.Client:OFXClient.serialize",
             args=[P("tier"), P("seed"), P("shard"), P("nshards")], call=call,
             ensures=[("C01-write-then-read-gives-an-equal-model", "result['nproblems'] == 0 and result['instances'] > 0")],
             cases=cases, native_only=True, shards=NSH,
             notes="bounded: every model class; thorough: 6 instances each, all 30 version x form combinations; quick: 2 instances each, the 6 wire forms on a seeded v1 and v2 header version; varied values, serialize -> OFXTree.parse -> convert -> structural comparison",
             props=["C01"]),
]


# =============================================================================== the body writers alone
# Every way the library writes a body - ET.tostring(method="html") and utils.tostring_unclosed_elements, each
# after utils.indent or not - must be a rendering of the tree in the sense of the wire syntax (contracts/spec/
# render.py): the strict reference tokenizer reads it back to the same tree (data compared after entity
# decoding, which is what the writers' escaping is for).
from contracts.spec import render as RR
import copy, html


def elem_of(node):
    e = ET.Element(node[0])
    if RR.is_leaf(node):
        e.text = node[1]
    else:
        for c in node[1]:
            e.append(elem_of(c))
    return e


def unescape_tree(node):
    if RR.is_leaf(node):
        return (node[0], html.unescape(node[1]))
    return (node[0], [unescape_tree(c) for c in node[1]])


def has_empty(node):
    if RR.is_leaf(node):
        return False
    return len(node[1]) == 0 or any(has_empty(c) for c in node[1])


DATAS = ("x", "a b", "R&D <1> \"q\" 'z'", "é€日", "R&amp;D <x> Q&A", "&lt;b&gt; & <i>")     # the last two: literal entity text next to raw markup


def writer_cases(tier):
    n = 5 if tier == "thorough" else 4
    return [[t] for t in RR.trees(n, datas=DATAS if tier == "thorough" else DATAS[1:])]


def check_writers(it, fn, a):
    from ofxtools import utils
    tree = a[0]
    bad = []
    for pp in (False, True):
        for closed in (True, False):
            e = elem_of(tree)
            if pp:
                utils.indent(e)
            out = ET.tostring(e, encoding="utf_8", method="html") if closed else utils.tostring_unclosed_elements(e)
            if not closed and has_empty(tree):
                continue            # KF-C01-unclosed-empty-aggregate
            try:
                got = unescape_tree(RR.parse(out.decode("utf_8")))
            except RR.RefError as ex:
                got = f"not a body: {ex}"
            if got != tree:
                bad.append((f"prettyprint={pp} end-tags={closed}", out, got))
    return bad


CONTRACTS.append(
    Contract("ofxtools.utils:tostring_unclosed_elements", args=[P("tree")], call=check_writers,
             ensures=[("every-writer-output-is-a-rendering-of-the-tree", "result == []")], cases=writer_cases, native_only=True, shards=8,
             notes="all trees with <= 4 nodes (5 thorough) x data values incl. & < > quotes and non-ASCII x {ET.tostring(method=html), tostring_unclosed_elements} x {indent, no indent}; oracle = strict reference tokenizer + entity decoding; trees with an empty aggregate are skipped for the form without end tags (known finding)",
             props=["C01"]))
