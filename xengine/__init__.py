"""Engine X - exhaustive decisions over finite, fully enumerated spaces (DESIGN section 5)."""
