"""Sidecar contracts for ofxtools.Types.Decimal (C10, C11).
Two layers: (S) structure, proved symbolically over the axiomatised decimal module -- which library
operation is applied to which text, under which condition, which exception escapes; (N) numeric laws,
evaluated natively (bounded, labelled so) against the independent reference in contracts/spec/ofxtypes.py."""
import decimal, random
from pyvc.contract import *
from ofxtools import Types
from ofxtools.Types import OFXSpecError
from contracts.types_basic import T, REQ, text_sampler

D = decimal.Decimal


class DecArg(Arg):
    """an arbitrary decimal.Decimal (opaque)"""

    def __init__(self, name):
        self.name = name

    def make(self, it):
        from pyvc import models_dec as MD
        return MD.D(z3.Const(self.name, V)), []

    def samples(self, rng, n):
        base = [D("0"), D("-0"), D("1"), D("1.5"), D("1.50"), D("-12.345"), D("1E+2"), D("1E-8"), D("0.00000001"),
                D("NaN"), D("Infinity"), D("-Infinity"), D("100"), D("1.00"), D("0.1"), D("99999999999999999999.99")]
        for _ in range(n):
            base.append(D((rng.randint(0, 1), tuple(rng.randint(0, 9) for _ in range(rng.randint(1, 6))), rng.randint(-8, 3))))
        return base


class NumArg(Arg):
    """a Python number: ints, floats of every magnitude (also those whose repr uses exponent notation), Decimals"""

    def __init__(self, name):
        self.name = name

    def samples(self, rng, n):
        base = [0, 1, -1, 10 ** 20, -7, 0.5, 2.5, 1e16, -2.5e17, 1e22, 123456789.125, 3.0, 1e15, 9007199254740993.0, D("12.50"), D("-3"), 1.0, 1e300]
        for _ in range(n):
            base.append(rng.choice([rng.randint(-10 ** 12, 10 ** 12), rng.uniform(1, 1e20), float(rng.randint(1, 10 ** 18)), rng.randint(1, 999) * 10.0 ** rng.randint(0, 25)]))
        return base


SCALEQ = OptArg(OneOfArg("scale", [D("0.1"), D("0.01"), D("0.001"), D("0.0001"), D("0.00001")]))


def dinst():
    def build(**kw):
        o = Types.Decimal(required=kw.get("required", False))
        o.scale = kw.get("scale")
        return o
    return InstArg("self", Types.Decimal, {"required": REQ, "scale": SCALEQ}, build)


DEC_POOL = ["0", "1", "-1", "+1", "1.5", "1,5", "-0.005", "12345.67890", "1.245", "1.255", "0.125", ".5", "5.", "1,", ",5",
            "NaN", "Infinity", "1E+2", "1e-3", "1_0", " 1", "1 ", "abc", "1.2.3", "1,2,3", "--1", "", "1,000.5", "0.00000001",
            # more significant digits than the default decimal context (28): an amount is exact however long it is
            "123456789012345678901234567890", "12345678901234567890123.4567895", "-0.1234567890123456789012345678901", "99999999999999999999999999999.99", "-0.00", "0.00", "-0"]


def dec_text_sampler(rng):
    pool = DEC_POOL
    if rng.random() < 0.6:
        return rng.choice(pool)
    s = rng.choice(["", "-", "+"]) + "".join(rng.choice("0123456789") for _ in range(rng.randint(0, 5)))
    if rng.random() < 0.7:
        s += rng.choice(".,") + "".join(rng.choice("0123456789") for _ in range(rng.randint(0, 6)))
    return s


dec_text_sampler.pool = DEC_POOL


def places_of(self):
    return None if self.scale is None else -self.scale.as_tuple().exponent


CONTRACTS = [
    # 0 (S) read: Decimal(text), falling back to the comma-replaced text; quantized when the element has a scale
    Contract("ofxtools.Types:Decimal.convert",
             args=[dinst(), TextArg("value", sampler=dec_text_sampler)], call=meth("convert"),
             ensures=[("structure",
                       "spec.ofxtypes.same_decimal(result, spec.ofxtypes.py_quantize(spec.ofxtypes.py_decimal(value if spec.ofxtypes.py_decimal_ok(value) else spec.ofxtypes.comma_to_point(value)), self.scale)"
                       " if self.scale is not None else spec.ofxtypes.py_decimal(value if spec.ofxtypes.py_decimal_ok(value) else spec.ofxtypes.comma_to_point(value)))")],
             raises=[(decimal.InvalidOperation,
                      "(not spec.ofxtypes.py_decimal_ok(value) and not spec.ofxtypes.py_decimal_ok(spec.ofxtypes.comma_to_point(value)))"
                      " or (self.scale is not None and not spec.ofxtypes.py_quantize_ok(spec.ofxtypes.py_decimal(value if spec.ofxtypes.py_decimal_ok(value) else spec.ofxtypes.comma_to_point(value)), self.scale))", "must")],
             props=["C10"], kind="helper"),
    # 1 (N) read: the OFX value of the text, in value and exponent; non-decimal texts refused
    Contract("ofxtools.Types:Decimal.convert",
             args=[dinst(), TextArg("value", sampler=dec_text_sampler, nonempty=True)], call=meth("convert"),
             kf=[("KF-C10-decimal-lenient", "spec.ofxtypes.lenient_decimal_text(value)")],
             ensures=[("value", "spec.ofxtypes.is_decimal_text(value) and spec.ofxtypes.same_decimal(result, spec.ofxtypes.decimal_value(value, None if self.scale is None else -self.scale.as_tuple().exponent))")],
             raises=[(decimal.InvalidOperation, "not spec.ofxtypes.is_decimal_text(value)", "must"),
                     # an element with a scale cannot hold more digits than the decimal context has: quantize refuses
                     (decimal.InvalidOperation, "self.scale is not None and spec.ofxtypes.is_decimal_text(value) and not spec.ofxtypes.py_quantize_ok(spec.ofxtypes.py_decimal(value if spec.ofxtypes.py_decimal_ok(value) else spec.ofxtypes.comma_to_point(value)), self.scale)", "may")],
             native_only=True, samples=3000, props=["C10"]),
    # 2 None / required
    Contract("ofxtools.Types:Decimal.convert",
             args=[dinst(), Const("value", None)], call=meth("convert"),
             ensures=[("none", "result is None")], raises=[(OFXSpecError, "self.required", "must")], props=["C10"]),
    # 3 (S) write: refused unless the value has exactly the element's quantum; text is str(value)
    Contract("ofxtools.Types:Decimal.unconvert",
             args=[dinst(), DecArg("value")], call=meth("unconvert"),
             ensures=[("text", "result == spec.ofxtypes.py_str(value)")],
             raises=[(ValueError, "self.scale is not None and not spec.ofxtypes.py_same_quantum(value, self.scale)", "must")],
             props=["C10", "C11"], kind="helper"),
    # 4 (N) write: plain decimal notation that reads back to the same value and exponent (C10 inverse, C11 lexical)
    Contract("ofxtools.Types:Decimal.unconvert",
             args=[dinst(), DecArg("value")], call=meth("unconvert"),
             kf=[("KF-C11-decimal-exponent", "not value.is_finite() or 'E' in str(value)")],
             ensures=[("C11-plain", "spec.ofxtypes.is_plain_decimal_lexical(result)"),
                      ("reads-back", "spec.ofxtypes.same_decimal(spec.ofxtypes.parse_decimal(result), value)")],
             raises=[(ValueError, "self.scale is not None and value.as_tuple().exponent != self.scale.as_tuple().exponent", "must")],
             native_only=True, samples=3000, props=["C10", "C11"]),
    # 5 None / required ; 6 wrong type
    Contract("ofxtools.Types:Decimal.unconvert",
             args=[dinst(), Const("value", None)], call=meth("unconvert"),
             ensures=[("none", "result is None")], raises=[(OFXSpecError, "self.required", "must")], props=["C10"]),
    Contract("ofxtools.Types:Decimal.unconvert",
             args=[dinst(), OneOfArg("value", [3, 2.5, "1.5", b"1"])], call=meth("unconvert"),
             raises=[(TypeError, "True", "must")], props=["C10", "C11"]),
    # 7 (X, exhaustive over scale 0..8) constructor: scale n means quantum 10^-n
    Contract("ofxtools.Types:Decimal.__init__",
             args=[OneOfArg("n", list(range(0, 13)))],
             call=lambda it, fn, a: Types.Decimal(a[0]),
             ensures=[("quantum", "spec.ofxtypes.same_decimal(result.scale, spec.ofxtypes.quantum(n))")],
             native_only=True, samples=64, props=["C10"]),
    # 9 (N) write-then-read and read-then-write-then-read on the value grid
    Contract("ofxtools.Types:Decimal.convert",
             args=[dinst(), DecArg("value")],
             call=lambda it, fn, a: a[0].convert(a[0].unconvert(a[1])),
             requires=["self.scale is None or value.as_tuple().exponent == self.scale.as_tuple().exponent"],
             kf=[("KF-C11-decimal-exponent", "not value.is_finite() or 'E' in str(value)")],
             ensures=[("roundtrip", "spec.ofxtypes.same_decimal(result, value)")],
             native_only=True, samples=3000, props=["C10"]),
    # 10 (N) numbers given as int / float / Decimal (default dispatch and the Decimal arm): the instance holds exactly the
    #     number's value, and what is written for it is plain decimal notation denoting that value
    Contract("ofxtools.Types:Decimal.convert",
             args=[dinst(), NumArg("value")],
             call=lambda it, fn, a: (lambda v: (v, a[0].unconvert(v)))(a[0].convert(a[1])),
             requires=["self.scale is None"],
             kf=[("KF-C11-decimal-exponent", "'E' in str(__import__('decimal').Decimal(value))")],
             ensures=[("exact-value", "__import__('fractions').Fraction(result[0]) == __import__('fractions').Fraction(value)"),
                      ("C11-plain", "spec.ofxtypes.is_plain_decimal_lexical(result[1])"),
                      ("written-denotes-the-value", "__import__('fractions').Fraction(spec.ofxtypes.parse_decimal(result[1])) == __import__('fractions').Fraction(value)")],
             native_only=True, samples=600, props=["C10", "C11"]),
    # 11 (N) an amount read from text and written again: plain notation denoting exactly the amount that was read
    Contract("ofxtools.Types:Decimal.convert",
             args=[dinst(), TextArg("value", sampler=dec_text_sampler, nonempty=True)],
             call=lambda it, fn, a: (lambda v: (v, a[0].unconvert(v)))(a[0].convert(a[1])),
             requires=["self.scale is None", "spec.ofxtypes.is_decimal_text(value)"],
             kf=[("KF-C11-decimal-exponent", "'E' in str(__import__('decimal').Decimal(value.replace(',', '.')))")],
             ensures=[("exact-value", "__import__('fractions').Fraction(result[0]) == __import__('fractions').Fraction(__import__('decimal').Decimal(value.replace(',', '.')))"),
                      ("C11-plain", "spec.ofxtypes.is_plain_decimal_lexical(result[1])"),
                      ("written-denotes-the-amount-read", "__import__('fractions').Fraction(spec.ofxtypes.parse_decimal(result[1])) == __import__('fractions').Fraction(__import__('decimal').Decimal(value.replace(',', '.')))")],
             native_only=True, samples=600, props=["C10", "C11", "C03"]),
]
