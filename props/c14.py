"""C14 - the client sends only what it should, where it should, and nothing on a dry run (proof over abstract callees + bounded on the real urllib stack)."""
from props.common import run_contracts, replay_known_findings
from props.c10 import TRUSTED

LEVEL = "proof"


def run(rep, tier, seed):
    rep.trusted += TRUSTED + [
        "abstract callees: serialize, post_request, signon, download, _get_service_urls and the model constructors used by request_* are uninterpreted recorders (only their call arguments are observed); urllib.request.Request/build_opener/HTTPCookieProcessor likewise",
        "T-EXT: cookie storage and replay is http.cookiejar's behaviour; confirmed on the real opener by the bounded companion (fake transport under urllib's handlers)",
        "A-NOREQ: the requests library is not installed, USE_REQUESTS is False: the `requests` branch of post_request is unverified code",
    ]
    rep.assumptions += [
        "request_* url rule proved with no statement requests given (their composition is C06); _get_service_urls is abstract and returns one advertised URL",
        "multi-request histories are reduced to the per-instance invariant: every post_request of an instance uses the jar allocated in its own __init__ (fresh-jar contract + cookie-jar-of-this-client clause)",
    ]
    run_contracts(rep, "contracts.client", tier, seed)
    # the same rules with requests of every kind present (closing statements included): the C06 assembly contracts carry C14 clauses
    run_contracts(rep, "contracts.client_compose", tier, seed, select=lambda c: "request_statements" in c.target)
    run_contracts(rep, "contracts.client_native", tier, seed)
    replay_known_findings(rep)
