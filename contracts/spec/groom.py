"""What groom/ungroom are for (from the docstrings of ofxtools.models.base and the property C07/C17): on a COPY of the
element, children whose tag carries a vendor prefix (contains '.') are dropped; three classes additionally
rename one *direct* child whose OFX tag is a Python keyword (YIELD<->YLD in MFINFO/STOCKINFO, FROM<->FRM in MAIL)."""
import copy
import xml.etree.ElementTree as ET

RENAMES = {"MFINFO": ("YIELD", "YLD"), "STOCKINFO": ("YIELD", "YLD"), "MAIL": ("FROM", "FRM")}


def canon(e):
    return ET.tostring(e)


def groom_ref(clsname, elem):
    out = copy.deepcopy(elem)
    if clsname in RENAMES:
        a, b = RENAMES[clsname]
        for ch in list(out):
            if ch.tag == a:
                ch.tag = b
                break
    for ch in list(out):
        if "." in ch.tag:
            out.remove(ch)
    return out


def ungroom_ref(clsname, elem):
    out = copy.deepcopy(elem)
    if clsname in RENAMES:
        a, b = RENAMES[clsname]
        for ch in list(out):
            if ch.tag == b:
                ch.tag = a
                break
    return out


# ---- the same reference over the abstract view used by the proofs: direct children as (tag, identity, grandchild tags)
def groomed(clsname, kids):
    out = []
    renamed = False
    for tag, ident, below in kids:
        if clsname in RENAMES and not renamed and tag == RENAMES[clsname][0]:
            tag = RENAMES[clsname][1]
            renamed = True
        out.append((tag, ident, below))
    kept = []
    for t, i, b in out:
        if "." not in t:
            kept.append((t, i, b))
    return kept


def ungroomed(clsname, kids):
    out = []
    renamed = False
    for tag, ident, below in kids:
        if clsname in RENAMES and not renamed and tag == RENAMES[clsname][1]:
            tag = RENAMES[clsname][0]
            renamed = True
        out.append((tag, ident, below))
    return out


def kids_of(elem):
    """direct children as (tag, identity, tags of its own children); the harness numbers the children in their
    text ('t0', 't1', ...) or, for a child that is an aggregate, in its first grandchild's text ('g0', ...)"""
    out = []
    for c in elem:
        num = c.text if c.text and c.text[:1] == "t" else (c[0].text if len(c) else c.text)
        out.append((c.tag, int(num[1:]), [g.tag for g in c]))
    return out


def _kids_model(it, a, kw):
    return [(c.tag, int(c.label[1:].rstrip("'^")), [g.tag for g in c.kids]) for c in a[0].kids]


kids_of._pyvc_model = _kids_model
kids_of._pyvc_always = True
