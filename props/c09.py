"""C09 - date-time and time notation denote the right instant (proof)."""
from props.common import run_contracts, run_lemmas, replay_known_findings
from props.c10 import TRUSTED

LEVEL = "proof"


def run(rep, tier, seed):
    rep.trusted += TRUSTED
    rep.assumptions += [
        "readers proved per notation shape: date | date+time | +.XXX, offset absent or [H|HH|sH|sHH][.MM][:name], zone name absent, empty or 2 arbitrary characters (group extraction for longer names: bounded by the sampled native evaluation); years 2..9998, all calendar-valid dates, all digits symbolic",
        "writers proved for aware values with whole-minute offsets in [-12:00,+14:00], zone name None or 0..3 arbitrary characters without newline, years 1000..9998, every microsecond",
        "rejection proved for: every all-digit text of wrong length up to 17, each field out of range, calendar-invalid day, any non-digit code point (all of Unicode) in any digit position of the full form",
        "second 60 (accepted by the notation, refused by datetime) is not demanded either way",
    ]
    run_contracts(rep, "contracts.types_dt", tier, seed)
    run_lemmas(rep, "contracts.types_dt", tier, seed)
    replay_known_findings(rep)
