"""Second SMT back end: cvc5 (binary) takes the queries z3 leaves unknown; in the thorough tier
every obligation can be re-checked with it."""
import os, subprocess, tempfile


def cvc5_check(smt2_text, timeout_s=60):
    if not smt2_text:
        return "unknown"
    with tempfile.NamedTemporaryFile("w", suffix=".smt2", delete=False) as f:
        f.write("(set-logic ALL)\n" + smt2_text if "(set-logic" not in smt2_text else smt2_text)
        if "(check-sat)" not in smt2_text:
            f.write("\n(check-sat)\n")
        path = f.name
    try:
        r = subprocess.run(["/usr/bin/cvc5", "--strings-exp", f"--tlimit={timeout_s * 1000}", path],
                           capture_output=True, text=True, timeout=timeout_s + 10)
        out = r.stdout.strip().splitlines()
        return out[0].strip() if out else "unknown"
    except Exception:
        return "unknown"
    finally:
        os.unlink(path)
