"""Sidecar contracts for ofxtools.scripts.ofxget (properties C19, C18)."""
import itertools
import z3
from pyvc.contract import *
from pyvc.values import *
from pyvc import core as C
from pyvc import models as M
from ofxtools.scripts import ofxget as G
from contracts.client import Marker, log

TYPES = ["checking", "savings", "moneymrkt", "creditline", "creditcard", "investment"]


class ArgsArg(Arg):
    """the merged settings mapping: account lists of the given lengths with symbolic account numbers, symbolic flags"""
    name = "args"

    def __init__(self, lengths):
        self.lengths = lengths

    def make(self, it):
        d = {}
        asm = []
        for t, n in zip(TYPES, self.lengths):
            lst = []
            for i in range(n):
                e = z3.Const(f"{t}_{i}", V)
                lst.append(SVal(str, e)); asm.append(tlen(e) >= 1)
            d[t] = lst
        for f in ("inctran", "incoo", "incpos", "incbal", "dryrun", "nonewfileuid", "skipprofile"):
            d[f] = SBool(z3.Bool("flag_" + f))
        d.update({"all": False, "write": False, "savepass": False})
        return d, asm


class ACtx(Abstract):
    def __init__(self, content):
        self.content = content

    def p_enter(self, it):
        return self

    def p_exit(self, it):
        pass

    def p_getattr(self, it, name):
        if name == "read":
            return lambda: self.content
        raise C.Unsupported(f"response.{name}")


START, END, ASOF, PASSWORD = Marker("dt-start"), Marker("dt-end"), Marker("dt-asof"), Marker("password")


def install(it, dates=None):
    st, en, asof = dates or (START, END, ASOF)
    it.models[G.convert_datetime] = lambda it_, a, k: {"start": st, "end": en, "asof": asof}
    it.models[G.get_passwd] = lambda it_, a, k: PASSWORD

    def m_init_client(it_, a, k):
        def request_statements(password, *rqs, **kw):
            log(it_, "request_statements", password, list(rqs), dict(kw))
            return ACtx(SVal(bytes, it_.fresh("response", "V")))
        return Marker("client", request_statements=request_statements)
    it.models[G.init_client] = m_init_client


def call_cmd(name):
    def call(it, fn, a):
        install(it, dates=(a[1], a[2], a[3]))
        return it.call(getattr(G, name), [a[0]], {})
    return call


class DateArg(Arg):
    """a date option as convert_datetime hands it over: the date given, or None when the option was not given"""

    def __init__(self, name, marker):
        self.name = name; self.marker = marker

    def make(self, it):
        return SIte(z3.Bool(f"{self.name}_not_given"), None, self.marker), []


class EnvArg(Arg):
    def __init__(self, name, value):
        self.name = name; self.value = value

    def make(self, it):
        return self.value, []


LENGTH_PATTERNS = [(2, 1, 0, 1, 2, 1), (0, 0, 0, 0, 0, 0), (1, 0, 0, 0, 0, 0), (0, 0, 0, 0, 1, 0), (0, 0, 0, 0, 0, 2), (0, 2, 2, 0, 0, 0), (1, 1, 1, 1, 1, 1), (3, 0, 0, 0, 3, 0)]
CONTRACTS = []
for pat in LENGTH_PATTERNS:
    common = [ArgsArg(pat), DateArg("START", START), DateArg("END", END), DateArg("ASOF", ASOF), EnvArg("PASSWORD", PASSWORD)]
    CONTRACTS.append(Contract("ofxtools.scripts.ofxget:request_stmt", args=common, call=call_cmd("request_stmt"),
                              ensures=[("one-call", "len(spec.client.calls(ghost, 'request_statements')) == 1"),
                                       ("exactly-one-request-per-configured-account", "spec.ofxget.same_requests(spec.client.calls(ghost, 'request_statements')[0][2], spec.ofxget.expected_stmt_requests(args, START, END, ASOF))"),
                                       ("password-and-switches", "spec.client.calls(ghost, 'request_statements')[0][1] is PASSWORD and spec.client.calls(ghost, 'request_statements')[0][3]['dryrun'] is args['dryrun'] and spec.client.calls(ghost, 'request_statements')[0][3]['skip_profile'] is args['skipprofile']")],
                              notes=f"account lists of lengths {dict(zip(TYPES, pat))}, account numbers and flags symbolic, each of the three dates given or not given", props=["C19"], symbolic_only=True))
    CONTRACTS.append(Contract("ofxtools.scripts.ofxget:request_stmtend", args=common, call=call_cmd("request_stmtend"),
                              ensures=[("one-call", "len(spec.client.calls(ghost, 'request_statements')) == 1"),
                                       ("exactly-one-request-per-configured-account", "spec.ofxget.same_requests(spec.client.calls(ghost, 'request_statements')[0][2], spec.ofxget.expected_stmtend_requests(args, START, END))")],
                              notes=f"account lists of lengths {dict(zip(TYPES, pat))}", props=["C19"], symbolic_only=True))
# _acctIsActive: ACTIVE and nothing else
CONTRACTS.append(Contract("ofxtools.scripts.ofxget:_acctIsActive",
                          args=[InstArg("acctinfo", Marker, {}, lambda **k: None)] if False else [TextArg("status")],
                          call=lambda it, fn, a: (G._acctIsActive(type("X", (), {"svcstatus": a[0]})()) if it is None else it.call(G._acctIsActive, [Marker("info", svcstatus=a[0])], {})),
                          ensures=[("active-only", "result == (status == 'ACTIVE')")], props=["C19"]))
