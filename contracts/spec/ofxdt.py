"""OFX date-time / time notation (OFX 1.6 section 3.2.8.2-3), written from the property statement.

Instants are integers (milliseconds / microseconds since the proleptic-Gregorian day 0, UTC).
days_from_civil is the usual public algorithm (independent of the datetime module); in proofs it is
the uninterpreted function ymd2ord shared with the datetime model (that CPython's date arithmetic
agrees with it is T-LIB, cross-checked natively on every run)."""
import datetime
import z3
from pyvc.values import SInt, SBool, zint
from pyvc import models as M
from pyvc import models_dt as DT

DAY_MS = 86400000


def days_from_civil(y, m, d):
    """ordinal of the civil date, 0001-01-01 -> 1 (Howard Hinnant's algorithm shifted to that epoch)"""
    y2 = y - 1 if m <= 2 else y
    era = y2 // 400
    yoe = y2 - era * 400
    mp = (m + 9) % 12
    doy = (153 * mp + 2) // 5 + d - 1
    doe = yoe * 365 + yoe // 4 - yoe // 100 + doy
    return era * 146097 + doe - 305          # 0000-03-01 is day -305 relative to 0001-01-01 = 1


def _dfc_model(it, a, k):
    y, m, d = [it.force(x) for x in a]
    if all(isinstance(x, int) for x in (y, m, d)):
        return days_from_civil(y, m, d)
    return SInt(zint(DT.ordinal(it, zint(M.as_int(y)[1]), zint(M.as_int(m)[1]), zint(M.as_int(d)[1]))))


days_from_civil._pyvc_model = _dfc_model


def is_leap(y):
    return y % 4 == 0 and (y % 100 != 0 or y % 400 == 0)


def days_in_month(y, m):
    return 31 if m in (1, 3, 5, 7, 8, 10, 12) else ((29 if is_leap(y) else 28) if m == 2 else 30)


def instant_ms(y, mo, d, h, mi, s, ms, offset_minutes):
    """the instant a date-time text denotes: local civil time minus the UTC offset"""
    return ((days_from_civil(y, mo, d) * 24 + h) * 60 + mi) * 60000 + s * 1000 + ms - offset_minutes * 60000


def offset_minutes(sign, hours, minutes):
    """[+-]H[.MM]: the sign applies to the whole offset"""
    return sign * (60 * hours + minutes)


def value_instant_us(v):
    """instant of a timezone-aware datetime object, microseconds"""
    off = v.utcoffset() // datetime.timedelta(microseconds=1)
    return (((days_from_civil(v.year, v.month, v.day) * 24 + v.hour) * 60 + v.minute) * 60 + v.second) * 1000000 + v.microsecond - off


def _viu_model(it, a, k):
    v = a[0]
    return SInt(v.instant(it))


value_instant_us._pyvc_model = _viu_model


def is_utc(v):
    return v.utcoffset() == datetime.timedelta(0)


def time_of_day_us(t):
    return ((t.hour * 60 + t.minute) * 60 + t.second) * 1000000 + t.microsecond


def _tod_model(it, a, k):
    return SInt(zint(a[0].tod))


time_of_day_us._pyvc_model = _tod_model


def round_half_up_ms(us):
    return (us + 500) // 1000


def num(text):
    """value of a string of ASCII digits"""
    v = 0
    for c in text:
        v = v * 10 + (ord(c) - 48)
    return v


def all_digits(text):
    r = True
    for c in text:
        r = r and 48 <= ord(c) <= 57
    return r


def parse_written(text, with_date):
    """reference reader for the *written* form [YYYYMMDD]HHMMSS.XXX[(+|-)H[H][.MM][:name]]
    -> (lexically_valid, local fields..., offset_minutes).  A plain scanner, no regex."""
    n = 14 if with_date else 6
    if len(text) < n + 4 + 4:
        return None
    head = text[:n]
    if not all_digits(head) or text[n] != "." or not all_digits(text[n + 1:n + 4]) or text[n + 4] != "[" or text[len(text) - 1] != "]":
        return None
    inner = text[n + 5:len(text) - 1]
    if len(inner) < 2 or inner[0] not in "+-":
        return None
    sign = -1 if inner[0] == "-" else 1
    i = 1
    while i < len(inner) and 48 <= ord(inner[i]) <= 57:
        i += 1
    if i - 1 < 1 or i - 1 > 2:
        return None
    hours = num(inner[1:i])
    minutes = 0
    if i < len(inner) and inner[i] == ".":
        if i + 3 > len(inner) or not all_digits(inner[i + 1:i + 3]):
            return None
        minutes = num(inner[i + 1:i + 3])
        i += 3
    if i < len(inner):
        if inner[i] != ":":
            return None
    if with_date:
        y, mo, d = num(head[0:4]), num(head[4:6]), num(head[6:8])
        h, mi, s = num(head[8:10]), num(head[10:12]), num(head[12:14])
    else:
        y, mo, d = 1, 1, 1
        h, mi, s = num(head[0:2]), num(head[2:4]), num(head[4:6])
    ms = num(text[n + 1:n + 4])
    return (y, mo, d, h, mi, s, ms, offset_minutes(sign, hours, minutes))


def written_instant_ms(text, with_date):
    p = parse_written(text, with_date)
    return instant_ms(p[0], p[1], p[2], p[3], p[4], p[5], p[6], p[7])


def written_ok(text, with_date):
    return parse_written(text, with_date) is not None


def td_us(td):
    return td // datetime.timedelta(microseconds=1)


td_us._pyvc_model = lambda it, a, k: SInt(zint(DT.ATimedelta.of(a[0]).us))


def offset_us(v):
    return v.utcoffset() // datetime.timedelta(microseconds=1)


def _offset_us_model(it, a, k):
    t = DT.tz_parts(it, a[0].tz)
    return SInt(zint(t[0]))


offset_us._pyvc_model = _offset_us_model


# US zone abbreviations some institutions send instead of a numeric offset (hours east of UTC)
US_ZONES = {"EST": -5, "EDT": -4, "CST": -6, "CDT": -5, "MST": -7, "MDT": -6, "PST": -8, "PDT": -7}


def fields_valid(p):
    """the fields read back from a written text form a calendar-valid local time with an offset in range"""
    return (p is not None and 1 <= p[0] <= 9999 and 1 <= p[1] <= 12 and 1 <= p[2] <= days_in_month(p[0], p[1])
            and 0 <= p[3] <= 23 and 0 <= p[4] <= 59 and 0 <= p[5] <= 59 and 0 <= p[6] <= 999 and -720 <= p[7] <= 840)
