"""C20 - security-identifier check digits (proof)."""
from props.common import run_contracts, run_lemmas

LEVEL = "proof"


def run(rep, tier, seed):
    rep.trusted += [
        "T-LIB: models of int(str[,36]) (exact on visible ASCII without '_', Unsupported elsewhere), str(int), ord, len, sum, enumerate, str.join/zfill, dict.get, slicing",
        "NUMBERING_AGENCIES table read from the imported ofxtools.lib (keys enumerated concretely)",
    ]
    run_contracts(rep, "contracts.utils_secid", tier, seed)
    run_lemmas(rep, "contracts.utils_secid", tier, seed)
