"""Bounded checks (engine R) for the body parser, properties C02 and C08: exhaustively enumerated small trees x
all rendering choices, and every single fault of each rendering, against the strict reference tokenizer."""
import re
from pyvc.contract import *
from contracts.spec import render as R


def lib_parse(text, cut=None, debug=False):
    """the whole text in one feed() - or in two, cut right before a tag (every token is whole in its chunk);
    debug: with DEBUG logging on for the library (what ofxget -vv sets) - the log level is not an input of the parser"""
    from ofxtools.Parser import TreeBuilder
    if debug:
        import logging
        lg = logging.getLogger("ofxtools")
        was_disabled, was_level = logging.root.manager.disable, lg.level
        try:
            logging.disable(logging.NOTSET); lg.setLevel(logging.DEBUG)
            if not lg.handlers:
                lg.addHandler(logging.NullHandler())
            return lib_parse(text, cut)
        finally:
            lg.setLevel(was_level); logging.disable(was_disabled)
    b = TreeBuilder()
    if cut is None:
        b.feed(text)
    else:
        b.feed(text[:cut]); b.feed(text[cut:])
    return R.tree_of_element(b.close())


def chunk_points(text):
    # before a start tag only: the optional end tag of a data element is part of that element's token
    lts = [i for i, ch in enumerate(text) if ch == "<" and i > 0 and text[i + 1:i + 2] not in ("/", "!")]
    return sorted(set(lts[len(lts) // 3: len(lts) // 3 + 1] + lts[-1:])) if lts else []


def check_renderings(it, fn, a):
    tree, full = a
    bad = []
    for ri, r in enumerate(R.all_renderings(tree, full=full)):
        try:
            got = lib_parse(r)
        except Exception as ex:
            got = f"{type(ex).__name__}: {ex}"
        if got != tree:
            bad.append((r, got))
            if len(bad) >= 3:
                break
        if ri % 5 == 0:
            try:
                got_d = lib_parse(r, debug=True)
            except Exception as ex:
                got_d = f"{type(ex).__name__}: {ex}"
            if got_d != got:
                bad.append((r, f"with DEBUG logging on: {got_d}", got))
        ref = R.parse(r)
        if ref != tree:
            bad.append((r, "REFERENCE TOKENIZER DISAGREES WITH THE RENDERER", ref))
        if "<![CDATA[" in r:
            # whitespace is whitespace: the same rendering with the blanks next to the CDATA sections replaced by white space
            # outside ASCII (no-break space, line separator, ideographic space) - what str.strip() trims, the tokenizer skips
            v = r
            for ws in (" \r\n  ", "\n"):
                v = v.replace(ws + "<![CDATA[", "\u00a0\u2028<![CDATA[").replace("]]>" + ws, "]]>\u00a0\u3000")
            if v != r and R.parse(v) == tree:
                try:
                    got = lib_parse(v)
                except Exception as ex:
                    got = f"{type(ex).__name__}: {ex}"
                if got != tree:
                    bad.append((v, got))
    return bad


def cases_c02(tier):
    n = 5 if tier == "thorough" else 4
    out = [[t, False] for t in R.trees(n)]
    out += [[t, True] for t in R.trees(3)]
    # data edge cases on the small trees: ']' at the end of / ']]' inside CDATA-wrapped data, entity text that must
    # come out still escaped whichever rendering is used
    out += [[t, True] for t in R.trees(3 if tier == "thorough" else 2, datas=R.DATAS[2:])]
    out += [[t, False] for t in R.trees(4 if tier == "thorough" else 3, datas=R.DATAS[2:])]
    # one tag name used for a data element in one place and for an aggregate in another (never a data element named
    # like its own parent: that is the inherently ambiguous case), and an aggregate nested in a same-named aggregate
    def leaf_named_like_parent(node):
        return (not R.is_leaf(node)) and any((R.is_leaf(c) and c[0] == node[0]) or leaf_named_like_parent(c) for c in node[1])
    shared = [t for t in R.trees(5 if tier == "thorough" else 4, agg_tags=("A", "AG"), leaf_tags=("AG", "A"), datas=("x",)) if not leaf_named_like_parent(t)]
    out += [[t, False] for t in shared]
    # the tag OFX is a tag like any other: below a root of another name, as aggregate and as data element
    out += [[t, False] for t in R.trees(4 if tier == "thorough" else 3, agg_tags=("WRAP", "OFX"), leaf_tags=("OFX", "B1"), datas=("x",)) if not leaf_named_like_parent(t)]
    out += [[("WRAP", [("B1", "x"), ("OFX", [("B1", "y")]), ("B1", "z")]), True]]
    # tag names are as long as the institution likes (nothing in the tokenizer's pattern bounds them): 32, 33 and 70 characters,
    # as aggregates and as data elements
    LONG = ["L" * 32, "M" * 33, "INTU." + "N" * 65]
    for lt in LONG:
        out += [[("A", [(lt, [("B1", "x")]), ("B1", "y")]), True], [("A", [(lt, "x"), ("B1", "y")]), True], [(lt, [("B1", "x"), ("AG", [])]), False],
                [("A", [("AG", [(lt, [(lt[:-1] + "X", "v")])])]), False]]
    # long element data (a memo, a message body)
    out += [[("A", [("B1", "L" * 90), ("AG", [("B1", "M" * 73 + " end")])]), True]]
    nested = [("A", [("A", [("B1", "x")])]), ("A", [("AG", [("A", [("B1", "x")]), ("B1", "y")])]), ("A", [("A", [("A", [])])]), ("A", [("A", []), ("B1", "x"), ("A", [("B1", "y")])])]
    out += [[t, True] for t in nested]
    return out


def standalone_end_tag(r, pos):
    """is the end tag at pos a token of its own for the library's tokenizer (not the inline end tag of the element just opened)?"""
    from ofxtools.Parser import TreeBuilder
    return any(m.start() == pos for m in TreeBuilder.regex.finditer(r))


def faults(r):
    """all single faults of a rendering: (kind, text)"""
    out = []
    body = r.rstrip()
    for k in range(1, len(body)):
        out.append(("truncate", body[:k]))
    ends = [(m.start(), m.end(), m.group(1)) for m in re.finditer(r"</([^>]*)>", r)]
    for s, e, name in ends:
        out.append(("delete-end-tag", r[:s] + r[e:]))
        out.append(("rename-end-tag", r[:s] + "</ZZ>" + r[e:]))
        out.append(("misspell-end-tag", r[:s] + f"</{name}X>" + r[e:]))
        out.append(("duplicate-end-tag", r[:e] + f"</{name}>" + r[e:]))
        out.append(("text-after-end-tag", r[:e] + "zz" + r[e:]))
        if standalone_end_tag(r, s):
            # stray text written as a CDATA section.  Only after an end tag that is a token of its own: anywhere else the
            # pinned tokenizer skips a CDATA section that belongs to no element without a word - known finding
            # KF-C08-stray-cdata-skipped (replayed on every run), carved out here by position
            out.append(("cdata-after-end-tag", r[:e] + "<![CDATA[zz]]>" + r[e:]))
        out.append(("text-after-end-tag-and-a-blank", r[:e] + " zz" + r[e:]))
        out.append(("text-on-the-line-after-end-tag", r[:e] + "\n  zz\n" + r[e:]))
    for (s1, e1, n1), (s2, e2, n2) in zip(ends, ends[1:]):
        if n1 != n2 and not r[e1:s2].strip():
            out.append(("transpose-end-tags", r[:s1] + r[s2:e2] + r[e1:s2] + r[s1:e1] + r[e2:]))
    starts = [m.start() for m in re.finditer(r"<", r)]
    for s in starts:
        out.append(("stray-end-tag", r[:s] + "</Q>" + r[s:]))
    out.append(("second-top-level", r + "<A></A>"))
    out.append(("second-top-level-data", r + "<B1>x</B1>"))
    # the same kinds of junk on a line of its own after the body
    body = r.rstrip()
    for kind, junk in (("second-top-level-next-line", "<A></A>"), ("second-document-next-line", body), ("stray-end-tag-next-line", "</Q>"),
                       ("root-end-tag-again-next-line", "</A>"), ("text-next-line", "zz"), ("data-element-next-line", "<B1>x")):
        out.append((kind, body + "\n" + junk))
        out.append((kind + "-crlf", body + "\r\n" + junk + "\r\n"))
    return out


V1HDR = "OFXHEADER:100\r\nDATA:OFXSGML\r\nVERSION:102\r\nSECURITY:NONE\r\nENCODING:USASCII\r\nCHARSET:NONE\r\nCOMPRESSION:NONE\r\nOLDFILEUID:NONE\r\nNEWFILEUID:NONE\r\n\r\n"
V2HDR = '<?xml version="1.0" encoding="UTF-8" standalone="no"?>\n<?OFX OFXHEADER="200" VERSION="203" SECURITY="NONE" OLDFILEUID="NONE" NEWFILEUID="NONE"?>\n'


def file_parse(text, hdr):
    """the whole-file route: header + body through OFXTree.parse (root named OFX, as in a real file)"""
    import io
    from ofxtools.Parser import OFXTree
    t = OFXTree()
    t.parse(io.BytesIO((hdr + text.replace("<A>", "<OFX>").replace("</A>", "</OFX>")).encode("utf_8")))
    got = R.tree_of_element(t._root)

    def back(n):
        return ("A" if n[0] == "OFX" else n[0], n[1] if R.is_leaf(n) else [back(c) for c in n[1]])
    return back(got)


def check_faults(it, fn, a):
    tree = a[0]
    bad = []
    seen = set()
    for r in R.all_renderings(tree, full=False):
        for kind, text in faults(r):
            if text in seen:
                continue
            seen.add(text)
            try:
                ref = R.parse(text)
            except R.RefError:
                ref = None
            try:
                got = lib_parse(text)
                lib_ok = True
            except Exception as ex:
                got = f"{type(ex).__name__}"
                lib_ok = False
            if ref is None and lib_ok:
                bad.append((kind, text, f"accepted as {got}"))
            elif ref is not None and (not lib_ok or got != ref):
                bad.append((kind, text, f"still a valid body of {ref}, library gives {got}"))
            # the same body as a file (header in front, root named OFX) through OFXTree.parse is judged the same way
            if text.lstrip().startswith("<A>") and "OFX" not in text:
                for hdr in (V1HDR, V2HDR):
                    try:
                        got3 = file_parse(text, hdr); ok3 = True
                    except Exception as ex:
                        got3 = f"{type(ex).__name__}"; ok3 = False
                    if ok3 != lib_ok or (ok3 and got3 != got):
                        bad.append((kind + " (as a file through OFXTree.parse)", text, f"TreeBuilder: {got}; OFXTree.parse: {got3}"))
                        break
            # the same body handed over in two pieces (cut before a tag) is judged the same way
            for cut in chunk_points(text):
                try:
                    got2 = lib_parse(text, cut); ok2 = True
                except Exception as ex:
                    got2 = f"{type(ex).__name__}"; ok2 = False
                if ok2 != lib_ok or (ok2 and got2 != got):
                    bad.append((kind + f" (fed in two pieces, cut at {cut})", text, f"one feed: {got}; two feeds: {got2}"))
                    break
            if len(bad) >= 3:
                return bad
    return bad


def cases_c08(tier):
    out = [[t] for t in R.trees(4 if tier == "thorough" else 3)]
    # vendor (dotted) tags are tags like any other to the body parser: as aggregates and as data elements
    out += [[t] for t in R.trees(3, agg_tags=("A", "INTU.AG"), leaf_tags=("INTU.B", "B1"), datas=("x",)) if "INTU" in repr(t)]
    return out


class A_(Arg):
    def __init__(self, name):
        self.name = name


CONTRACTS = [
    Contract("ofxtools.Parser:TreeBuilder.feed", args=[A_("tree"), A_("full")], call=check_renderings,
             ensures=[("every-rendering-parses-to-the-tree", "result == []")], cases=cases_c02, native_only=True, shards=16,
             notes="all trees with <= 4 nodes (5 in thorough) over 2 aggregate tags, 2 data-element tags (one vendor-dotted), 2 data values x 6 rendering choices per node (end tag yes/no, 3 whitespace layouts, CDATA); all 12 choices per node for trees with <= 3 nodes; about 440 000 renderings",
             props=["C02"]),
    Contract("ofxtools.Parser:TreeBuilder.feed", args=[A_("tree")], call=check_faults,
             ensures=[("faulted-bodies-refused-unless-still-valid", "result == []")], cases=cases_c08, native_only=True, shards=16,
             notes="every rendering of every tree with <= 3 nodes (4 in thorough) x every single fault: truncation at each character, deletion / renaming / misspelling / duplication of each end tag, transposition of adjacent end tags, text after an end tag, a stray end tag before each tag, a second top-level element; oracle = strict reference tokenizer",
             props=["C08"]),
]


# ------------------------------------------------------------------------------------------ deep nesting (C08)
def check_deep_faults(it, fn, a):
    """one canonical rendering of a chain of `depth` nested aggregates with a data element at the bottom, and every single
    fault of it: the record of open elements has no depth at which it stops checking"""
    depth = a[0]
    tags = ["A", "AG"]
    text = "".join(f"<{tags[i % 2]}>" for i in range(depth)) + "<B1>x</B1>" + "".join(f"</{tags[i % 2]}>" for i in reversed(range(depth)))
    bad = []
    try:
        if lib_parse(text) != R.parse(text):
            return [("the-chain-itself", text[:80], "parsed differently from the reference")]
    except Exception as ex:
        return [("the-chain-itself", text[:80], f"{type(ex).__name__}: {ex}")]
    seen = set()
    for kind, t in faults(text):
        if t in seen or kind.startswith("second-") or "next-line" in kind:
            continue
        seen.add(t)
        try:
            ref = R.parse(t)
        except R.RefError:
            ref = None
        try:
            got = lib_parse(t); ok = True
        except Exception as ex:
            got = type(ex).__name__; ok = False
        if ref is None and ok:
            bad.append((kind, t[:60] + "..." + t[-60:], "accepted"))
        elif ref is not None and (not ok or got != ref):
            bad.append((kind, t[:60] + "..." + t[-60:], f"still valid, library gives {got if not ok else 'another tree'}"))
        if len(bad) >= 3:
            break
    return bad


def cdata_literal(it, fn, a):
    """C03: a CDATA section is literal character data - what stands between the brackets is the value, blanks and line breaks
    at its ends included (only element text outside CDATA is trimmed)"""
    content = a[0]
    text = f"<A><B1><![CDATA[{content}]]></B1><B1>plain</B1></A>"
    try:
        got = lib_parse(text)
    except Exception as ex:
        return [f"{type(ex).__name__}: {ex}"]
    want = ("A", [("B1", content), ("B1", "plain")])
    return [] if got == want else [f"CDATA content {content!r} arrives as {got!r}"]


CONTRACTS += [
    Contract("ofxtools.Parser:TreeBuilder.feed", args=[A_("depth")], call=check_deep_faults,
             ensures=[("faulted-deep-bodies-refused-unless-still-valid", "result == []")], cases=lambda tier: [[d] for d in ((10, 63, 64, 65, 66, 130) if tier != "thorough" else (10, 63, 64, 65, 66, 100, 130, 260))],
             native_only=True, shards=6,
             notes="chains of 10 .. 130 (260 thorough) nested aggregates, one canonical rendering, every single fault (truncation at each character, each end tag deleted / renamed / misspelt / duplicated, text and CDATA after it, transpositions, stray end tags)",
             props=["C08"]),
    Contract("ofxtools.Parser:TreeBuilder.feed", args=[A_("content")], call=cdata_literal,
             ensures=[("cdata-is-literal", "result == []")], cases=lambda tier: [[c] for c in (" x", "x ", "  two  spaces  ", "\n  indented\n", "\tx\t", "x")],
             native_only=True,
             notes="CDATA content with blanks / line breaks at its ends arrives verbatim", props=["C03"]),
]
