"""C04 - every declared constraint is enforced on both construction routes (proof)."""
from props.common import run_contracts, replay_known_findings
from props.aggclasses import run_class_init
from props.c10 import TRUSTED

LEVEL = "proof"
AGG_TRUSTED = [
    "L1 abstraction: class-level mappings (spec, listaggregates, listelements, unsupported) are an uninterpreted index / predicates, so one proof of each generic function covers every class; converters and the sub-aggregate recursion are abstract callees",
    "L2 per class: Aggregate.__init__ (+ each class's own validate_args) executed symbolically with all presence patterns; converters abstracted by the C10 facts: convert(None) raises OFXSpecError iff required, convert(v) returns conv(attr, v) or raises ValueError-family/TypeError",
    "mutex census: every group declared by any class in the MRO (not only the one attribute lookup finds)",
]


def run(rep, tier, seed):
    rep.trusted += TRUSTED + AGG_TRUSTED
    rep.assumptions += [
        "element-tree route: the fold step update_args is proved for a symbolic child against the spec step (order check, duplicate check, value routing, unknown tags); that the whole fold equals the iterated step is functools.reduce's definition (T-LIB)",
        "keyword route: proved per class for all 2^n presence patterns of the non-list attributes; list members and leftover keyword arguments by the L1 contracts of _apply_args/_apply_residual_kwargs",
        "limits of enumerations, string lengths and integer digits: the converter contracts (refusal of every violating value, acceptance at the limit) are discharged here too",
        "before anything is checked every worker reads the derived class-level mappings of all model classes, base classes first (vlib.common.adversarial_warmup): constraints must not depend on which classes were used earlier",
        "class-specific validate_args overrides are executed and may refuse more than the generic constraints; nothing further is claimed about their own rules",
    ]
    run_contracts(rep, "contracts.aggregate", tier, seed)
    run_contracts(rep, "contracts.aggregate_native", tier, seed)      # bounded companions on real classes / trees
    run_class_init(rep, tier, seed)
    run_contracts(rep, "contracts.validators", tier, seed)      # constraints declared in code (validate_args overrides)
    # element-level constraints (enumerations, string lengths, integer digits, required): the converters refuse every
    # violating value and accept values exactly at the limit - both routes go through Element.__set__ -> convert
    must = lambda c: any(mode == "must" for _, _, mode in c.raises) or any(i in ("value", "kept-whole", "passthrough") for i, _ in c.ensures)
    for m in ("contracts.types_basic", "contracts.types_decimal"):
        run_contracts(rep, m, tier, seed, select=must, accept_props=["C10", "C11"])
    from props.tables import run_tables
    run_tables(rep, rep.prop)
    replay_known_findings(rep)
