"""Bounded companion for C06 (engine R): the real request_statements / request_accounts / request_tax1099 /
request_profile with dryrun=True over an enumerated configuration space; the composed bytes are parsed back
with the library and compared with what was asked."""
import datetime, io, itertools, random
from pyvc.contract import *
from ofxtools.Client import OFXClient, StmtRq, CcStmtRq, InvStmtRq, StmtEndRq, CcStmtEndRq
from ofxtools.Parser import OFXTree
from ofxtools.utils import UTC

VERSIONS = [102, 103, 151, 160, 200, 201, 202, 203, 210, 211, 220]
TEXTS = ["user1", "p&w<d>", "O'Brien \"q\"", "é€ü", "x" * 32,
         # an ampersand followed by something an HTML (not an OFX) reader would take for a character reference
         "good&times2024", "tom&micro", "R&#38D-0042", "50%&copy", "a&ltb"]


def tz(mins):
    return datetime.timezone(datetime.timedelta(minutes=mins))


DATES = [datetime.datetime(2020, 1, 1, tzinfo=UTC), datetime.datetime(2021, 2, 28, 23, 59, 59, 999000, tzinfo=tz(-210)),
         datetime.datetime(1999, 12, 31, 12, 0, 0, tzinfo=tz(330)), None,
         datetime.datetime(2022, 3, 4, 0, 10, 0, tzinfo=tz(-30)), datetime.datetime(2022, 3, 4, 23, 50, 0, 500000, tzinfo=tz(-44)),
         datetime.datetime(2023, 7, 1, 0, 0, 0, tzinfo=tz(45)), datetime.datetime(2023, 7, 1, 6, 0, 0, tzinfo=tz(-1))]
# a zone with daylight saving: the hour that occurs twice when the clocks go back (second occurrence: fold=1), and the last
# half millisecond before a change of offset
from contracts.types_dt import DstTz
DATES += [datetime.datetime(2021, 11, 7, 1, 30, 0, tzinfo=DstTz(), fold=1), datetime.datetime(2021, 11, 7, 1, 30, 0, tzinfo=DstTz(), fold=0),
          datetime.datetime(2021, 11, 7, 1, 59, 59, 999600, tzinfo=DstTz(), fold=0), datetime.datetime(2021, 3, 14, 1, 59, 59, 999600, tzinfo=DstTz())]


def mk_request(kind, rng, i):
    acct = rng.choice(["123", "A&B<9>", "0001-2", "4111&lt1111", "x" * 22, "y" * 30 + "-1", "y" * 30 + "-2"])      # longer than the 22 characters OFX allows: warned about, sent whole
    ds, de = rng.choice(DATES), rng.choice(DATES)
    if kind == "stmt":
        return StmtRq(acctid=acct, accttype=rng.choice(["CHECKING", "SAVINGS", "MONEYMRKT", "CREDITLINE"]), dtstart=ds, dtend=de, inctran=rng.choice([True, False]))
    if kind == "cc":
        return CcStmtRq(acctid=acct, dtstart=ds, dtend=de, inctran=rng.choice([True, False]))
    if kind == "inv":
        return InvStmtRq(acctid=acct, dtstart=ds, dtend=de, dtasof=rng.choice(DATES), inctran=rng.choice([True, False]), incoo=rng.choice([True, False]),
                         incpos=rng.choice([True, False]), incbal=rng.choice([True, False]))
    if kind == "stmtend":
        return StmtEndRq(acctid=acct, accttype=rng.choice(["CHECKING", "SAVINGS"]), dtstart=ds, dtend=de)
    return CcStmtEndRq(acctid=acct, dtstart=ds, dtend=de)


def same_instant(a, b):
    if a is None or b is None:
        return a is None and b is None
    return abs((a - b).total_seconds()) <= 0.0005


def compose_and_check(it, fn, a):
    version, pretty, close, org, clientuid, kinds, seed = a
    rng = random.Random(seed)
    problems = []
    kw = dict(userid=rng.choice(TEXTS), version=version, prettyprint=pretty, close_elements=close, bankid="BANK&1", brokerid="broker.example")
    if org:
        kw.update(org="ORG<1>", fid="F&2")
    if clientuid:
        kw.update(clientuid="CUID-1")
    try:
        client = OFXClient("https://example.com/ofx", **kw)
    except ValueError as ex:
        return [] if (not close and version >= 200) else [f"constructor refused: {ex}"]
    if not close and version >= 200:
        return ["versions 2xx must refuse to omit end tags"]
    password = rng.choice(TEXTS)
    reqs = [mk_request(k, rng, i) for i, k in enumerate(kinds)]
    if reqs and seed % 2 == 1:
        # a multiset may hold the very same request twice: one wrapper per requested account *occurrence*
        j = rng.randrange(len(reqs))
        kinds = list(kinds) + [kinds[j]]
        reqs = reqs + [reqs[j]]
    if seed % 3 == 0:
        # "in every configuration" includes the configuration after other calls on the same client - successful or
        # refused: a profile request with per-call overrides, an account-information request
        for other in (203, 102, 220):
            try:
                client.request_profile(version=other, prettyprint=not pretty, close_elements=(other >= 200) or not close, dryrun=True)
            except Exception:
                pass
        try:
            client.request_accounts(password, datetime.datetime(2020, 1, 1, tzinfo=UTC), dryrun=True)
        except Exception:
            pass
    data = client.request_statements(password, *reqs, dryrun=True).read()
    tree = OFXTree()
    tree.parse(io.BytesIO(data))
    if tree.header.version != version:
        problems.append(f"header version {tree.header.version}")
    ofx = tree.convert()
    son = ofx.signonmsgsrqv1.sonrq
    if son.userid != kw["userid"] or son.userpass != password or son.language != "ENG" or son.appid != "QWIN" or son.appver != "2700":
        problems.append(f"sign-on carries {son.userid!r}/{son.userpass!r}")
    if (son.fi is not None) != bool(org) or (org and (son.fi.org != "ORG<1>" or son.fi.fid != "F&2")):
        problems.append("FI")
    want_cuid = "CUID-1" if (clientuid and version >= 103) else None
    if son.clientuid != want_cuid:
        problems.append(f"CLIENTUID {son.clientuid!r}, expected {want_cuid!r} (version {version})")
    uids = []

    def check_set(attr, wanted):
        ms = getattr(ofx, attr)
        if not wanted:
            if ms is not None:
                problems.append(f"{attr} present without requests")
            return
        if ms is None or len(ms) != len(wanted):
            problems.append(f"{attr}: {0 if ms is None else len(ms)} wrappers for {len(wanted)} requests")
            return
        for w, (kind, rq) in zip(ms, wanted):
            uids.append(w.trnuid)
            exp_cls = {"stmt": "STMTTRNRQ", "stmtend": "STMTENDTRNRQ", "cc": "CCSTMTTRNRQ", "ccend": "CCSTMTENDTRNRQ", "inv": "INVSTMTTRNRQ"}[kind]
            if type(w).__name__ != exp_cls:
                problems.append(f"{attr}: wrapper {type(w).__name__} for a {kind} request")
                continue
            body = getattr(w, {"stmt": "stmtrq", "stmtend": "stmtendrq", "cc": "ccstmtrq", "ccend": "ccstmtendrq", "inv": "invstmtrq"}[kind])
            if kind in ("stmt", "stmtend"):
                acc = body.bankacctfrom
                if acc.acctid != rq.acctid or acc.accttype != rq.accttype or acc.bankid != "BANK&1":
                    problems.append(f"{kind}: account {acc.acctid!r} {acc.accttype} {acc.bankid!r}")
            elif kind in ("cc", "ccend"):
                if body.ccacctfrom.acctid != rq.acctid:
                    problems.append(f"{kind}: account {body.ccacctfrom.acctid!r}")
            else:
                if body.invacctfrom.acctid != rq.acctid or body.invacctfrom.brokerid != "broker.example":
                    problems.append("inv: account")
            if kind in ("stmt", "cc"):
                inc = body.inctran
                if inc.include != rq.inctran or not same_instant(inc.dtstart, rq.dtstart) or not same_instant(inc.dtend, rq.dtend):
                    problems.append(f"{kind}: INCTRAN include={inc.include} (asked {rq.inctran}) {inc.dtstart} {inc.dtend}")
            elif kind in ("stmtend", "ccend"):
                if not same_instant(body.dtstart, rq.dtstart) or not same_instant(body.dtend, rq.dtend):
                    problems.append(f"{kind}: dates")
            else:
                if rq.inctran:
                    if body.inctran is None or body.inctran.include is not True or not same_instant(body.inctran.dtstart, rq.dtstart) or not same_instant(body.inctran.dtend, rq.dtend):
                        problems.append("inv: INCTRAN")
                elif body.inctran is not None:
                    problems.append("inv: INCTRAN present although not asked")
                if body.incoo != rq.incoo or body.incbal != rq.incbal or body.incpos.include != rq.incpos or not same_instant(body.incpos.dtasof, rq.dtasof):
                    problems.append(f"inv: flags incoo={body.incoo} incbal={body.incbal} incpos={body.incpos.include} asked {rq.incoo} {rq.incbal} {rq.incpos}")
    # the account-information request of the same client: asked with the caller's date - the same instant, whatever its zone
    for d in [x for x in DATES if x is not None][seed % 3::3]:
        try:
            raw = client.request_accounts(password, d, dryrun=True).read()
            t2 = OFXTree(); t2.parse(io.BytesIO(raw)); o2 = t2.convert()
            got = o2.signupmsgsrqv1[0].acctinforq.dtacctup
            if not same_instant(got, d):
                problems.append(f"account-information request asked with {d.isoformat()} goes out with DTACCTUP {got.isoformat()}")
            s2 = o2.signonmsgsrqv1.sonrq
            if s2.userid != kw["userid"] or s2.userpass != password:
                problems.append("account-information request: credentials")
        except Exception as ex:
            problems.append(f"account-information request with {d!r}: {type(ex).__name__}: {ex}")
    pairs = list(zip(kinds, reqs))
    # closing-statement wrappers come before statement wrappers within a message set (request order within each kind)
    check_set("bankmsgsrqv1", [p for p in pairs if p[0] == "stmtend"] + [p for p in pairs if p[0] == "stmt"])
    check_set("creditcardmsgsrqv1", [p for p in pairs if p[0] == "ccend"] + [p for p in pairs if p[0] == "cc"])
    check_set("invstmtmsgsrqv1", [p for p in pairs if p[0] == "inv"])
    if len(set(uids)) != len(uids):
        problems.append("transaction ids not distinct")
    return problems


KINDS = ["stmt", "cc", "inv", "stmtend", "ccend"]


def cases(tier):
    out = []
    rng = random.Random(12345)
    multis = [()] + [(k,) for k in KINDS] + [tuple(c) for c in itertools.permutations(KINDS, 2)] + [("stmt", "stmtend", "stmt"), ("cc", "ccend", "cc", "inv"), tuple(KINDS), tuple(reversed(KINDS)), ("stmt", "stmt", "stmt")]
    for version in VERSIONS:
        for pretty in (False, True):
            for close in (True, False):
                for org in (False, True):
                    for cuid in (False, True):
                        ks = multis if (tier == "thorough") else [multis[rng.randrange(len(multis))] for _ in range(3)]
                        for kinds in ks:
                            out.append([version, pretty, close, org, cuid, list(kinds), rng.randrange(10 ** 6)])
    return out


class A_(Arg):
    def __init__(self, name):
        self.name = name


CONTRACTS = [
    Contract("ofxtools.Client:OFXClient.request_statements",
             args=[A_("version"), A_("pretty"), A_("close_elements"), A_("org"), A_("clientuid"), A_("kinds"), A_("seed")],
             call=compose_and_check, ensures=[("composed-request-says-what-was-asked", "result == []")],
             cases=cases, native_only=True, shards=16,
             notes="11 versions x pretty x close_elements x ORG/FID x CLIENTUID x request multisets (3 sampled per configuration in quick, 32 in thorough; sizes 0..5, all orders of pairs) with credentials/account ids incl. & < > quotes and non-ASCII, dates with UTC offsets, all include flags; dry run parsed back by the library",
             props=["C06"]),
]
