"""C16 - shortcuts and flat attribute access agree with the full path; misses are clean (proof)."""
from props.common import run_contracts, replay_known_findings
from props.c10 import TRUSTED
from props.c04 import AGG_TRUSTED

LEVEL = "proof"


def run(rep, tier, seed):
    rep.trusted += TRUSTED + AGG_TRUSTED
    rep.assumptions += [
        "A-NONEATTR: a looked-up name is not one of NoneType's own attributes",
        "__getattr__: loop body proved for a symbolic sub-aggregate (None / defines the name / AttributeError / KeyError): the first definer's stored value is returned, nothing else escapes; exhausted loop raises AttributeError",
    ]
    run_contracts(rep, "contracts.aggregate", tier, seed)
    run_contracts(rep, "contracts.aggregate_native", tier, seed)
    run_contracts(rep, "contracts.shortcuts", tier, seed)
    replay_known_findings(rep)
