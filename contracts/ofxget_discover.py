"""C19 - discovery (--all): which of the accounts a server lists are requested.

parse_bankacctinfos / parse_ccacctinfos / parse_invacctinfos and _acctIsActive under contract: for a list of
0..3 account-information entries whose service status is ANY text, whose other attributes (SUPTXDL, XFERSRC,
XFERDEST, account numbers, ids) are unconstrained, the mapping returned holds - per account type - exactly the
account numbers of the entries whose status is ACTIVE, in the order listed, and the bank / broker id entry is
present iff at least one entry is ACTIVE and is what collapseToSingle makes of the ACTIVE entries' ids.
collapseToSingle is an abstract callee here (its own contract: the one distinct item, else ValueError)."""
import collections, itertools
import z3
from pyvc.contract import *
from pyvc.values import *
from pyvc import core as C
from pyvc import models as M
from ofxtools.scripts import ofxget as G
from ofxtools import utils as U
from contracts.client import Marker, log

BANKTYPES = ["CHECKING", "SAVINGS", "MONEYMRKT", "CREDITLINE", "CD"]


class ADefaultDict(Abstract):
    """collections.defaultdict(list) with concrete keys"""
    pytype = dict

    def __init__(self):
        self.d = {}

    def p_getitem(self, it, key):
        k = it.concrete_key(key)
        if k not in self.d:
            self.d[k] = []
        return self.d[k]

    def p_setitem(self, it, key, value):
        self.d[it.concrete_key(key)] = value

    def p_contains(self, it, item):
        return it.concrete_key(item) in self.d

    def p_asdict(self, it):
        return dict(self.d)

    def p_iter(self, it):
        return list(self.d)

    def p_getattr(self, it, name):
        if name == "items":
            return lambda: list(self.d.items())
        if name == "keys":
            return lambda: list(self.d)
        if name == "get":
            return lambda k, default=None: self.d.get(it.concrete_key(k), default)
        raise C.Unsupported(f"defaultdict.{name}")


class InfosArg(Arg):
    """n entries of one kind; status any text, flags any Booleans, numbers and ids opaque; account types from a pattern"""

    def __init__(self, kind, types, name="infos"):
        self.kind = kind; self.types = types; self.name = name

    def make(self, it):
        out, asm = [], []
        for i, t in enumerate(self.types):
            f = {"svcstatus": SVal(str, z3.Const(f"status_{i}", V)),
                 "suptxdl": SBool(z3.Bool(f"suptxdl_{i}")), "xfersrc": SBool(z3.Bool(f"xfersrc_{i}")), "xferdest": SBool(z3.Bool(f"xferdest_{i}")),
                 "acctid": SVal(str, z3.Const(f"acctid_{i}", V)), "desc": None, "phone": None}
            if self.kind == "bank":
                f.update(bankid=SVal(str, z3.Const(f"bankid_{i}", V)), accttype=t)
                f["bankacctfrom"] = Marker(f"bankacctfrom{i}", bankid=f["bankid"], acctid=f["acctid"], accttype=t)
            elif self.kind == "inv":
                f["brokerid"] = SVal(str, z3.Const(f"brokerid_{i}", V))
                f["invacctfrom"] = Marker(f"invacctfrom{i}", brokerid=f["brokerid"], acctid=f["acctid"])
                f.update(usproducttype="OTHER", checking=SBool(z3.Bool(f"checking_{i}")), invacctype=None)
            else:
                f["ccacctfrom"] = Marker(f"ccacctfrom{i}", acctid=f["acctid"])
            out.append(Marker(f"{self.kind}acctinfo{i}", **f))
        return out, asm


def call_parse(fname):
    def call(it, fn, a):
        it.models[collections.defaultdict] = lambda it_, ar, kw: ADefaultDict()
        it.models[G.defaultdict] = it.models[collections.defaultdict]

        def m_collapse(it_, ar, kw):
            log(it_, "collapseToSingle", list(it_.iterate(ar[0])), ar[1])
            return Marker("the-single-id", of=list(it_.iterate(ar[0])))
        it.models[U.collapseToSingle] = m_collapse
        r = it.call(getattr(G, fname), [a[0]], {})
        return r.p_asdict(it) if isinstance(r, ADefaultDict) else r
    return call


def _active(it, info):
    """decided by the path: the status text of this entry is / is not 'ACTIVE'"""
    st = info.attrs["svcstatus"]
    return it.branch(st.e == it.embed("ACTIVE"))


def _same_terms(got, want, it=None):
    if isinstance(got, GList) and it is not None:
        got = it.iterate(got)          # a comprehension with undecided filters: decide them (they are decided by the path already)
    if not isinstance(got, list) or len(got) != len(want):
        return False
    return all(g is w or (isinstance(g, SVal) and isinstance(w, SVal) and g.e.eq(w.e)) for g, w in zip(got, want))


def discovered_ok(infos, result, kind):
    raise RuntimeError("symbolic only")


def _discovered_ok(it, a, kw):
    infos, result, kind = a
    if not isinstance(result, dict):
        return False
    act = [i for i in infos if _active(it, i)]
    want = {}
    if kind == "bank":
        for i in act:
            want.setdefault(i.attrs["accttype"].lower(), []).append(i.attrs["acctid"])
        idkey, ids = "bankid", [i.attrs["bankid"] for i in act]
    elif kind == "inv":
        if act:
            want["investment"] = [i.attrs["acctid"] for i in act]
        idkey, ids = "brokerid", [i.attrs["brokerid"] for i in act]
    else:
        want["creditcard"] = [i.attrs["acctid"] for i in act]
        idkey, ids = None, []
    keys = set(want) | ({idkey} if ids else set())
    if set(result) != keys:
        return False
    for k, v in want.items():
        if not _same_terms(result[k], v, it):
            return False
    if ids:
        single = result[idkey]
        if not (isinstance(single, Marker) and single.label == "the-single-id" and _same_terms(single.attrs["of"], ids)):
            return False
    return True


discovered_ok._pyvc_model = _discovered_ok
discovered_ok._pyvc_always = True
import contracts.spec.ofxget as _sp
_sp.discovered_ok = discovered_ok

CONTRACTS = []
PATTERNS = {"bank": [[], ["CHECKING"], ["SAVINGS", "SAVINGS"], ["CHECKING", "SAVINGS", "CHECKING"], ["MONEYMRKT", "CREDITLINE", "CD"]],
            "cc": [[], [None], [None, None], [None, None, None]],
            "inv": [[], [None], [None, None], [None, None, None]]}
for kind, fname in (("bank", "parse_bankacctinfos"), ("cc", "parse_ccacctinfos"), ("inv", "parse_invacctinfos")):
    for pat in PATTERNS[kind]:
        CONTRACTS.append(Contract(f"ofxtools.scripts.ofxget:{fname}", args=[InfosArg(kind, pat)], call=call_parse(fname),
                                  ensures=[("exactly-the-ACTIVE-accounts-in-order", f"spec.ofxget.discovered_ok(infos, result, {kind!r})")],
                                  notes=f"{len(pat)} entries {pat if kind == 'bank' else ''}; status any text, SUPTXDL/XFERSRC/XFERDEST any Booleans, numbers opaque",
                                  props=["C19"], symbolic_only=True))

# _acctIsActive: ACTIVE and nothing else - whatever the other attributes of the entry say
CONTRACTS.append(Contract("ofxtools.scripts.ofxget:_acctIsActive", args=[InfosArg("bank", ["CHECKING"])],
                          call=lambda it, fn, a: it.call(G._acctIsActive, [a[0][0]], {}),
                          ensures=[("active-only", "result == (infos[0].svcstatus == 'ACTIVE')")],
                          notes="SUPTXDL, XFERSRC, XFERDEST unconstrained", props=["C19"], symbolic_only=True))


# ------------------------------------------------------------------------------------------- _merge_acctinfo
# the entries a server lists, of the three known kinds and of a kind ofxget does not request (bill pay), in any of a few
# orders; extract_acctinfos and the three parse_* functions are abstract here (own contracts above).  Proved: every
# entry is handed to the parser OF ITS KIND, all entries of one kind in one call and in the order listed; entries of
# an unknown kind reach no parser; the mappings so obtained are inserted as ONE layer right behind the command line
# (position 1) and every other layer of the settings keeps its place.
import collections as _c
from contracts.ofxget_config import AChain

KIND_CLASSES = {n: type(n, (), {}) for n in ("BANKACCTINFO", "CCACCTINFO", "INVACCTINFO", "BPACCTINFO")}
PARSER_OF = {"BANKACCTINFO": "parse_bankacctinfos", "CCACCTINFO": "parse_ccacctinfos", "INVACCTINFO": "parse_invacctinfos"}


class ListedArg(Arg):
    def __init__(self, kinds, name="listed"):
        self.kinds = kinds; self.name = name

    def make(self, it):
        return [KIND_CLASSES[k]() for k in self.kinds], []


def call_merge_acctinfo(it, fn, a):
    listed = a[0]
    it.models[G.extract_acctinfos] = lambda it_, ar, kw: (log(it_, "extract", ar[0]), list(listed))[1]
    for cls, fname in PARSER_OF.items():
        it.models[getattr(G, fname)] = (lambda fname_: lambda it_, ar, kw: (log(it_, fname_, list(it_.iterate(ar[0]))), {"parsed-by": fname_})[1])(fname)
    it.models[_c.ChainMap] = lambda it_, ar, kw: AChain(ar)
    it.models[G.ChainMap] = it.models[_c.ChainMap]
    layers = [{"layer": "command line"}, {"layer": "user file"}, {"layer": "defaults"}]
    args = AChain(list(layers))
    it.st.ghost["layers"] = layers
    markup = Marker("markup")
    it.call(G._merge_acctinfo, [args, markup], {})
    return args


def merged_ok(ghost, listed, result):
    raise RuntimeError("symbolic only")


def _merged_ok(it, a, kw):
    ghost, listed, args = a
    layers = ghost["layers"]
    maps = args.maps
    if len(maps) != 4 or maps[0] is not layers[0] or maps[2] is not layers[1] or maps[3] is not layers[2]:
        return False
    new = maps[1]
    if not isinstance(new, AChain):
        return False
    want_calls = {}
    for x in listed:
        n = type(x).__name__
        if n in PARSER_OF:
            want_calls.setdefault(PARSER_OF[n], []).append(x)
    got_calls = {}
    for c in ghost["calls"]:
        if c[0] in PARSER_OF.values():
            if c[0] in got_calls:
                return False             # one call per kind
            got_calls[c[0]] = c[1]
    if set(got_calls) != set(want_calls):
        return False
    for k, v in want_calls.items():
        if len(got_calls[k]) != len(v) or any(g is not w for g, w in zip(got_calls[k], v)):
            return False
    # the new layer is made of exactly the mappings the parsers returned (an unknown kind contributes an empty one)
    named = sorted(m["parsed-by"] for m in new.maps if isinstance(m, dict) and m)
    return named == sorted(want_calls) and all(isinstance(m, dict) for m in new.maps)


merged_ok._pyvc_model = _merged_ok
merged_ok._pyvc_always = True
_sp.merged_ok = merged_ok

for kinds in ([], ["BANKACCTINFO"], ["INVACCTINFO", "BANKACCTINFO", "CCACCTINFO", "BANKACCTINFO"], ["BPACCTINFO", "CCACCTINFO", "BPACCTINFO"],
              ["CCACCTINFO", "INVACCTINFO", "INVACCTINFO", "BANKACCTINFO", "BPACCTINFO", "CCACCTINFO"]):
    CONTRACTS.append(Contract("ofxtools.scripts.ofxget:_merge_acctinfo", args=[ListedArg(kinds)], call=call_merge_acctinfo,
                              ensures=[("each-kind-to-its-own-parser-and-one-layer-behind-the-command-line", "spec.ofxget.merged_ok(ghost, listed, result)")],
                              notes=f"listed kinds {kinds}; extract_acctinfos and the parsers abstract", props=["C19"], symbolic_only=True))
