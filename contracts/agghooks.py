"""Abstract converters for proofs that build model instances: by the C10 contracts every element converter
satisfies  convert(None) raises OFXSpecError iff required else returns None;  convert(v) (v not None) returns
conv(attr, v) or raises (ValueError family / TypeError).  Installed as a dispatch hook on the interpreter."""
import z3
from pyvc import core as C
from pyvc.values import *
from pyvc import models as M
from ofxtools import Types

conv = z3.Function("conv_of", V, V, V)
conv_ok = z3.Function("conv_accepts", V, V, z3.BoolSort())
NoneV = z3.Const("NoneV", V)
box_int = z3.Function("box_int", z3.IntSort(), V)
box_bool = z3.Function("box_bool", z3.BoolSort(), V)
obj_id = {}


def toV(it, v):
    if v is None:
        return NoneV
    if isinstance(v, SVal):
        return v.e
    if isinstance(v, (str, SStr)):
        return M.text_term(it, v)
    if isinstance(v, SIte):
        return z3.If(v.c, toV(it, v.a), toV(it, v.b))
    if isinstance(v, bool):
        return box_bool(z3.BoolVal(v))
    if isinstance(v, SBool):
        return box_bool(v.e)
    if isinstance(v, int):
        return box_int(z3.IntVal(v))
    if isinstance(v, SInt):
        return box_int(v.e)
    if isinstance(v, (SObj, Abstract)) or not is_sym(v):
        k = id(v)
        if k not in obj_id:
            obj_id[k] = (z3.Const(f"obj!{len(obj_id)}", V), v)
        return obj_id[k][0]
    raise C.Unsupported(f"toV {type(v).__name__}")


def install(it):
    def hook(it_, dm, args, kwargs):
        if dm.name != "convert" or not isinstance(dm.obj, Types.Element):
            return NotImplemented
        cv = dm.obj
        if isinstance(cv, Types.SubAggregate) and isinstance(it_.force(args[0]) if isinstance(args[0], SIte) else args[0], (SObj, type(None))):
            return NotImplemented        # real SubAggregate.convert on heap instances: isinstance check, identity
        v = args[0]
        ident = it_.lit(getattr(cv, "name", "?"))
        isnone = M.is_none(it_, v)
        ve = toV(it_, v)
        required = bool(getattr(cv, "required", False))
        bad = zor(zand(isnone, required), zand(znot(isnone), z3.Not(conv_ok(ident, ve))))
        if bad is True or (bad is not False and it_.branch(zbool(bad))):
            if (it_.branch(zbool(isnone)) if not isinstance(isnone, bool) else isnone):
                raise C.Raised(ExcVal(Types.OFXSpecError, ("Value is required",)))
            if it_.branch(z3.Bool(f"refusal_is_typeerror!{it_.counter}")):
                raise C.Raised(ExcVal(TypeError, ("wrong type",)))
            raise C.Raised(ExcVal(Types.OFXSpecError, ("refused",)))
        res = SVal(object, conv(ident, ve), {"eq": "term"})
        if isnone is False:
            return res
        if isnone is True:
            return None
        return SIte(isnone, None, res)
    it.dispatch_hooks.append(hook)
    it.models[list.__init__] = lambda it_, a, k: None
    return conv, conv_ok
