"""C15 - the cached FI profile: per-call contract and invariant for sequential histories (proof); crash points and
interleavings are not decidable by this technique family (stated, not substituted)."""
from props.common import run_contracts, replay_known_findings
from props.c10 import TRUSTED

LEVEL = "proof"


def run(rep, tier, seed):
    rep.trusted += TRUSTED + [
        "ghost file system: the cache is (present, content); open(path,'wb') truncates, write sets the content; pathlib exists/mkdir abstract",
        "the parser is abstract on byte strings: parse_ok / status code / DTPROFUP are uninterpreted; _request_profile returns arbitrary bytes or raises",
    ]
    rep.assumptions += [
        "NOT DECIDED (no contract within reach): a crash between open(...,'wb') truncating the file and write completing; interleavings of the write steps (truncate / write) of concurrent request_profile calls (ofxget _queue_scans). The main per-call contract assumes atomic, sequential calls.",
        "concurrency, the part decided: a rely/guarantee variant of the per-call contract lets every read of the cache file return unconstrained content (another writer may have truncated or replaced the file between any two steps) and proves that a successful call still returns, and writes, only bytes that this very call has parsed as one whole profile",
        "sequential histories: the induction step is machine-checked (z3) over a transcription of the per-call contract's clauses (history_lemmas in props/c15.py; the clause names it relies on are checked to exist in the contract): invariant preserved, cache never goes back, a failing call changes nothing, a successful call returns the profile then held. The base case (no cache) and the induction principle over finite histories are not formalised.",
    ]
    run_contracts(rep, "contracts.client", tier, seed)
    history_lemmas(rep)
    # concurrency, what a syntactic census can say: no function of the client module shares an object between its calls
    # (module-level rebinding, memo decorators, objects built once as default arguments) - two threads would share it too
    import os
    from props.census import run_census_of
    run_census_of(rep, os.environ.get("VERIF_REPO", "/repo"), ["ofxtools/Client.py"])
    run_contracts(rep, "contracts.client_history", tier, seed)
    replay_known_findings(rep)


# the clauses of the per-call contract (contracts/client.py, C15_0) the step lemmas rest on
RELIES_ON = ["up-to-date: cached profile returned, cache untouched",
             "newer: response cached whole and returned, never older than the one held",
             "invariant-preserved"]


def history_lemmas(rep):
    """Induction step for sequential histories, over a transcription of the per-call contract (non-dry-run calls).
    State: (present, content).  A call either raises or returns r; it may have opened the file for writing (w) and then
    wrote cw.  wellformed / dt / code are the contract's uninterpreted observers of a byte string."""
    import time, z3
    from contracts import client as K
    c = K.CONTRACTS[K.C15_0]
    names = [e[0] for e in c.ensures]
    for n in RELIES_ON:
        if n not in names:
            rep.engine_error(f"C15 history lemma: the per-call contract no longer has the clause {n!r} it was transcribed from")
            return
    if not any(r[0] is Exception and "fs-open-for-write')) == 0" in r[1] for r in c.raises):
        rep.engine_error("C15 history lemma: the raises clause 'a failing call never opens the cache for writing' is gone")
        return
    V = z3.DeclareSort("Bytes")
    wf = z3.Function("wellformed", V, z3.BoolSort()); dt = z3.Function("dt", V, z3.IntSort()); code = z3.Function("code", V, z3.IntSort())
    p0, raised, w = z3.Bools("present0 raised opened_for_write")
    c0, r, cw, resp = z3.Consts("content0 returned written RESPONSE", V)
    contract = z3.And(
        z3.Implies(raised, z3.Not(w)),                                                            # raises clause
        z3.Implies(z3.And(z3.Not(raised), code(resp) == 1), z3.And(p0, r == c0, z3.Not(w))),         # up-to-date
        z3.Implies(z3.And(z3.Not(raised), code(resp) != 1),
                   z3.And(code(resp) == 0, r == resp, w, cw == resp, z3.Implies(p0, dt(c0) <= dt(resp)))),   # newer
        z3.Implies(z3.And(z3.Not(raised), code(resp) != 1), wf(resp)))                             # invariant-preserved
    p1 = z3.Or(p0, w)
    c1 = z3.If(w, cw, c0)
    inv0 = z3.Implies(p0, wf(c0))
    lemmas = [
        ("invariant-step: the cache stays absent or one whole profile", z3.Implies(p1, wf(c1))),
        ("monotone-step: a cache once present stays present and never goes back to an older profile", z3.Implies(p0, z3.And(p1, dt(c1) >= dt(c0)))),
        ("failing-call-changes-nothing", z3.Implies(raised, z3.And(p1 == p0, c1 == c0))),
        ("successful-call-returns-the-profile-then-held", z3.Implies(z3.Not(raised), z3.And(p1, r == c1, wf(r)))),
    ]
    for name, claim in lemmas:
        t0 = time.time()
        sol = z3.Solver(); sol.set("timeout", 20000)
        sol.add(inv0, contract, z3.Not(claim))
        res = sol.check()
        full = f"C15/lemma:history/{name}"
        if res == z3.unsat:
            rep.ok(full, "z3", time.time() - t0, "lemma", "lemma:request_profile-history")
        elif res == z3.sat:
            rep.fail(full, "z3", str(sol.model())[:400], time.time() - t0, "lemma", "lemma:request_profile-history")
            rep.violation(full, {"lemma": name, "counter_model": str(sol.model()), "note": "induction step over the per-call contract's clauses (no code involved): the contract no longer carries the history property"}, no_input=True)
        else:
            rep.downgraded.append({"function": "lemma:request_profile-history", "reason": ["solver undecided"], "downgraded": "proof->undecided (solver budget)"})
    # vacuity: the hypotheses are satisfiable with a returning and with a raising call
    for what, extra in (("returning", z3.Not(raised)), ("raising", raised)):
        sol = z3.Solver(); sol.add(inv0, contract, extra)
        if sol.check() != z3.sat:
            rep.engine_error(f"C15 history lemma: hypotheses unsatisfiable for a {what} call (vacuous)")
