"""Sidecar contracts for ofxget's settings precedence (property C18): merge_config / merge_from_ofxhome with every
option's presence and value symbolic in each source."""
import collections
import z3
from pyvc.contract import *
from pyvc.values import *
from pyvc import core as C
from pyvc import models as M
from ofxtools.scripts import ofxget as G
from ofxtools import ofxhome as OH
from contracts.akw import AKw
from contracts.client import Marker

OPTS = list(G.DEFAULTS.keys())


class AChain(Abstract):
    """collections.ChainMap over abstract / concrete mappings"""
    pytype = collections.ChainMap

    def __init__(self, maps):
        self.maps = list(maps)

    def lookup(self, it, key, default, missing_raises):
        key = it.concrete_key(key)
        res = default
        found = False
        for m in reversed(self.maps):
            if isinstance(m, AKw):
                p = m.present.get(key, False)
                if p is False:
                    continue
                res = m.values[key] if p is True else it.ite(zbool(p), m.values[key], res)
                found = found or p is True
            else:
                if key in m:
                    res = m[key]; found = True
        if not found and missing_raises:
            anyp = zor(*[zbool(m.present.get(key, False)) for m in self.maps if isinstance(m, AKw) and m.present.get(key, False) is not False])
            if anyp is False or not it.branch(zbool(anyp)):
                raise C.Raised(ExcVal(KeyError, (key,)))
        return res

    def p_getitem(self, it, key):
        return self.lookup(it, key, None, True)

    def p_setitem(self, it, key, value):
        key = it.concrete_key(key)
        m = self.maps[0]
        if isinstance(m, AKw):
            m.present[key] = True; m.values[key] = value
            if key not in m.keys:
                m.keys.append(key)
        else:
            m[key] = value

    def p_contains(self, it, item):
        key = it.concrete_key(item)
        return zor(*[(zbool(m.present.get(key, False)) if isinstance(m, AKw) else (key in m)) for m in self.maps])

    def p_getattr(self, it, name):
        if name == "maps":
            return self.maps
        if name == "get":
            return lambda k, default=None: self.lookup(it, k, default, False)
        raise C.Unsupported(f"ChainMap.{name}")


class SourcesArg(Arg):
    name = "src"

    def make(self, it):
        def akw(prefix, fixed=None):
            present, values = {}, {}
            for o in OPTS:
                present[o] = z3.Bool(f"{prefix}_{o}_set")
                values[o] = SVal(object, z3.Const(f"{prefix}_{o}", V), {"eq": "term"})
            for k, v in (fixed or {}).items():
                present[k] = True; values[k] = v
            return AKw(list(OPTS), present, values)
        cli = akw("cli", {"dryrun": True, "request": "stmt"})
        user = akw("user")
        home = Marker("lookup", url=SVal(object, z3.Const("home_url", V), {"eq": "term"}), org=SVal(object, z3.Const("home_org", V), {"eq": "term"}),
                      fid=SVal(object, z3.Const("home_fid", V), {"eq": "term"}), brokerid=SVal(object, z3.Const("home_brokerid", V), {"eq": "term"}))
        return {"cli": cli, "user": user, "home": home, "found": SBool(z3.Bool("ofxhome_lookup_finds_the_id"))}, []


def call_merge(it, fn, a):
    s = a[0]
    cli0, user0 = s["cli"].copy(), s["user"].copy()
    it.models[G.extractns] = lambda it_, ar, kw: cli0
    it.models[G.read_config] = lambda it_, ar, kw: user0
    it.models[collections.ChainMap] = lambda it_, ar, kw: AChain([it_.force(m_) if isinstance(m_, SIte) else m_ for m_ in ar])
    it.models[G.ChainMap] = it.models[collections.ChainMap]

    def m_lookup(it_, ar, kw):
        it_.st.ghost["calls"].append(("lookup", ar[0]))
        return s["home"] if it_.branch(s["found"].e) else None
    it.models[OH.lookup] = m_lookup
    return it.call(G.merge_config, [Marker("namespace"), Marker("configparser")], {})


CONTRACTS = [
    Contract("ofxtools.scripts.ofxget:merge_config", args=[SourcesArg()], call=call_merge,
             ensures=[(f"effective-{o}", f"result[{o!r}] == spec.ofxget.effective({o!r}, src['cli'], src['user'], src['home'], src['found'], spec.ofxget.DEFAULTS())") for o in OPTS],
             notes="every option's presence and value symbolic on the command line and in the user/FI-database section; OFX Home lookup finds the id or not; the run is a dry run (so a missing URL is not fatal)",
             props=["C18"], symbolic_only=True, max_paths=2000),
]
