"""Bounded companion of the C14 contracts on the real urllib stack (engine R): a fake transport under
urllib's handlers records every request (URL, method, headers, body, Cookie) for enumerated request
sequences on one or two client instances.  It confirms the T-EXT reduction (cookie replay is http.cookiejar)."""
import email, io, itertools, urllib.request, urllib.response, datetime
from pyvc.contract import *
from ofxtools.Client import OFXClient, AUTH_PLACEHOLDER
from ofxtools.utils import UTC

DT = datetime.datetime(2020, 1, 1, tzinfo=UTC)


class FakeNet:
    def __init__(self, set_cookie):
        self.log = []
        self.set_cookie = set_cookie
        self.n = 0
        self.moved = set()       # hosts whose profile advertises the moved service path from now on
        self.elsewhere = set()   # hosts whose profile advertises a service URL on ANOTHER host from now on

    def open(self, handler, req):
        self.n += 1
        self.log.append({"url": req.full_url, "method": req.get_method(), "headers": {k.lower(): v for k, v in req.header_items()},
                         "body": req.data, "cookie": req.get_header("Cookie")})
        hdr = "Content-Type: application/x-ofx\n"
        if self.set_cookie:
            hdr += f"Set-Cookie: sid=c{self.n}-{req.host}; Path=/\n"
        msg = email.message_from_string(hdr + "\n")
        body = b"OK"
        if req.data and b"<PROFRQ>" in req.data:
            # a profile request: answer with a profile that advertises this very URL for every service
            from contracts.client_history import profile_bytes, T0
            # (after "moved": the same profile date as before, but another service path on the same host)
            adv = req.full_url if req.host not in self.moved else req.full_url.rstrip("/") + "/v2"
            if req.full_url.endswith("/v2"):
                adv = req.full_url
            if req.host in self.elsewhere:
                adv = "https://svc-" + req.host.split("-", 1)[1] + "/cgi-bin/OFX/Server.dll"      # as advertised: upper case in the path
            body = profile_bytes(T0, url=adv)
        r = urllib.response.addinfourl(io.BytesIO(body), msg, req.full_url, 200)
        r.msg = "OK"
        return r


UA = {"A": "agent-A", "B": ""}


def run_scenario(persist, set_cookie, seq):
    """seq: list of (client 'A'|'B', kind 'post'|'dry'|'accounts')"""
    net = FakeNet(set_cookie)
    oh, os_ = urllib.request.HTTPHandler.http_open, urllib.request.HTTPSHandler.https_open
    urllib.request.HTTPHandler.http_open = lambda self, req: net.open(self, req)
    urllib.request.HTTPSHandler.https_open = lambda self, req: net.open(self, req)
    import tempfile, shutil
    from pathlib import Path
    from ofxtools import config
    tmp = tempfile.mkdtemp(prefix="verif-c14-")
    olddir = config.DATADIR
    config.DATADIR = Path(tmp) / "ofxtools"
    try:
        # client B is configured with a blank user agent: then that is what goes out (not a library default of some layer below)
        clients = {c: OFXClient(f"https://bank-{c.lower()}.example/ofx", userid=f"user{c}", org=f"ORG{c}", fid="1", persist_cookies=persist, useragent=UA[c]) for c in "AB"}
        results = []
        for c, kind in seq:
            cl = clients[c]
            before = len(net.log)
            if kind in ("full", "moved", "elsewhere"):
                # with the profile look-up: a profile request, then the request itself (same host: the profile says so)
                if kind == "moved":
                    net.moved.add(f"bank-{c.lower()}.example")
                    net.elsewhere.discard(f"bank-{c.lower()}.example")
                if kind == "elsewhere":
                    net.elsewhere.add(f"bank-{c.lower()}.example")
                r = cl.request_accounts(f"secret{c}", DT)
            else:
                r = cl.request_accounts(f"secret{c}", DT, dryrun=(kind == "dry"), skip_profile=True)
            results.append((c, kind, len(net.log) - before, r.read()))
        return net.log, results, {c: clients[c].url for c in clients}
    finally:
        urllib.request.HTTPHandler.http_open, urllib.request.HTTPSHandler.https_open = oh, os_
        config.DATADIR = olddir
        shutil.rmtree(tmp, ignore_errors=True)


def check_scenario(it, fn, a):
    persist, set_cookie, seq = a
    log, results, urls = run_scenario(persist, set_cookie, seq)
    problems = []
    li = 0
    import urllib.parse
    seen_cookie = {}             # (client, host) -> the newest cookie that host has set for that client
    host_of = lambda u: urllib.parse.urlsplit(u).hostname
    adv = dict(urls)             # client -> the service URL its institution's profile advertises at this point
    for c, kind, nreq, body in results:
        if kind == "moved":
            adv[c] = urls[c] + "/v2"
        if kind == "elsewhere":
            adv[c] = f"https://svc-{c.lower()}.example/cgi-bin/OFX/Server.dll"
        if kind == "dry":
            if nreq != 0:
                problems.append(f"dry run of {c} sent {nreq} requests")
            if not body.startswith((b"OFXHEADER", b"<?xml")):
                problems.append("dry run did not return the request")
            continue
        if kind in ("full", "moved", "elsewhere"):
            # one profile request (cached afterwards: the scripted server sends the same date, so later calls ask again
            # and are told the same) + the request itself; every one of them replays the newest cookie of this client
            if nreq != 2:
                problems.append(f"{c}: {nreq} requests for a call with profile look-up (expected 2)")
            for k_ in range(nreq):
                r = log[li]; li += 1
                if k_ == 0 and r["url"] != urls[c]:
                    problems.append(f"{c}: the profile request went to {r['url']}, configured {urls[c]}")
                if k_ == 1:
                    # the request itself goes where the profile just received says - and only there
                    want_url = adv[c]
                    if r["url"] != want_url:
                        problems.append(f"{c}: the request went to {r['url']}, the institution's profile advertises {want_url}")
                h = host_of(r["url"])
                expect = seen_cookie.get((c, h)) if (persist and set_cookie) else None
                if (r["cookie"] or None) != expect:
                    problems.append(f"{c}: Cookie {r['cookie']!r} sent to {h}, expected {expect!r}: the newest cookie that host set on this client (request {li} of the sequence)")
                if (r["headers"].get("user-agent") or "") != UA[c]:
                    problems.append(f"{c}: user agent {r['headers'].get('user-agent')!r}, configured {UA[c]!r}")
                if r["method"] != "POST":
                    problems.append(f"{c}: {r['method']} {r['url']}")
                if set_cookie:
                    seen_cookie[(c, h)] = f"sid=c{li}-{h}"
            continue
        if nreq != 1:
            problems.append(f"{c} sent {nreq} requests for one call")
            li += nreq
            continue
        r = log[li]; li += 1
        if r["method"] != "POST" or r["url"] != urls[c]:
            problems.append(f"{c}: {r['method']} {r['url']}")
        if r["headers"].get("content-type") != "application/x-ofx" or "application/x-ofx" not in r["headers"].get("accept", "") or (r["headers"].get("user-agent") or "") != UA[c]:
            problems.append(f"{c}: headers {r['headers']} (configured user agent {UA[c]!r})")
        if not r["body"] or f"secret{c}".encode() not in r["body"]:
            problems.append(f"{c}: body is not the serialized request")
        other = "B" if c == "A" else "A"
        if r["cookie"] and f"-{other.lower()}.example" in r["cookie"]:
            problems.append(f"{c} replayed a cookie of {other}: {r['cookie']}")
        h = host_of(r["url"])
        expect = seen_cookie.get((c, h)) if (persist and set_cookie) else None
        if (r["cookie"] or None) != expect:
            problems.append(f"{c}: Cookie {r['cookie']!r}, expected {expect!r}")
        if set_cookie:
            seen_cookie[(c, h)] = f"sid=c{li}-{h}"
    return problems


def cases(tier):
    n = 4 if tier == "thorough" else 3
    out = []
    steps = [(c, k) for c in "AB" for k in ("post", "dry", "full")] + [("A", "moved"), ("A", "elsewhere")]
    for persist in (True, False):
        for sc in (True, False):
            for ln in range(1, n + 1):
                for seq in itertools.product(steps, repeat=ln):
                    out.append([persist, sc, list(seq)])
    return out


class A_(Arg):
    def __init__(self, name):
        self.name = name


CONTRACTS = [
    Contract("ofxtools.Client:OFXClient.post_request", args=[A_("persist"), A_("set_cookie"), A_("seq")], call=check_scenario,
             ensures=[("scenario-clean", "result == []")], cases=cases, native_only=True, shards=16,
             notes="all request sequences of length <= 3 (4 in thorough) over two client instances x {post, dry run, post with profile look-up, profile advertising a moved path, profile advertising another host} x persist_cookies x cookie-setting server, on the real urllib opener with a fake transport and a scratch data directory",
             props=["C14"]),
]
