"""Single source for MANIFEST.json: `python3 -m props.registry` rewrites it."""
import json, os

VERIF = os.path.dirname(os.path.dirname(os.path.abspath(__file__)))
PENDING = "check not built yet in this session (planned, see DESIGN.md section 9); not a statement that the technique cannot apply"

CLAIMED = {
    "C20": dict(
        category="proof",
        text="Every obligation generated from the current source of the seven check-digit functions in ofxtools/utils.py is discharged by SMT for all inputs of the stated alphabets: computed check digit == published algorithm (spec functions written from the algorithm), validate_* iff, converters produce validating ISINs embedding the original, wrong length / unknown prefix / changed check character never validate. Loop-free after unrolling over the fixed identifier lengths, all characters symbolic, so the proof is complete for these domains, not bounded.",
        design_ref="DESIGN.md 9 (C20)",
        note="Trusted: pyvc engine and its model library (int(str,36), str(int), join, enumerate, slicing, dict.get; cross-checked against CPython on sampled inputs each run), z3/cvc5, finite-domain tabulation rewrite (domain membership re-proved per obligation). Domains: CUSIP over [0-9A-Z*@#], SEDOL over [0-9A-Z] minus AEIO (vowels proved refused), ISIN over [0-9A-Z] with the 84 two-letter agency prefixes; isin_checksum is proved by a 512-way case split on the digit/letter pattern. Callers use callee contracts at call sites. Characters outside printable ASCII are outside the int() model and not claimed.",
        technique="contracts on the real functions; VCs generated from the AST by symbolic execution (pyvc), discharged by z3 with finite-domain tabulation; counter-models replayed on the real code",
        engine="pyvc"),
    "C09": dict(
        category="proof",
        text="Readers: for every OFX date-time/time notation shape (date, date+time, +.XXX, offset absent or [H|HH|sH|sHH][.MM][:name]) with all digits symbolic and calendar-valid, DateTime/Time.convert returns the aware UTC value whose instant equals the integer-arithmetic reference; texts of wrong length, with a field out of range, a calendar-invalid day or any non-digit code point are refused. Writers: for every aware value (every microsecond, every whole-minute offset -12:00..+14:00, any zone name) the written text is lexically valid and denotes the instant rounded half-up to the millisecond; naive and wrongly typed values are refused. Write-then-read within half a millisecond follows from writer + reader contracts + written-form lemmas (quick) and is additionally proved through the real reader as a composite (thorough). All obligations discharged by SMT for the stated unbounded domains.",
        design_ref="DESIGN.md 9 (C09)",
        note="Trusted: pyvc engine, datetime/timedelta model (exact integer microsecond arithmetic; date ordinal uninterpreted and shared with the spec, cross-checked natively), symbolic regex matcher on the real DT_REGEX/TIME_REGEX, int()/str()/f-string models, z3/cvc5. Zone names in reader proofs: absent, empty or 2 arbitrary characters; longer names only in the bounded native evaluation. Years 2..9998 (readers) / 1000..9998 (writers, strftime %Y). Second 60 not demanded either way.",
        technique="contracts on the real converters; VCs from the AST by symbolic execution with a symbolic regex matcher and an integer datetime model; z3; counter-models replayed natively",
        engine="pyvc"),
    "C10": dict(
        category="proof",
        text="One contract per element type and dispatch arm with the instance parameters (length, required, enumeration tokens) symbolic, so every parameterisation is covered by one proof: inverse and canonical-text round trips, None exactly when optional, limits enforced on read and write with the boundary values accepted, wrong Python types refused, warn-only strings kept whole with exactly one warning. Date-time/time clauses come from the C09 contracts. The numeric laws of decimals (value and exponent preserved, rounding to scale) are evaluated natively on a sampled grid and labelled bounded; their structure (which library operation on which text under which condition) is proved.",
        design_ref="DESIGN.md 9 (C10)",
        note="Trusted: as C09 plus uninterpreted models of saxutils.unescape (identity without '&', never longer), int() on opaque text, decimal.Decimal/quantize/same_quantum/str. String write-then-read proved for values without '&' (values with a bare '&': bounded only). Known findings (carved out by predicate, replayed every run): values holding an entity, lenient int()/Decimal() literals, Integer accepts bool, Decimal exponent notation on write. Bounded parts are never counted in obligations/discharged.",
        technique="contracts with symbolic instance parameters on the real singledispatch converters; pyvc VCs + z3; native contract evaluation as the bounded stand-in for decimal arithmetic",
        engine="pyvc"),
    "C11": dict(
        category="proof",
        text="Type level: every unconvert arm is proved to return text in its type's lexical language (Y/N; optional sign and digits; one of the declared tokens; at most `length` characters; [YYYYMMDD]HHMMSS.XXX[(+|-)H[H][.MM][:name]] as decided by an independent scanner) or to refuse the value; decimals: structure proved, plain-notation claim evaluated natively on a sampled grid (bounded) with the exponent/NaN cases as a known finding.",
        design_ref="DESIGN.md 9 (C11)",
        note="Covers the converters only so far: that Aggregate.to_etree writes nothing but converter.unconvert(value) into element text, and the escaping of the wire forms, are not yet under contract in this check (see DESIGN.md status table); known findings KF-C11-decimal-exponent and KF-C11-int-bool are replayed each run.",
        technique="output-language postconditions on the real unconvert functions; pyvc VCs + z3",
        engine="pyvc"),
}


def build():
    ids = [json.loads(l)["id"] for l in open(os.path.join(VERIF, "properties.jsonl"))]
    reasons = {}
    try:
        from props import not_applicable
        reasons = not_applicable.REASONS
    except Exception:
        pass
    checks = []
    for i in ids:
        if i not in CLAIMED:
            continue
        c = CLAIMED[i]
        checks.append({
            "property_id": i,
            "quick_cmd": f"./check {i} --tier quick",
            "thorough_cmd": f"./check {i} --tier thorough",
            "evidence_file": f"/verif/evidence/{i}.json",
            "replay_cmd_template": f"./check {i} --replay {{path}}",
            "engine": c.get("engine", "pyvc"),
            "level_claimed": {"category": c["category"], "text": c["text"], "design_ref": c.get("design_ref", "DESIGN.md 9")},
            "level_note": c["note"],
            "technique": c["technique"],
        })
    m = {
        "version": 1,
        "setup_cmd": "./setup.sh",
        "hooks": {
            "guard": "OFXTOOLS_VERIF",
            "enable": "no hooks are needed: contracts are sidecar files under /verif/contracts keyed by module and qualified name; checks read /repo's working tree as it is (guard name reserved, unused)",
            "baseline_off_cmd": "cd /repo && /venv/bin/python -m pytest -ra -q -p no:cacheprovider --timeout=900 --continue-on-collection-errors",
            "source_commits": [],
            "add_only": True,
        },
        "engines": [
            {"name": "pyvc", "path": "/verif/pyvc", "serves_properties": sorted(k for k, v in CLAIMED.items() if v.get("engine", "pyvc").startswith("pyvc")),
             "kind_free_text": "VC generator: mixed concrete/symbolic interpreter over the real AST of /repo functions (re-read every run), sidecar contracts, z3 + cvc5 discharge, native replay of counter-models"},
        ],
        "checks": checks,
        "notes": "Technique family: contract-based deductive verification of the real code. Exit 0 held / 1 violation (VIOLATION line) / 3 machinery failure. Bounded stand-ins are labelled bounded in the evidence and never counted in obligations/discharged. See DESIGN.md.",
        "not_applicable": [{"property_id": i, "reason": reasons.get(i, PENDING)} for i in ids if i not in CLAIMED],
    }
    json.dump(m, open(os.path.join(VERIF, "MANIFEST.json"), "w"), indent=1)
    return m


if __name__ == "__main__":
    m = build()
    import jsonschema
    jsonschema.validate(m, json.load(open("/root/.vp/MANIFEST.schema.json")))
    print("MANIFEST.json written:", len(m["checks"]), "checks,", len(m["not_applicable"]), "not applicable/pending")
