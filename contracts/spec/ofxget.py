"""What ofxget's statement commands must ask for (property C19), written from the statement: one request per
configured account, with that account's type, the given dates and include flags."""
from ofxtools.Client import StmtRq, CcStmtRq, InvStmtRq, StmtEndRq, CcStmtEndRq

BANK_TYPES = ("checking", "savings", "moneymrkt", "creditline")


def expected_stmt_requests(args, start, end, asof):
    out = []
    for t in BANK_TYPES:
        for acct in args[t]:
            out.append(StmtRq(acctid=acct, accttype=t.upper(), dtstart=start, dtend=end, inctran=args["inctran"]))
    for acct in args["creditcard"]:
        out.append(CcStmtRq(acctid=acct, dtstart=start, dtend=end, inctran=args["inctran"]))
    for acct in args["investment"]:
        out.append(InvStmtRq(acctid=acct, dtstart=start, dtend=end, dtasof=asof, inctran=args["inctran"], incoo=args["incoo"],
                             incpos=args["incpos"], incbal=args["incbal"]))
    return out


def expected_stmtend_requests(args, start, end):
    out = []
    for t in BANK_TYPES:
        for acct in args[t]:
            out.append(StmtEndRq(acctid=acct, accttype=t.upper(), dtstart=start, dtend=end))
    for acct in args["creditcard"]:
        out.append(CcStmtEndRq(acctid=acct, dtstart=start, dtend=end))
    return out


def same_requests(a, b):
    if len(a) != len(b):
        return False
    r = True
    for i in range(len(a)):
        r = r and type(a[i]) is type(b[i]) and a[i] == b[i]
    return r
