"""Bounded companions (engine R) of the L1 aggregate proofs, on real classes and real element trees: they give the
failing *input* when an L1 obligation over abstract arguments fails, and cross-check the spec functions natively.

 0  C07  inserting unknown / vendor-prefixed children anywhere never changes or breaks the conversion
 1  C04/C03  Aggregate._convert on an arbitrary child sequence agrees with the reference fold (order / duplicate refusal,
            values routed to their own attribute / list position)
"""
import copy, random, warnings
import xml.etree.ElementTree as ET
from pyvc.contract import *
import ofxtools.models as models
from ofxtools.models.base import Aggregate

_state = {}


def _env(seed=0):
    if "b" not in _state:
        from xengine import aggx
        e = aggx.env()
        _state["e"] = e
        _state["b"] = aggx.Builder(e, seed)
        cl = []
        for n in dir(models):
            o = getattr(models, n)
            if isinstance(o, type) and issubclass(o, Aggregate) and n.isupper() and o.__name__ == n:
                cl.append(o)
        _state["classes"] = sorted(cl, key=lambda c: c.__name__)
    return _state


def canon(x):
    return ET.tostring(x.to_etree())


def rich_tree(C, rng):
    """element tree of a valid instance of C with a few optional children and list members"""
    st = _env()
    b, e = st["b"], st["e"]
    from xengine import aggx
    names = [n for n, t in C.spec.items() if aggx.kind(e, t) in ("element", "subaggregate")]
    lists = [n for n, t in C.spec.items() if aggx.is_list(aggx.kind(e, t))]
    for _ in range(6):
        extra = rng.sample(names, min(len(names), rng.randint(0, 3)))
        mem = tuple(rng.choice(lists) for _ in range(rng.randint(0, 3))) if lists else ()
        try:
            return b.witness(C, extra, mem).to_etree()
        except Exception:
            continue
    return b.witness(C).to_etree()


# unknown to every aggregate - including names that happen to be attributes of the model classes or of list
UNKNOWN = ["FOO", "INTU.BID", "INTU.AGG", "XYZZY", "A.B", "COUNT", "INDEX", "APPEND", "SORT", "SPEC", "GROOM", "ELEMENTS", "COPY", "TO_ETREE", "STATEMENTS", "TRANSACTIONS",
           # tags no model class is named after (an unknown aggregate must be skipped, not looked up) and tags outside
           # the parser's tag alphabet (hyphen, lower case): vendors use them, the library has always let them pass
           "FIEXTRAS", "SESSIONFLAGS", "X-FI-REF", "intu.bid", "Vendor_Ext",
           # OFX tags may start with a digit, '.' or '_' and may be long
           "401K.SOURCEINFO", "_EXT", "3RDPARTY", ".HIDDEN", "INTU.ACCOUNTAGGREGATIONPROVIDERNAME", "X" * 64,
           # words that mean something to Python (keywords, soft keywords, constants) and the two tags the library renames
           # where they are declared (FROM in MAIL, YIELD in MFINFO/STOCKINFO) - unknown everywhere else
           "CLASS", "GLOBAL", "IMPORT", "RETURN", "IN", "IS", "OR", "NOT", "IF", "WITH", "PASS", "AS", "FOR", "DEF", "LAMBDA", "NONE", "TRUE",
           "MATCH", "TYPE", "FROM", "YIELD"]
RENAMED_WHERE_DECLARED = {"FROM": ("MAIL",), "YIELD": ("MFINFO", "STOCKINFO")}


def unknown_child(rng, C):
    u = ET.Element(rng.choice(UNKNOWN))
    if C.__name__ in RENAMED_WHERE_DECLARED.get(u.tag, ()):
        u.tag = "FOO"
    r0 = rng.random()
    if r0 < 0.08 and len(C.spec):
        # a known child's name with a blank after it is not that child's tag (the tokenizer's tag pattern admits blanks)
        u.tag = rng.choice(list(C.spec)).upper() + " "
        u.text = "2000"
        return u
    if r0 < 0.22 and r0 >= 0.16:
        # an unknown aggregate that holds a complete <OFX> ... </OFX> block of its own (a quoted original message)
        u = ET.Element("ORIGINALMSG")
        inner = ET.SubElement(u, "OFX")
        ET.SubElement(ET.SubElement(inner, "SIGNONMSGSRSV1"), "X").text = "1"
        return u
    if r0 < 0.16:
        # a vendor aggregate that wraps a copy of the enclosing aggregate's own tag, with something else in between
        u = ET.Element("INTU.ORIG")
        inner = ET.SubElement(ET.SubElement(u, "WRAP"), C.__name__)
        ET.SubElement(inner, "CODE").text = "1"
        ET.SubElement(u, "AFTER").text = "x"
        return u
    r = rng.random()
    if any(ch not in "ABCDEFGHIJKLMNOPQRSTUVWXYZ0123456789._" for ch in u.tag):
        # not an OFX tag at all (outside A-Z 0-9 . _): as a data element it has always been let through; as an
        # aggregate it is outside the wire syntax the properties speak about (C02), so it is only used as a leaf
        u.text = "z"
    elif r < 0.4:
        u.text = "z"
    elif r < 0.8:
        # an unknown aggregate with arbitrary, even otherwise-known, content
        known = [n.upper() for n in C.spec][:3] + ["BAR"]
        ET.SubElement(u, rng.choice(known)).text = "q"
    return u


def gen_insertions(rng):
    st = _env()
    for _ in range(50):
        C = rng.choice(st["classes"])
        try:
            tree = rich_tree(C, rng)
        except Exception:
            continue
        if len(tree) == 0:
            continue
        with_ins = copy.deepcopy(tree)
        for _ in range(rng.randint(1, 3)):
            with_ins.insert(rng.randint(0, len(with_ins)), unknown_child(rng, C))
        return [enc_tree(tree), enc_tree(with_ins)]
    raise RuntimeError("no tree")


def enc_tree(e):
    """the harness ships trees as XML text; OFX tags that are not XML names (leading digit or '.', blanks ...) travel as hex"""
    import re as _re
    t = copy.deepcopy(e)
    for n in t.iter():
        if not _re.fullmatch(r"[A-Za-z_][A-Za-z0-9._-]*", n.tag) or n.tag.startswith("XH__"):
            n.tag = "XH__" + n.tag.encode("utf_8").hex()
    return ET.tostring(t).decode()


def dec_tree(text):
    t = ET.fromstring(text)
    for n in t.iter():
        if n.tag.startswith("XH__"):
            n.tag = bytes.fromhex(n.tag[4:]).decode("utf_8")
    return t


def conv(tree):
    with warnings.catch_warnings():
        warnings.simplefilter("ignore")
        return Aggregate.from_etree(tree)


def sgml_of(e):
    """an SGML rendering: data elements without end tags, aggregates (also empty ones) with"""
    if len(e) == 0 and e.text:
        from xml.sax.saxutils import escape
        return f"<{e.tag}>{escape(e.text)}\n"
    return f"<{e.tag}>\n" + "".join(sgml_of(c) for c in e) + f"</{e.tag}>\n"


def through_the_parser(text):
    from ofxtools.Parser import TreeBuilder
    b = TreeBuilder()
    b.feed(text)
    return b.close()


def call_insertions(it, fn, a):
    base = conv(dec_tree(a[0]))
    problems = []
    routes = [("element tree", lambda: dec_tree(a[1])),
              # (the library's own XML form: empty elements as <TAG></TAG>; the self-closing spelling <TAG/> is not OFX)
              ("XML rendering through the parser", lambda: through_the_parser(ET.tostring(dec_tree(a[1]), encoding="unicode", method="html"))),
              ("SGML rendering through the parser", lambda: through_the_parser(sgml_of(dec_tree(a[1]))))]
    last = None
    for name, mk in routes:
        try:
            ins = conv(mk())
        except Exception as ex:
            return ("rejected", f"{name}: {ex!r}")
        last = canon(ins)
        if canon(base) != last:
            return ("different", f"{name}: {last!r}")
    return ("same", last)


def gen_sequence(rng):
    st = _env()
    if rng.random() < 0.2:
        # a class with an exactly-one group, given none of the group's members but one as an EMPTY data element
        from props.aggclasses import declared_mutexes
        from xengine import aggx
        cands = [c for c in st["classes"] if declared_mutexes(c)[1]]
        for _ in range(20):
            C = rng.choice(cands)
            g = rng.choice(declared_mutexes(C)[1])
            elems = [m_ for m_ in g if m_ in C.spec and aggx.kind(st["e"], C.spec[m_]) == "element"]
            if not elems:
                continue
            try:
                tree = rich_tree(C, rng)
            except Exception:
                continue
            kids = [k_ for k_ in tree if k_.tag.lower() not in g]
            victim = ET.Element(rng.choice(elems).upper()); victim.set("emptytext", "1")
            order = {n: i for i, n in enumerate(C.spec)}
            kids.append(victim)
            kids.sort(key=lambda x: order.get(x.tag.lower(), 99))
            root = ET.Element(C.__name__)
            root.extend(copy.deepcopy(k_) for k_ in kids)
            return [ET.tostring(root).decode()]
    for _ in range(50):
        C = rng.choice(st["classes"])
        try:
            tree = rich_tree(C, rng)
        except Exception:
            continue
        kids = list(tree)
        if not kids:
            continue
        k = rng.randint(1, min(6, len(kids) + 2))
        seq = [copy.deepcopy(rng.choice(kids)) for _ in range(k)]
        if rng.random() < 0.5:
            order = {n: i for i, n in enumerate(C.spec)}
            seq.sort(key=lambda x: order.get(x.tag.lower(), 99))
        if rng.random() < 0.4:
            seq.insert(rng.randint(0, len(seq)), unknown_child(rng, C))
        if rng.random() < 0.3:
            # a hand-built tree may hold a leaf whose text is the empty string (not None): marked with an attribute,
            # because serializing and re-parsing would turn it into None
            leaves = [x for x in seq if len(x) == 0]
            if leaves:
                victim = rng.choice(leaves)
                victim.text = None
                victim.set("emptytext", "1")
        root = ET.Element(C.__name__)
        root.extend(seq)
        return [enc_tree(root)]
    raise RuntimeError("no tree")


def call_sequence(it, fn, a):
    from contracts.spec import aggregate as SA
    root = dec_tree(a[0])
    for ch in root.iter():
        if ch.attrib.pop("emptytext", None):
            ch.text = ""
    C = getattr(models, root.tag)
    groomed = C.groom(copy.deepcopy(root))
    ref = SA.fold(C, list(groomed)) if len(root) else ("ok", [], {})
    try:
        with warnings.catch_warnings():
            warnings.simplefilter("ignore")
            inst = C._convert(root)
        real = ("ok", inst)
    except Exception as ex:
        real = ("error", type(ex).__name__)
    if ref[0] == "error":
        return ("agree" if real[0] == "error" else "order-or-duplicate-violation-accepted", ET.tostring(root))
    if real[0] == "error":
        # the reference accepts the sequence; the constructor may still refuse (required child missing, mutex, converter)
        return ("agree", "constructor refused")
    inst = real[1]
    bad = SA.instance_violations(inst)
    if bad:
        return ("instance-violates-its-class", "; ".join(bad) + " in " + ET.tostring(root).decode()[:300])
    kw = {k for k, v in ref[2].items() if v is not None}
    got = {n for n in inst.spec_no_listaggregates if not isinstance(inst.spec[n], models.base.Types.Unsupported) and getattr(inst, n) is not None}
    if got != kw or len(inst) != len([v for v in ref[1] if v is not None]) + len([v for v in ref[1] if v is None]):
        return ("children-differ", f"{sorted(got)} vs {sorted(kw)}; members {len(inst)} vs {len(ref[1])}")
    return ("agree", "")


class TreeArg(Arg):
    def __init__(self, name):
        self.name = name

    def samples(self, rng, n):
        return [None]


CONTRACTS = [
    Contract("ofxtools.models.base:Aggregate.from_etree", args=[TreeArg("tree"), TreeArg("with_insertions")],
             call=call_insertions, gen=gen_insertions,
             ensures=[("C07-never-rejected-never-changed", "result[0] == 'same'")],
             native_only=True, samples=400,
             notes="random valid trees of random classes (C13 witness constructor) with 1-3 unknown / vendor-prefixed data elements, empty elements or aggregates inserted at random positions; converted from the element tree and from its XML and SGML renderings through the parser",
             props=["C07"]),
    Contract("ofxtools.models.base:Aggregate._convert", args=[TreeArg("root")],
             call=call_sequence, gen=gen_sequence,
             ensures=[("agrees-with-reference-fold", "result[0] == 'agree'")],
             native_only=True, samples=600,
             notes="random child sequences (duplicates, wrong order, unknown tags) of random classes against the reference fold",
             props=["C04", "C03", "C07"]),
]


# ------------------------------------------------------------------ keyword route: an explicit None is an absent child
def gen_kwroute(rng):
    """[class name, seed, variant]"""
    st = _env()
    return [rng.choice(st["classes"]).__name__, rng.randrange(10 ** 6), rng.choice(["none-for-absent", "none-for-absent", "two-of-a-group", "none-of-a-required-group", "numeric-types"])]


def _kw_outcome(C, members, kw):
    try:
        with warnings.catch_warnings():
            warnings.simplefilter("ignore")
            x = C(*members, **kw)
        return ("ok", canon(x))
    except Exception as ex:
        return ("error", type(ex).__name__)


def call_kwroute(it, fn, a):
    from props.aggclasses import declared_mutexes
    from contracts.spec import aggregate as SA
    import decimal
    cname, seed, variant = a
    st = _env()
    C = getattr(models, cname)
    rng = random.Random(seed)
    try:
        inst = Aggregate.from_etree(rich_tree(C, rng))
    except Exception:
        return ("agree", "no instance")
    Types = models.base.Types
    names = [n for n in C.spec_no_listaggregates if not isinstance(C.spec[n], Types.Unsupported)]
    kw = {n: getattr(inst, n) for n in names if getattr(inst, n) is not None}
    members = list(inst)
    base = _kw_outcome(C, members, kw)
    if base[0] != "ok":
        return ("agree", "witness not constructible by keywords")
    opt, req = declared_mutexes(C)
    if variant == "none-for-absent":
        absent = [n for n in names if n not in kw]
        chosen = [n for n in absent if rng.random() < 0.6]
        # always the absent members of the groups: that is where a count of keywords instead of values would show
        chosen += [m for g in list(opt) + list(req) for m in g if m in absent]
        kw2 = dict(kw); kw2.update({n: None for n in chosen})
        got = _kw_outcome(C, members, kw2)
        # (a refusal here - some custom validators test "name in kwargs" - is over-strict, not a constraint violated: not C04's business)
        if got[0] == "ok" and got != base:
            return ("explicit-None-is-not-absence", f"{cname}(**{sorted(kw)}) gives {base[0]}; with {sorted(set(chosen))}=None: {got}")
        return ("agree", "")
    if variant == "none-of-a-required-group" and req:
        g = rng.choice(req)
        kw2 = {k: v for k, v in kw.items() if k not in g}
        kw2.update({m: None for m in g if rng.random() < 0.7})
        got = _kw_outcome(C, members, kw2)
        if got[0] == "ok":
            return ("required-group-not-enforced", f"{cname} built with none of {g} (explicit None for {[m for m in g if m in kw2]})")
        return ("agree", "")
    if variant == "two-of-a-group" and (opt or req):
        g = rng.choice(list(opt) + list(req))
        have = [m for m in g if m in kw]
        others = [m for m in g if m not in kw and m in names]
        if not others:
            return ("agree", "")
        # a second member of the group, with a value taken from another witness of the class
        for _ in range(10):
            try:
                inst2 = Aggregate.from_etree(rich_tree(C, rng))
            except Exception:
                continue
            cand = [m for m in others if getattr(inst2, m) is not None]
            if cand and have:
                kw2 = dict(kw); kw2[cand[0]] = getattr(inst2, cand[0])
                got = _kw_outcome(C, members, kw2)
                if got[0] == "ok":
                    return ("group-not-enforced", f"{cname} built with {have[0]} and {cand[0]} of the group {g}")
                return ("agree", "")
        return ("agree", "")
    if variant == "numeric-types":
        # whole numbers given as Decimal / float to Integer children: the digit limit holds for them as for ints
        ints = [n for n in names if isinstance(C.spec[n], Types.Integer) and getattr(C.spec[n], "length", None)]
        if not ints:
            return ("agree", "")
        n = rng.choice(ints)
        big = 10 ** C.spec[n].length
        for v in (decimal.Decimal(big), float(big), decimal.Decimal(-big)):
            kw2 = dict(kw); kw2[n] = v
            got = _kw_outcome(C, members, kw2)
            if got[0] == "ok":
                return ("digit-limit-not-enforced", f"{cname}({n}={v!r}) built although {n} is declared with {C.spec[n].length} digits")
        return ("agree", "")
    return ("agree", "")


class PlainArg(Arg):
    def __init__(self, name):
        self.name = name

    def samples(self, rng, n):
        return [None]


CONTRACTS.append(
    Contract("ofxtools.models.base:Aggregate.__init__", args=[PlainArg("cls"), PlainArg("seed"), PlainArg("variant")],
             call=call_kwroute, gen=gen_kwroute,
             ensures=[("keyword-route-enforces-the-declared-constraints", "result[0] == 'agree'")],
             native_only=True, samples=500,
             notes="keyword route on random classes: explicit None for absent children (group members always) changes nothing; none of a required group / two of a group are refused; whole numbers beyond the digit limit given as Decimal or float are refused",
             props=["C04"]))


# ------------------------------------------------------------------ C16 companion: flat attribute access on real instances
def _descendants(x, path=()):
    """(path, holder, attr) for every non-list attribute of every non-repeated descendant"""
    out = []
    for a in x.spec_no_listaggregates:
        if isinstance(x.spec[a], models.base.Types.Unsupported):
            continue
        try:
            v = x.__dict__.get(a)
        except Exception:
            v = None
        out.append((path + (a,), x, a))
        if isinstance(v, Aggregate):
            out += _descendants(v, path + (a,))
    return out


def gen_instance(rng):
    st = _env()
    for _ in range(50):
        C = rng.choice(st["classes"])
        try:
            tree = rich_tree(C, rng)
        except Exception:
            continue
        if len(tree):
            return [ET.tostring(tree).decode(), rng.randint(0, 10 ** 6)]
    raise RuntimeError("no instance")


def call_flat_access(it, fn, a):
    import copy as _copy, pickle
    rng = random.Random(a[1])
    x = conv(ET.fromstring(a[0]))
    desc = _descendants(x)
    names = {}
    for path, holder, attr in desc:
        names.setdefault(attr, []).append((path, holder))
    problems = []
    top = set(x.spec)
    for attr, occ in names.items():
        if attr in top or len(occ) != 1 or hasattr(type(x), attr):
            continue
        path, holder = occ[0]
        stored = holder.__dict__.get(attr)
        if stored is None:
            # defined below, just not set: the flat read says None like the full path does - it is not an undefined name
            try:
                if getattr(x, attr) is not None or not hasattr(x, attr):
                    problems.append(f"{attr}: unset at {'.'.join(path)}, flat read gives {getattr(x, attr, 'AttributeError')!r}")
            except AttributeError:
                problems.append(f"{attr}: defined (unset) at {'.'.join(path)}, but the flat read raises AttributeError")
            continue
        if getattr(x, attr) is not stored:
            problems.append(f"{attr}: flat read differs from the value at {'.'.join(path)}")
            continue
        # read again after the stored value changes: the flat read must follow the path
        conv_ = holder.spec[attr]
        try:
            newv = holder.__dict__[attr] if isinstance(stored, Aggregate) else conv_.convert(conv_.unconvert(stored))
            if isinstance(stored, str) and not isinstance(conv_, models.base.Types.OneOf):
                newv = (stored + "x")[: getattr(conv_, "length", None) or 99] if len(stored) < (getattr(conv_, "length", None) or 99) else stored
            setattr(holder, attr, newv)
            if getattr(x, attr) is not holder.__dict__[attr]:
                problems.append(f"{attr}: flat read is stale after the value at {'.'.join(path)} changed")
        except Exception:
            pass
    # undefined names - among them names that ARE attributes of the Python values stored somewhere below (str, Decimal,
    # datetime, bool, list): an instance does not have them unless an aggregate below defines them
    defined = set(names) | set(dir(type(x)))
    for y in [h for _, h, _ in desc]:
        defined |= set(dir(type(y)))
    scalar_names = ["isoformat", "year", "tzinfo", "quantize", "upper", "encode", "real", "strip", "as_tuple", "bit_length", "utcoffset", "casefold"]
    for bad in ["nosuchname", "_private", "zzz"] + [n for n in scalar_names if n not in defined]:
        try:
            if hasattr(x, bad):
                problems.append(f"hasattr({bad}) is True")
            getattr(x, bad, None)
        except Exception as ex:
            problems.append(f"undefined name {bad} raised {type(ex).__name__}")
    try:
        c = _copy.deepcopy(x)
        if canon(c) != canon(x):
            problems.append("deepcopy differs")
        p = pickle.loads(pickle.dumps(x))
        if canon(p) != canon(x):
            problems.append("pickle round trip differs")
        _copy.copy(x)
    except Exception as ex:
        problems.append(f"copy/deepcopy/pickle raised {type(ex).__name__}: {ex}")
    return problems


CONTRACTS.append(
    Contract("ofxtools.models.base:Aggregate.__getattr__", args=[TreeArg("tree"), TreeArg("seed")],
             call=call_flat_access, gen=gen_instance,
             ensures=[("flat-access-follows-the-path", "result == []")],
             native_only=True, samples=300,
             notes="random instances of random classes: every name defined by exactly one non-repeated descendant reads the very object stored there, also after that value is replaced; undefined names give AttributeError (hasattr/getattr default); copy, deepcopy and pickle reproduce an equal model",
             props=["C16"]))
