"""C18 - reading a configuration section (read_config) and writing one value (arg2config) under contract.

read_config: the section proxy is abstract - an option is in it or not (symbolic), its text is opaque, and the four
typed getters are recorders.  Proved for every option name of CONFIGURABLE, one at a time next to an option that
is not configurable: the mapping returned has the option iff the section has it - whatever its text is (blank
included) - with the value the getter OF THE OPTION'S DECLARED TYPE returns for it, and never has the
unconfigurable one; a missing section gives the empty mapping."""
import z3
from pyvc.contract import *
from pyvc.values import *
from pyvc import core as C
from pyvc import models as M
from ofxtools.scripts import ofxget as G
from contracts.client import Marker, log

GETTER = {bool: "getboolean", int: "getint", list: "getlist", str: "get"}


class AProxy(Abstract):
    pytype = dict

    def __init__(self, opts):
        self.opts = opts            # name -> (present z3 Bool | bool, text SVal)

    def p_iter(self, it):
        return [k for k, (p, t) in self.opts.items() if p is True or (p is not False and it.branch(p))]

    def p_contains(self, it, item):
        p = self.opts.get(it.concrete_key(item), (False, None))[0]
        return p

    def p_getitem(self, it, key):
        k = it.concrete_key(key)
        p, t = self.opts.get(k, (False, None))
        if p is True or (p is not False and it.branch(p)):
            return t
        raise C.Raised(ExcVal(KeyError, (k,)))

    def p_getattr(self, it, name):
        if name in ("getboolean", "getint", "getlist", "get"):
            def getter(opt, *a, **kw):
                o = it.concrete_key(opt)
                log(it, "getter", name, o)
                return Marker("typed-value", getter=name, opt=o)
            return getter
        if name in ("keys",):
            return lambda: self.p_iter(it)
        if name == "items":
            return lambda: [(k, self.p_getitem(it, k)) for k in self.p_iter(it)]
        raise C.Unsupported(f"SectionProxy.{name}")


class ACfg(Abstract):
    def __init__(self, has_section, proxy):
        self.has_section = has_section; self.proxy = proxy

    def p_contains(self, it, item):
        return self.has_section

    def p_getitem(self, it, key):
        if it.branch(self.has_section):
            return self.proxy
        raise C.Raised(ExcVal(KeyError, (it.concrete_key(key),)))

    def p_getattr(self, it, name):
        if name == "__class__":
            return type("ConfigParser", (), {})
        if name == "has_section":
            return lambda s: SBool(self.has_section)
        raise C.Unsupported(f"ConfigParser.{name}")


class CfgArg(Arg):
    def __init__(self, opt, name="cfg"):
        self.opt = opt; self.name = name

    def make(self, it):
        opts = {self.opt: (z3.Bool("section_has_the_option"), SVal(str, z3.Const("option_text", V))),
                "not_a_setting": (z3.Bool("section_has_an_unconfigurable_option"), SVal(str, z3.Const("other_text", V)))}
        return {"opt": self.opt, "has": SBool(opts[self.opt][0]), "section": SBool(z3.Bool("file_has_the_section")),
                "obj": ACfg(z3.Bool("file_has_the_section"), AProxy(opts))}, []


def call_read(it, fn, a):
    return it.call(G.read_config, [a[0]["obj"], "mybank"], {})


def read_ok(cfg, result):
    raise RuntimeError("symbolic only")


def _read_ok(it, a, kw):
    cfg, result = a
    if not isinstance(result, dict):
        return False
    o = cfg["opt"]
    want = it.branch(cfg["section"].e) and it.branch(cfg["has"].e)
    if "not_a_setting" in result:
        return False
    if not want:
        return len(result) == 0
    v = result.get(o)
    typ = G.CONFIGURABLE[o]
    if typ is None:
        return set(result) == {o} and v is None
    return set(result) == {o} and isinstance(v, Marker) and v.label == "typed-value" and v.attrs["getter"] == GETTER[typ] and v.attrs["opt"] == o


read_ok._pyvc_model = _read_ok
read_ok._pyvc_always = True
import contracts.spec.ofxget as _sp
_sp.read_ok = read_ok

CONTRACTS = []
for o in G.CONFIGURABLE:
    CONTRACTS.append(Contract("ofxtools.scripts.ofxget:read_config", args=[CfgArg(o)], call=call_read,
                              ensures=[("C18-what-the-section-says-whatever-its-text", "spec.ofxget.read_ok(cfg, result)")],
                              notes=f"option {o} (declared type {getattr(G.CONFIGURABLE[o], '__name__', None)}): presence of the section, of the option and of an unconfigurable option symbolic; texts opaque",
                              props=["C18"], symbolic_only=True))
