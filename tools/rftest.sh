#!/bin/sh
# apply a (supposedly behaviour-preserving) patch to the scratch worktree, run checks, undo.  usage: rftest.sh <patch> <prop>...
R=${VERIF_REPO:-/tmp/repo-dev}
patch=$1; shift
git -C $R apply $patch || { echo "patch does not apply"; exit 2; }
cp -r /verif/evidence /tmp/ev.rf.keep
for p in "$@"; do
  out=$(cd /verif && VERIF_REPO=$R timeout 1800 ./check $p --tier quick 2>&1); rc=$?
  echo "$p rc=$rc $(echo "$out" | grep -E '^check ' | cut -c1-140)"
  echo "$out" | grep -E "^VIOLATION|^ENGINE|^UNDECIDED" | cut -c1-330 | head -6
done
git -C $R checkout -- .
rm -rf /verif/evidence; mv /tmp/ev.rf.keep /verif/evidence
