"""Observers over the ghost call log of the client harness, and the header rule of the OFX transport
(OFX 1.6 section 1.2.1: HTTP POST, content type application/x-ofx)."""
from ofxtools.Client import AUTH_PLACEHOLDER as PLACEHOLDER


def calls(ghost, name):
    return [c for c in ghost["calls"] if c[0] == name]


def headers_ok(h, useragent):
    return (h["Content-Type"] == "application/x-ofx" and "application/x-ofx" in h["Accept"]
            and h["User-Agent"] == useragent and len(h) == 3)


def jar_rule(handlers, persist, jar):
    """the opener carries exactly one cookie processor bound to this client's jar iff cookies persist; none otherwise"""
    return (len(handlers) == 1 and handlers[0].jar is jar) if persist else len(handlers) == 0


def _sym(name):
    def f(*a):
        raise NotImplementedError(name)
    f._pyvc_always = True
    return f


is_serialized = _sym("is_serialized")
is_serialized_value = _sym("is_serialized_value")
PROFILE_URL = _sym("PROFILE_URL")


def _is_serialized(it, a, kw):
    from contracts.client import ser_f, ABytesIO
    from pyvc.values import SBool, SVal
    r, ofx = a
    if not isinstance(r, ABytesIO) or not isinstance(r.content, SVal):
        return False
    return SBool(r.content.e == ser_f(ofx.e))


def _is_serialized_value(it, a, kw):
    from contracts.client import ser_f
    from pyvc.values import SBool, SVal
    v, ofx = a
    if not isinstance(v, SVal):
        return False
    return SBool(v.e == ser_f(ofx.e))


def _profile_url(it, a, kw):
    import z3
    from pyvc.values import SVal, V
    return SVal(str, z3.Const("PROFILE_URL", V))


is_serialized._pyvc_model = _is_serialized
is_serialized_value._pyvc_model = _is_serialized_value
PROFILE_URL._pyvc_model = _profile_url


# ----------------------------------------------------------------------------- C15 observers (symbolic only)
cache_wellformed = _sym("cache_wellformed")
CACHE0 = _sym("CACHE0")
RESPONSE = _sym("RESPONSE")
response_code = _sym("response_code")
is_content = _sym("is_content")
written_exactly = _sym("written_exactly")
asked_with = _sym("asked_with")
dt = _sym("dt")


def _c15():
    import z3
    from contracts import client as K
    from pyvc.values import SVal, SBool, SInt, V
    return z3, K, SVal, SBool, SInt, V


def _cache_wellformed(it, a, kw):
    z3, K, SVal, SBool, SInt, V = _c15()
    e = a[0].e
    return SBool(z3.And(K.parse_ok(e), K.status_code(e) == 0))


def _const(name):
    def f(it, a, kw):
        z3, K, SVal, SBool, SInt, V = _c15()
        return SVal(bytes, z3.Const(name, V), {"eq": "term"})
    return f


def _response_code(it, a, kw):
    z3, K, SVal, SBool, SInt, V = _c15()
    return SInt(K.status_code(z3.Const("RESPONSE", V)))


def _is_content(it, a, kw):
    z3, K, SVal, SBool, SInt, V = _c15()
    buf, c = a
    if not isinstance(buf, K.ABuf) or not isinstance(buf.content, SVal):
        return False
    return SBool(buf.content.e == c.e)


def _written_exactly(it, a, kw):
    z3, K, SVal, SBool, SInt, V = _c15()
    ghost, c = a
    w = [x for x in ghost["calls"] if x[0] == "fs-write"]
    o = [x for x in ghost["calls"] if x[0] == "fs-open-for-write"]
    if len(w) != 1 or len(o) != 1 or not isinstance(w[0][1], SVal):
        return False
    return SBool(w[0][1].e == c.e)


def _asked_with(it, a, kw):
    z3, K, SVal, SBool, SInt, V = _c15()
    ghost, cached = a
    rq = [x for x in ghost["calls"] if x[0] == "_request_profile"]
    if len(rq) != 1:
        return False
    d = rq[0][1]
    c0 = z3.Const("CACHE0", V)
    cz = cached.e if isinstance(cached, SBool) else z3.BoolVal(bool(cached))
    if d is None:
        return SBool(z3.Not(cz))
    if isinstance(d, K.AInstant):
        return SBool(z3.And(cz, d.e == K.dtprofup_of(c0)))
    return False


def _dt(it, a, kw):
    z3, K, SVal, SBool, SInt, V = _c15()
    return SInt(K.dtprofup_of(a[0].e))


own_files = _sym("own_files")


def _name_symbols(it, name):
    """the symbols a path name depends on; a name derived from another path depends on what that one depends on"""
    import z3 as _z3
    from pyvc.values import SVal as _SVal, SStr as _SStr
    from pyvc.models import _free_vars
    if isinstance(name, tuple) and name and name[0] == "derived":
        return _name_symbols(it, name[1].name) | {"<derived-from-the-cache-entry>"} if name[1].is_cache else _name_symbols(it, name[1].name)
    if isinstance(name, _SVal):
        return set(str(v) for v in _free_vars(name.e))
    if isinstance(name, _SStr):
        out = set()
        for g, c in name.items:
            for x in (g, c):
                if _z3.is_expr(x):
                    out |= set(str(v) for v in _free_vars(x))
        return out
    return set()


def _own_files(it, a, kw):
    """every file this call writes (opens for writing, moves) is the institution's own cache entry, or has a name that depends
    on everything the cache entry's name depends on (ORG, FID ...) or is derived from it - so that no file is shared with
    the requests of another institution running in the same process"""
    z3, K, SVal, SBool, SInt, V = _c15()
    ghost, fs = a
    paths = fs.get("paths", [])
    if not paths:
        return True
    cache = paths[0]
    need = _name_symbols(it, cache.name)
    touched = []
    for c in ghost["calls"]:
        if c[0] in ("fs-scratch-open", "fs-scratch-write"):
            touched.append(c[1])
        if c[0] == "fs-replace":
            touched += [c[1], c[2]]
    for q in touched:
        if q is cache:
            continue
        have = _name_symbols(it, q.name)
        if "<derived-from-the-cache-entry>" in have or need <= have and need:
            continue
        if not need:
            continue          # the cache entry's own name is a constant (no ORG, no FID): nothing to depend on
        return False
    return True


own_files._pyvc_model = _own_files
validated_by_this_call = _sym("validated_by_this_call")


def _validated(it, a, kw):
    z3, K, SVal, SBool, SInt, V = _c15()
    buf = a[0]
    if not isinstance(buf, K.ABuf) or not isinstance(buf.content, SVal):
        return False
    return SBool(K.parse_ok(buf.content.e))       # holds only as a fact of the path: this call parsed exactly these bytes


validated_by_this_call._pyvc_model = _validated
cache_wellformed._pyvc_model = _cache_wellformed
CACHE0._pyvc_model = _const("CACHE0")
RESPONSE._pyvc_model = _const("RESPONSE")
response_code._pyvc_model = _response_code
is_content._pyvc_model = _is_content
written_exactly._pyvc_model = _written_exactly
asked_with._pyvc_model = _asked_with
dt._pyvc_model = _dt


failure_justified = _sym("failure_justified")


def _failure_justified(it, a, kw):
    """a call may fail only for a reason the property names: transport failure, malformed data, an error status,
    'up to date' with nothing cached, or a profile older than the one held"""
    z3, K, SVal, SBool, SInt, V = _c15()
    cached = a[0]
    cz = cached.e if isinstance(cached, SBool) else z3.BoolVal(bool(cached))
    R, C0 = z3.Const("RESPONSE", V), z3.Const("CACHE0", V)
    code = K.status_code(R)
    return SBool(z3.Or(z3.Bool("transport_fails"), z3.Not(K.parse_ok(R)), z3.And(code != 0, code != 1),
                       z3.And(code == 1, z3.Not(cz)), z3.And(code == 0, cz, K.dtprofup_of(C0) > K.dtprofup_of(R))))


failure_justified._pyvc_model = _failure_justified


# ----------------------------------------------------------------------------- C06 observers (symbolic only)
holds = _sym("holds")
has_value = _sym("has_value")


def _holds(it, a, kw):
    """the heap object stores, in attribute attr, what the declared converter makes of value (None for None)"""
    import z3
    from contracts import agghooks as AH
    from pyvc.values import SBool, SObj, SIte
    from pyvc import models as M
    obj, attr, value = a
    obj = it.force(obj)
    if not isinstance(obj, SObj) or attr not in obj.fields:
        return False
    stored = obj.fields[attr]
    isnone = M.is_none(it, value)
    want = z3.If(zb(isnone), AH.NoneV, AH.conv(it.lit(attr), AH.toV(it, value)))
    return SBool(AH.toV(it, stored) == want)


def zb(x):
    import z3
    return z3.BoolVal(x) if isinstance(x, bool) else x


def _has_value(it, a, kw):
    from pyvc.values import SObj
    obj, attr = a
    obj = it.force(obj)
    return isinstance(obj, SObj) and obj.fields.get(attr) is not None


holds._pyvc_model = _holds
has_value._pyvc_model = _has_value
