"""keep a confirmed seeded break under /verif/seeded/<id>/ : keepseed.py <seed dir> <id> '<json result from seedtest>'"""
import json, os, shutil, sys
src, sid, res = sys.argv[1], sys.argv[2], json.loads(sys.argv[3])
dst = os.path.join("/verif/seeded", sid)
os.makedirs(dst, exist_ok=True)
for f in ("patch.diff", "demo.py"):
    shutil.copy(os.path.join(src, f), os.path.join(dst, f))
meta = json.load(open(os.path.join(src, "meta.json")))
meta["confirmed_by_verif"] = {"demo_exit_clean": res.get("demo_clean_rc"), "demo_exit_patched": res.get("demo_patched_rc"),
                              "suite_with_patch": res.get("suite_patched"),
                              "commands": ["git -C /repo apply patch.diff", "PYTHONPATH=/repo /venv/bin/python demo.py", "cd /repo && /venv/bin/python -m pytest -q -p no:cacheprovider -x -n 16 tests", "git -C /repo checkout -- ."]}
meta["checks"] = res.get("checks", {})
json.dump(meta, open(os.path.join(dst, "meta.json"), "w"), indent=1)
print("kept", dst)
