"""The documented shortcuts of the model classes, as explicit path walks (property C16), written from the
OFX structure: a *TRNRQ/*TRNRS wrapper holds its statement request/response in one named child."""

WRAPPED = {
    "STMTTRNRQ": "stmtrq", "STMTENDTRNRQ": "stmtendrq", "CCSTMTTRNRQ": "ccstmtrq", "CCSTMTENDTRNRQ": "ccstmtendrq",
    "INVSTMTTRNRQ": "invstmtrq",
    "STMTTRNRS": "stmtrs", "STMTENDTRNRS": "stmtendrs", "CCSTMTTRNRS": "ccstmtrs", "CCSTMTENDTRNRS": "ccstmtendrs",
    "INVSTMTTRNRS": "invstmtrs",
}
MSGSET_ORDER = ["bankmsgsrqv1", "creditcardmsgsrqv1", "invstmtmsgsrqv1", "bankmsgsrsv1", "creditcardmsgsrsv1", "invstmtmsgsrsv1"]
ALIASES = {
    ("STMTRS", "account"): "bankacctfrom", ("STMTRS", "transactions"): "banktranlist", ("STMTRS", "balance"): "ledgerbal",
    ("CCSTMTRS", "account"): "ccacctfrom", ("CCSTMTRS", "transactions"): "banktranlist", ("CCSTMTRS", "balance"): "ledgerbal",
    ("INVSTMTRS", "account"): "invacctfrom", ("INVSTMTRS", "transactions"): "invtranlist", ("INVSTMTRS", "positions"): "invposlist",
    ("INVSTMTRS", "balances"): "invbal",
    ("STMTTRNRS", "statement"): "stmtrs", ("CCSTMTTRNRS", "statement"): "ccstmtrs", ("INVSTMTTRNRS", "statement"): "invstmtrs",
    ("CCSTMTENDTRNRS", "statement"): "ccstmtendrs", ("PROFTRNRS", "profile"): "profrs",
}


def wrapped_statement(member):
    a = WRAPPED.get(member.__class__.__name__)
    return None if a is None else getattr(member, a)


def expected_statements(msgs):
    """every wrapped statement once, in document order"""
    out = []
    for m in msgs:
        s = wrapped_statement(m)
        if s is not None:
            out.append(s)
    return out


def same_objects(a, b):
    if len(a) != len(b):
        return False
    r = True
    for i in range(len(a)):
        r = r and (a[i] is b[i])
    return r


def expected_ofx_statements(ofx):
    out = []
    for name in MSGSET_ORDER:
        ms = getattr(ofx, name)
        if ms is not None:
            out = out + expected_statements(ms)
    return out
