"""Finite-domain term tabulation: an equivalence-preserving rewrite used before SMT.

If an integer variable x is known (and re-proved by the solver) to range over a small finite set D,
every subterm t(x) whose only free variable is x is replaced by its value table over D written as a
canonical If-chain.  Two subterms that are equal as functions on D become the *same* term, so sums of
per-character contributions on the code side and on the spec side cancel syntactically and the solver
never has to reason about div/mod of If-nests.  Children of (flattened) sums are grouped by variable
first.  Nothing is assumed: `x in D` must be implied by the path condition (checked by the caller).
"""
import z3


def _is_var(t):
    return z3.is_const(t) and t.decl().kind() == z3.Z3_OP_UNINTERPRETED


class Tabulator:
    def __init__(self, domains, min_size=2):
        self.domains = {v.get_id(): (v, sorted(set(d))) for v, d in domains.items()}
        self.fvc = {}
        self.rw = {}
        self.sizec = {}
        self.min_size = min_size
        self.tables = 0

    def fv(self, t):
        i = t.get_id()
        r = self.fvc.get(i)
        if r is None:
            if _is_var(t):
                r = frozenset([i])
            elif z3.is_app(t):
                r = frozenset().union(*[self.fv(c) for c in t.children()]) if t.num_args() else frozenset()
            else:
                r = frozenset([-1])       # quantifier etc.: never tabulate
            self.fvc[i] = r
        return r

    def size(self, t):
        i = t.get_id()
        r = self.sizec.get(i)
        if r is None:
            r = 1 + sum(self.size(c) for c in t.children()) if z3.is_app(t) else 1
            self.sizec[i] = r
        return r

    def table(self, t, vid):
        var, dom = self.domains[vid]
        vals = []
        for d in dom:
            v = z3.simplify(z3.substitute(t, (var, z3.IntVal(d))))
            if not (z3.is_int_value(v) or z3.is_true(v) or z3.is_false(v)):
                return None
            vals.append(v)
        # canonical chain over increasing d, merging runs of equal values
        runs = []
        for d, v in zip(dom, vals):
            if runs and runs[-1][1].eq(v):
                runs[-1][0] = d
            else:
                runs.append([d, v])
        res = runs[-1][1]
        for hi, v in reversed(runs[:-1]):
            res = z3.If(var <= hi, v, res)
        self.tables += 1
        return res

    def flatten_add(self, t, out):
        if z3.is_app(t) and t.decl().kind() == z3.Z3_OP_ADD:
            for c in t.children():
                self.flatten_add(c, out)
        else:
            out.append(t)

    def rewrite(self, t):
        i = t.get_id()
        if i in self.rw:
            return self.rw[i]
        r = self._rewrite(t)
        self.rw[i] = r
        return r

    def _rewrite(self, t):
        if not z3.is_app(t) or t.num_args() == 0:
            return t
        fv = self.fv(t)
        if len(fv) == 1:
            (vid,) = fv
            if vid in self.domains and self.size(t) >= self.min_size and (z3.is_int(t) or z3.is_bool(t)):
                tb = self.table(t, vid)
                if tb is not None:
                    return tb
        if t.decl().kind() == z3.Z3_OP_ADD and z3.is_int(t):
            kids = []
            self.flatten_add(t, kids)
            groups = {}
            rest = []
            for k in kids:
                f = self.fv(k)
                if len(f) == 1 and next(iter(f)) in self.domains:
                    groups.setdefault(next(iter(f)), []).append(k)
                elif len(f) == 0:
                    groups.setdefault("const", []).append(k)
                else:
                    rest.append(self.rewrite(k))
            terms = []
            for vid in sorted(groups, key=lambda x: (isinstance(x, str), x)):
                g = groups[vid]
                s = g[0] if len(g) == 1 else z3.Sum(g)
                if vid == "const":
                    terms.append(z3.simplify(s))
                    continue
                tb = self.table(s, vid)
                terms.append(tb if tb is not None else z3.Sum([self.rewrite(k) for k in g]))
            allk = terms + rest
            return allk[0] if len(allk) == 1 else z3.Sum(allk)
        kids = [self.rewrite(c) for c in t.children()]
        return t.decl()(*kids)


def conjuncts(forms):
    out = []
    for f in forms:
        if z3.is_and(f):
            out += conjuncts(f.children())
        else:
            out.append(f)
    return out


def refine_domains(domains, forms):
    """restrict each domain by the conjuncts that mention only that variable (evaluated by substitution)"""
    tb = Tabulator(domains)
    per = {}
    for c in conjuncts(forms):
        f = tb.fv(c)
        if len(f) == 1:
            (vid,) = f
            if vid in tb.domains:
                per.setdefault(vid, []).append(c)
    out = {}
    for vid, (var, dom) in tb.domains.items():
        cs = per.get(vid, [])
        keep = []
        for d in dom:
            ok = True
            for c in cs:
                v = z3.simplify(z3.substitute(c, (var, z3.IntVal(d))))
                if z3.is_false(v):
                    ok = False
                    break
            if ok:
                keep.append(d)
        out[var] = keep
    return out


def tabulate_forms(domains, forms, passes=4):
    """-> rewritten forms (equivalent to the input under the domain constraints, which are re-added)"""
    cur = list(forms)
    ntab = 0
    for _ in range(passes):
        tb = Tabulator(domains)
        nxt = [z3.simplify(tb.rewrite(c)) for c in cur]
        ntab += tb.tables
        same = all(a.eq(b) for a, b in zip(cur, nxt))
        cur = nxt
        if same:
            break
    for v, d in domains.items():
        cur.append(z3.Or(*[v == k for k in d]) if d else z3.BoolVal(False))
    return cur, ntab
