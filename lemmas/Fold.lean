/-
Generic list facts used by the per-property arguments (no code involved, core Lean only).

foldl_skip : folding a step function that ignores "unknown" elements over a list equals folding it over the list
             with those elements removed.  With `f := update_args`, `p := "tag is defined by the class"` and the
             proved contract "unknown tag => accumulator unchanged" (hypothesis h), this gives C07: inserting any
             number of unknown children at any positions does not change the fold that Aggregate._convert computes.
foldl_insert : the single-insertion form.
-/

theorem foldl_skip {α β : Type} (f : α → β → α) (p : β → Bool)
    (h : ∀ a x, p x = false → f a x = a) :
    ∀ (l : List β) (a : α), l.foldl f a = (l.filter p).foldl f a := by
  intro l
  induction l with
  | nil => intro a; rfl
  | cons x xs ih =>
    intro a
    by_cases hp : p x = true
    · simp [List.filter, hp, ih]
    · have hf : p x = false := by simpa using hp
      simp [List.filter, hf, h a x hf, ih]

theorem foldl_insert {α β : Type} (f : α → β → α) (p : β → Bool)
    (h : ∀ a x, p x = false → f a x = a) (l₁ l₂ : List β) (u : β) (hu : p u = false) (a : α) :
    (l₁ ++ u :: l₂).foldl f a = (l₁ ++ l₂).foldl f a := by
  simp [List.foldl_append, h _ u hu]
