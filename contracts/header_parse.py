"""Sidecar contracts for ofxtools.header.parse_header (property C05) on file shapes whose body bytes and UID
characters are symbolic: the header parser hands over exactly the body, decoded as the header declares.
The byte stream is an abstract BytesIO over a sequence of symbolic bytes."""
import io
import z3
from pyvc.contract import *
from pyvc.values import *
from pyvc import core as C
from pyvc import models as M
from ofxtools import header as H
from ofxtools.header import OFXHeaderV1, OFXHeaderV2, parse_header

CP1252 = {}
for b in range(0x80, 0xA0):
    try:
        CP1252[b] = ord(bytes([b]).decode("cp1252"))
    except UnicodeDecodeError:
        CP1252[b] = None


class ABytes(Abstract):
    pytype = bytes

    def __init__(self, codes):
        self.codes = list(codes)

    def p_getattr(self, it, name):
        if name == "decode":
            return lambda codec="utf_8": self.decode(it, it.force(codec))
        raise C.Unsupported(f"bytes.{name}")

    def decode(self, it, codec):
        if isinstance(codec, SStr):
            codec = codec.pystr()
        out = []
        for b in self.codes:
            if isinstance(b, int):
                if codec in ("ascii", "utf_8") and b >= 128:
                    if codec == "ascii":
                        raise C.Raised(ExcVal(UnicodeDecodeError, ("ascii", b"", 0, 1, "ordinal not in range(128)")))
                    raise C.Unsupported("utf-8 multi-byte sequences are outside the byte model")
                out.append((True, CP1252.get(b, b) if codec == "cp1252" else b))
                continue
            if codec in ("ascii", "utf_8"):
                if not it.branch(b < 128):
                    if codec == "ascii":
                        raise C.Raised(ExcVal(UnicodeDecodeError, ("ascii", b"", 0, 1, "ordinal not in range(128)")))
                    raise C.Unsupported("utf-8 multi-byte sequences are outside the byte model")
                out.append((True, b))
            elif codec == "latin_1":
                out.append((True, b))
            elif codec == "cp1252":
                undefined = [k for k, v in CP1252.items() if v is None]
                if it.branch(z3.Or(*[b == k for k in undefined])):
                    raise C.Raised(ExcVal(UnicodeDecodeError, ("charmap", b"", 0, 1, "character maps to <undefined>")))
                e = b
                for k, v in CP1252.items():
                    if v is not None:
                        e = z3.If(b == k, v, e)
                out.append((True, e))
            else:
                raise C.Unsupported(f"codec {codec}")
        return SStr(out)


class ASource(Abstract):
    pytype = io.BytesIO

    def __init__(self, codes):
        self.codes = list(codes); self.pos = 0

    def p_getattr(self, it, name):
        if name == "tell":
            return lambda: self.pos
        if name == "seek":
            def seek(n):
                n = M.pin_int(it, n)
                if not isinstance(n, int):
                    raise C.Unsupported("seek to a symbolic offset")
                self.pos = n
                return n
            return seek
        if name == "readline":
            def readline():
                i = self.pos
                while i < len(self.codes):
                    b = self.codes[i]
                    i += 1
                    if (b == 10) if isinstance(b, int) else it.branch(b == 10):
                        break
                r = ABytes(self.codes[self.pos:i])
                self.pos = i
                return r
            return readline
        if name == "read":
            def read():
                r = ABytes(self.codes[self.pos:])
                self.pos = len(self.codes)
                return r
            return read
        raise C.Unsupported(f"source.{name}")


V1_FIELDS = [("OFXHEADER", "100"), ("DATA", "OFXSGML"), ("VERSION", "102"), ("SECURITY", "NONE"), ("ENCODING", "USASCII"),
             ("CHARSET", None), ("COMPRESSION", "NONE"), ("OLDFILEUID", "NONE"), ("NEWFILEUID", "*")]
CODECS = {"ISO-8859-1": "latin_1", "1252": "cp1252", "NONE": "utf_8"}
UIDCH = "ABCDEFGHIJKLMNOPQRSTUVWXYZabcdefghijklmnopqrstuvwxyz0123456789_-"


class FileArg(Arg):
    """a v1 file: concrete layout, symbolic NEWFILEUID characters, body '<' + 3 symbolic bytes + '>'"""
    name = "file"

    def __init__(self, sep, blanks, lead, gap, charset, bodylen=3):
        self.sep = sep; self.blanks = blanks; self.lead = lead; self.gap = gap; self.charset = charset; self.bodylen = bodylen

    def make(self, it):
        uid, asm = StrArg("uid", length=2, charset=UIDCH).make(it)
        codes = [ord(c) for c in (self.lead if isinstance(self.lead, str) else "\r\n" * self.lead)]
        for i, (k, v) in enumerate(V1_FIELDS):
            if i:
                codes += [ord(c) for c in self.sep]
            codes += [ord(c) for c in f"{k}:{' ' * self.blanks}"]
            if v == "*":
                codes += [c for _, c in uid.items]
            else:
                codes += [ord(c) for c in (self.charset if v is None else v)]
        codes += [ord(c) for c in self.gap]
        body = [z3.Int(f"body_{i}") for i in range(self.bodylen)]
        hi = 127 if self.charset == "NONE" else 255
        asm += [z3.And(b >= 0, b <= hi) for b in body]
        bodycodes = [60] + body + [62]
        codes += bodycodes
        return {"source": ASource(codes), "uid": uid, "body": ABytes(bodycodes), "charset": self.charset}, asm

    def concretize(self, model, value):
        ev = lambda c: c if isinstance(c, int) else model.eval(c, model_completion=True).as_long()
        return bytes(ev(c) for c in value["source"].codes)


def call_parse_header(it, fn, a):
    f = a[0]
    h, msg = it.iterate(it.call(parse_header, [f["source"]], {}))
    return (h, msg)


CONTRACTS = [
    Contract("ofxtools.header:OFXHeaderV1.codec",
             args=[InstArg("self", OFXHeaderV1, {"charset": OneOfArg("charset", ["ISO-8859-1", "1252", "NONE"]),
                                                  "encoding": OneOfArg("encoding", ["USASCII", "UNICODE", "UTF-8"])},
                           lambda **kw: OFXHeaderV1(102, charset=kw["charset"], encoding=kw["encoding"]))],
             call=lambda it, fn, a: (a[0].codec if it is None else it.getattr(a[0], "codec")),
             ensures=[("declared-character-set-decides", "result == spec.header.CODEC_OF[self.charset]")],
             props=["C05"]),
]
P0 = len(CONTRACTS)
for sep in ("\r\n", "\n", "\r", ""):
    for blanks in (0, 1):
        for lead in (0, 1, "\r", "\n\r"):
            for gap in ("", "\r\n", "\r\n\r\n", "\r"):
                for charset in ("1252", "ISO-8859-1", "NONE"):
                    quick = (blanks == 0 and lead in (0, "\r")) or (sep == "\r\n" and gap == "\r\n\r\n")
                    CONTRACTS.append(Contract(
                        "ofxtools.header:parse_header",
                        args=[FileArg(sep, blanks, lead, gap, charset)], call=call_parse_header,
                        ensures=[("fields", "result[0].newfileuid == file['uid'] and result[0].charset == file['charset'] and result[0].version == 102"),
                                 ("exact-body-decoded-as-declared", "result[1] == spec.header.decoded(file['body'], file['charset'])")],
                        raises=[(UnicodeDecodeError, "file['charset'] == '1252'", "may")],
                        requires=["spec.header.no_edge_whitespace(file['body'])"] if False else [],
                        notes=f"v1 layout sep={sep!r} blanks={blanks} leading blank lines={lead} gap={gap!r} charset={charset}; UID characters and the 3 body bytes symbolic (0..255, 0..127 for UTF-8)",
                        props=["C05"], symbolic_only=True, tier="quick" if quick else "thorough", max_paths=800))
