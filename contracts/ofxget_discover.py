"""C19 - discovery (--all): which of the accounts a server lists are requested.

parse_bankacctinfos / parse_ccacctinfos / parse_invacctinfos and _acctIsActive under contract: for a list of
0..3 account-information entries whose service status is ANY text, whose other attributes (SUPTXDL, XFERSRC,
XFERDEST, account numbers, ids) are unconstrained, the mapping returned holds - per account type - exactly the
account numbers of the entries whose status is ACTIVE, in the order listed, and the bank / broker id entry is
present iff at least one entry is ACTIVE and is what collapseToSingle makes of the ACTIVE entries' ids.
collapseToSingle is an abstract callee here (its own contract: the one distinct item, else ValueError)."""
import collections, itertools
import z3
from pyvc.contract import *
from pyvc.values import *
from pyvc import core as C
from pyvc import models as M
from ofxtools.scripts import ofxget as G
from ofxtools import utils as U
from contracts.client import Marker, log

BANKTYPES = ["CHECKING", "SAVINGS", "MONEYMRKT", "CREDITLINE", "CD"]


class ADefaultDict(Abstract):
    """collections.defaultdict(list) with concrete keys"""
    pytype = dict

    def __init__(self):
        self.d = {}

    def p_getitem(self, it, key):
        k = it.concrete_key(key)
        if k not in self.d:
            self.d[k] = []
        return self.d[k]

    def p_setitem(self, it, key, value):
        self.d[it.concrete_key(key)] = value

    def p_contains(self, it, item):
        return it.concrete_key(item) in self.d

    def p_asdict(self, it):
        return dict(self.d)

    def p_iter(self, it):
        return list(self.d)

    def p_getattr(self, it, name):
        if name == "items":
            return lambda: list(self.d.items())
        if name == "keys":
            return lambda: list(self.d)
        if name == "get":
            return lambda k, default=None: self.d.get(it.concrete_key(k), default)
        raise C.Unsupported(f"defaultdict.{name}")


class InfosArg(Arg):
    """n entries of one kind; status any text, flags any Booleans, numbers and ids opaque; account types from a pattern"""

    def __init__(self, kind, types, name="infos"):
        self.kind = kind; self.types = types; self.name = name

    def make(self, it):
        out, asm = [], []
        for i, t in enumerate(self.types):
            f = {"svcstatus": SVal(str, z3.Const(f"status_{i}", V)),
                 "suptxdl": SBool(z3.Bool(f"suptxdl_{i}")), "xfersrc": SBool(z3.Bool(f"xfersrc_{i}")), "xferdest": SBool(z3.Bool(f"xferdest_{i}")),
                 "acctid": SVal(str, z3.Const(f"acctid_{i}", V)), "desc": None, "phone": None}
            if self.kind == "bank":
                f.update(bankid=SVal(str, z3.Const(f"bankid_{i}", V)), accttype=t)
                f["bankacctfrom"] = Marker(f"bankacctfrom{i}", bankid=f["bankid"], acctid=f["acctid"], accttype=t)
            elif self.kind == "inv":
                f["brokerid"] = SVal(str, z3.Const(f"brokerid_{i}", V))
                f["invacctfrom"] = Marker(f"invacctfrom{i}", brokerid=f["brokerid"], acctid=f["acctid"])
                f.update(usproducttype="OTHER", checking=SBool(z3.Bool(f"checking_{i}")), invacctype=None)
            else:
                f["ccacctfrom"] = Marker(f"ccacctfrom{i}", acctid=f["acctid"])
            out.append(Marker(f"{self.kind}acctinfo{i}", **f))
        return out, asm


def call_parse(fname):
    def call(it, fn, a):
        it.models[collections.defaultdict] = lambda it_, ar, kw: ADefaultDict()
        it.models[G.defaultdict] = it.models[collections.defaultdict]

        def m_collapse(it_, ar, kw):
            log(it_, "collapseToSingle", list(it_.iterate(ar[0])), ar[1])
            return Marker("the-single-id", of=list(it_.iterate(ar[0])))
        it.models[U.collapseToSingle] = m_collapse
        r = it.call(getattr(G, fname), [a[0]], {})
        return r.p_asdict(it) if isinstance(r, ADefaultDict) else r
    return call


def _active(it, info):
    """decided by the path: the status text of this entry is / is not 'ACTIVE'"""
    st = info.attrs["svcstatus"]
    return it.branch(st.e == it.embed("ACTIVE"))


def _same_terms(got, want, it=None):
    if isinstance(got, GList) and it is not None:
        got = it.iterate(got)          # a comprehension with undecided filters: decide them (they are decided by the path already)
    if not isinstance(got, list) or len(got) != len(want):
        return False
    return all(g is w or (isinstance(g, SVal) and isinstance(w, SVal) and g.e.eq(w.e)) for g, w in zip(got, want))


def discovered_ok(infos, result, kind):
    raise RuntimeError("symbolic only")


def _discovered_ok(it, a, kw):
    infos, result, kind = a
    if not isinstance(result, dict):
        return False
    act = [i for i in infos if _active(it, i)]
    want = {}
    if kind == "bank":
        for i in act:
            want.setdefault(i.attrs["accttype"].lower(), []).append(i.attrs["acctid"])
        idkey, ids = "bankid", [i.attrs["bankid"] for i in act]
    elif kind == "inv":
        if act:
            want["investment"] = [i.attrs["acctid"] for i in act]
        idkey, ids = "brokerid", [i.attrs["brokerid"] for i in act]
    else:
        want["creditcard"] = [i.attrs["acctid"] for i in act]
        idkey, ids = None, []
    keys = set(want) | ({idkey} if ids else set())
    if set(result) != keys:
        return False
    for k, v in want.items():
        if not _same_terms(result[k], v, it):
            return False
    if ids:
        single = result[idkey]
        if not (isinstance(single, Marker) and single.label == "the-single-id" and _same_terms(single.attrs["of"], ids)):
            return False
    return True


discovered_ok._pyvc_model = _discovered_ok
discovered_ok._pyvc_always = True
import contracts.spec.ofxget as _sp
_sp.discovered_ok = discovered_ok

CONTRACTS = []
PATTERNS = {"bank": [[], ["CHECKING"], ["SAVINGS", "SAVINGS"], ["CHECKING", "SAVINGS", "CHECKING"], ["MONEYMRKT", "CREDITLINE", "CD"]],
            "cc": [[], [None], [None, None], [None, None, None]],
            "inv": [[], [None], [None, None], [None, None, None]]}
for kind, fname in (("bank", "parse_bankacctinfos"), ("cc", "parse_ccacctinfos"), ("inv", "parse_invacctinfos")):
    for pat in PATTERNS[kind]:
        CONTRACTS.append(Contract(f"ofxtools.scripts.ofxget:{fname}", args=[InfosArg(kind, pat)], call=call_parse(fname),
                                  ensures=[("exactly-the-ACTIVE-accounts-in-order", f"spec.ofxget.discovered_ok(infos, result, {kind!r})")],
                                  notes=f"{len(pat)} entries {pat if kind == 'bank' else ''}; status any text, SUPTXDL/XFERSRC/XFERDEST any Booleans, numbers opaque",
                                  props=["C19"], symbolic_only=True))

# _acctIsActive: ACTIVE and nothing else - whatever the other attributes of the entry say
CONTRACTS.append(Contract("ofxtools.scripts.ofxget:_acctIsActive", args=[InfosArg("bank", ["CHECKING"])],
                          call=lambda it, fn, a: it.call(G._acctIsActive, [a[0][0]], {}),
                          ensures=[("active-only", "result == (infos[0].svcstatus == 'ACTIVE')")],
                          notes="SUPTXDL, XFERSRC, XFERDEST unconstrained", props=["C19"], symbolic_only=True))
