"""Sidecar contracts for date-time / time notation (property C09; also C10/C11 clauses for these types).
Top-level postconditions come from the property statement; spec functions are in contracts/spec/ofxdt.py."""
import datetime, random
from pyvc.contract import *
from pyvc import models_dt as DT
from ofxtools import Types, utils
from ofxtools.Types import OFXSpecError

DIG = "0123456789"
NOT_NL = [(0, 9), (11, 0xD7FF), (0xE000, 0x10FFFF)]


class FixedTz(datetime.tzinfo):
    """fixed-offset zone with an arbitrary (possibly None) name, for native replays"""

    def __init__(self, minutes, name, seconds=0):
        self.minutes = minutes; self.name = name; self.seconds = seconds

    def utcoffset(self, dt):
        return datetime.timedelta(minutes=self.minutes, seconds=self.seconds)

    def tzname(self, dt):
        return self.name

    def dst(self, dt):
        return datetime.timedelta(0)

    def __repr__(self):
        return f"FixedTz({self.minutes}, {self.name!r})" if not self.seconds else f"FixedTz({self.minutes}, {self.name!r}, {self.seconds})"


class DatetimeArg(Arg):
    """a datetime.datetime: years ylo..yhi, any valid date, any microsecond; aware (whole-minute offset in
    [-12:00, +14:00], name None or 0..3 arbitrary characters without newline) or naive"""

    def __init__(self, name, aware=True, ylo=1000, yhi=9998, as_time=False):
        self.name = name; self.aware = aware; self.ylo = ylo; self.yhi = yhi; self.as_time = as_time

    def make(self, it):
        n = self.name
        y, m, d = z3.Int(n + "_Y"), z3.Int(n + "_M"), z3.Int(n + "_D")
        h, mi, sec, us = z3.Int(n + "_h"), z3.Int(n + "_mi"), z3.Int(n + "_s"), z3.Int(n + "_us")
        tod = ((h * 60 + mi) * 60 + sec) * 10 ** 6 + us
        hmsu = (h, mi, sec, us)
        asm = [DT.valid_ymd(y, m, d), y >= self.ylo, y <= self.yhi,
               z3.And(h >= 0, h <= 23, mi >= 0, mi <= 59, sec >= 0, sec <= 59, us >= 0, us <= 999999)]
        tz = None
        self._parts = {"y": y, "m": m, "d": d, "tod": tod}
        if self.aware:
            off = z3.Int(n + "_offmin")
            asm += [off >= -720, off <= 840]
            nm_arg = OptArg(StrArg(n + "_tzname", minlen=0, maxlen=3, charset=NOT_NL))
            nm, a2 = nm_arg.make(it)
            asm += a2
            self._nm_arg = nm_arg; self._nm = nm
            tz = (off * 60 * 10 ** 6, nm, None)
            self._parts["off"] = off
        if self.as_time:
            return DT.ATime(tod, tz, hmsu), asm[3:]
        return DT.ADatetime(y, m, d, tod, tz, hmsu), asm

    def concretize(self, model, value):
        ev = lambda x: model.eval(x, model_completion=True).as_long()
        p = self._parts
        tod = ev(p["tod"])
        h, rem = divmod(tod, 3600 * 10 ** 6); mi, rem = divmod(rem, 60 * 10 ** 6); s, us = divmod(rem, 10 ** 6)
        tz = None
        if self.aware:
            tz = FixedTz(ev(p["off"]), self._nm_arg.concretize(model, self._nm))
        if self.as_time:
            return datetime.time(h, mi, s, us, tzinfo=tz)
        return datetime.datetime(ev(p["y"]), ev(p["m"]), ev(p["d"]), h, mi, s, us, tzinfo=tz)

    def samples(self, rng, n):
        out = []
        for _ in range(max(n, 8)):
            y = rng.choice([self.ylo, self.yhi, 1900, 1999, 2000, 2024, 2200, rng.randint(self.ylo, self.yhi)])
            m = rng.randint(1, 12)
            d = rng.choice([1, 28, rng.randint(1, 28)])
            us = rng.choice([0, 499, 500, 999, 999499, 999500, 999999, rng.randint(0, 999999)])
            h, mi, s = rng.choice([(0, 0, 0), (23, 59, 59), (rng.randint(0, 23), rng.randint(0, 59), rng.randint(0, 59))])
            tz = None
            if self.aware:
                off = rng.choice([0, -720, 840, -30, 30, -1, 1, -59, 330, -210, rng.randint(-720, 840)])
                tz = FixedTz(off, rng.choice([None, "", "EST", "X", "é]", ":["]))
                if rng.random() < 0.15:
                    # offsets with a seconds part (local mean time): outside the symbolic domain (whole minutes), bounded samples only
                    m_, s_ = rng.choice([(353, 28), (19, 32), (-297, 58), (0, 30), (-1, 59), (839, 1), (-720, 59)])
                    tz = FixedTz(m_, rng.choice([None, "LMT", "AMT"]), s_)
            if self.as_time:
                out.append(datetime.time(h, mi, s, us, tzinfo=tz))
            else:
                out.append(datetime.datetime(y, m, d, h, mi, s, us, tzinfo=tz))
        if self.as_time and not self.aware:
            # a time of day carrying a zone whose offset depends on the date has no offset: it is naive
            out.append(datetime.time(1, 2, 3, 250000, tzinfo=DstTz()))
            out.append(datetime.time(23, 59, 59, tzinfo=DstTz()))
        if self.aware and not self.as_time:
            # a time zone whose offset depends on the date (daylight saving): values just before / inside the
            # transitions, where the offset of the value and that of a neighbouring instant differ; both folds
            for hh, mm, ss, us2, fold in ((1, 59, 59, 999600, 0), (1, 59, 59, 999600, 1), (1, 30, 0, 0, 1), (1, 30, 0, 0, 0), (0, 59, 59, 999999, 0), (2, 0, 0, 0, 0)):
                out.append(datetime.datetime(2021, 11, 7, hh, mm, ss, us2, tzinfo=DstTz(), fold=fold))
                out.append(datetime.datetime(2021, 3, 14, min(hh + 1, 3), mm, ss, us2, tzinfo=DstTz()))
        return out


class DstTz(datetime.tzinfo):
    """US-Eastern-like rules for 2021: -4 h between 14 March 02:00 and 7 November 02:00 local, -5 h otherwise;
    the repeated hour 01:00-02:00 on 7 November is told apart by fold"""

    def _dst(self, dt):
        if dt is None:
            return None            # a bare time of day: the rules cannot say (datetime's definition of a naive time)
        start = datetime.datetime(2021, 3, 14, 2)
        end = datetime.datetime(2021, 11, 7, 1)         # from 01:00 on, fold decides
        n = dt.replace(tzinfo=None)
        if start <= n < end:
            return True
        if end <= n < end + datetime.timedelta(hours=1):
            return getattr(dt, "fold", 0) == 0
        return False

    def utcoffset(self, dt):
        return None if dt is None else datetime.timedelta(hours=-4 if self._dst(dt) else -5)

    def dst(self, dt):
        return None if dt is None else datetime.timedelta(hours=1 if self._dst(dt) else 0)

    def tzname(self, dt):
        return None if dt is None else ("EDT" if self._dst(dt) else "EST")

    def __repr__(self):
        return "DstTz()"


def dtinst(cls=Types.DateTime):
    return InstArg("self", cls, {"required": BoolArg("required")}, lambda **kw: cls(required=kw.get("required", False)))


# ----------------------------------------------------------------------------- text shapes
def shape(with_date, time_part, offset):
    """-> (StrArg, description).  time_part: 0 none, 1 HHMMSS, 2 HHMMSS.XXX
    offset: None | (signed: bool, hour_digits: 1|2, with_minutes: bool, name: None|int maxlen)"""
    pos = {}
    n = 0

    def put(cs, k=1):
        nonlocal n
        for _ in range(k):
            pos[n] = cs; n += 1
    if with_date:
        put(DIG, 8)
    if time_part or not with_date:
        put(DIG, 6)
        if time_part == 2:
            put("."); put(DIG, 3)
        if offset:
            signed, hd, mins, name = offset
            put("[")
            if signed:
                put("+-")
            put(DIG, hd)
            if mins:
                put("."); put(DIG, 2)
            fixed_end = n
            if name is not None:
                put(":")
            namestart = n
            if name:
                put(NOT_NL, name)
            put("]")
    # variable-length names would need guards in the middle of the string; instead enumerate name lengths
    return StrArg("value", length=n, per_pos=pos, charset=DIG)


def fields_expr(with_date, time_part, offset):
    """python expressions (over `value`) for the fields of this shape, used in ensures/requires"""
    o = 0
    e = {}
    N = "spec.ofxdt.num"
    if with_date:
        e["y"] = f"{N}(value[0:4])"; e["mo"] = f"{N}(value[4:6])"; e["d"] = f"{N}(value[6:8])"; o = 8
    else:
        e["y"], e["mo"], e["d"] = "1", "1", "1"
    if time_part or not with_date:
        e["h"] = f"{N}(value[{o}:{o+2}])"; e["mi"] = f"{N}(value[{o+2}:{o+4}])"; e["s"] = f"{N}(value[{o+4}:{o+6}])"; o += 6
    else:
        e["h"] = e["mi"] = e["s"] = "0"
    e["ms"] = "0"
    if time_part == 2:
        e["ms"] = f"{N}(value[{o+1}:{o+4}])"; o += 4
    e["off"] = "0"
    e["kf"] = "False"
    if offset:
        signed, hd, mins, name = offset
        o += 1
        sign = "1"
        if signed:
            sign = f"(-1 if value[{o}] == '-' else 1)"; o += 1
        hh = f"{N}(value[{o}:{o+hd}])"; o += hd
        mm = "0"
        if mins:
            mm = f"{N}(value[{o+1}:{o+3}])"; o += 3
        e["off"] = f"spec.ofxdt.offset_minutes({sign}, {hh}, {mm})"
        e["offrange"] = f"(-720 <= {e['off']} <= 840) and {hh} <= (12 if {sign} < 0 else 14) and {mm} < 60"
    return e


def all_shapes(with_date):
    out = []
    tps = [0, 1, 2] if with_date else [1, 2]
    for tp in tps:
        out.append((tp, None))
        if tp == 0:
            continue
        for signed in (False, True):
            for hd in (1, 2):
                for mins in (False, True):
                    for name in (None, 0, 2):
                        out.append((tp, (signed, hd, mins, name)))
    return out


def valid_req(e, with_date):
    r = []
    if with_date:
        r.append(f"1 <= {e['y']} and 1 <= {e['mo']} <= 12 and 1 <= {e['d']} <= spec.ofxdt.days_in_month({e['y']}, {e['mo']})")
        r.append(f"2 <= {e['y']} <= 9998")
    r.append(f"{e['h']} <= 23 and {e['mi']} <= 59 and {e['s']} <= 59")
    if "offrange" in e:
        r.append(e["offrange"])
    return r


def gen_for_shape(arg, e, with_date):
    """sampler: random digits, repaired into a calendar-valid text"""
    def gen(rng):
        for _ in range(50):
            chars = []
            for i in range(arg.maxlen):
                cs = arg.per_pos.get(i, arg.charset)
                chars.append(charset_sample(rng, cs))
            t = "".join(chars)
            if with_date:
                t = "%04d%02d%02d" % (rng.choice([1900, 2000, 2024, 2200, rng.randint(2, 9998)]), rng.randint(1, 12), rng.randint(1, 28)) + t[8:]
                if len(t) > 8:
                    t = t[:8] + "%02d%02d%02d" % (rng.randint(0, 23), rng.randint(0, 59), rng.randint(0, 59)) + t[14:]
            else:
                t = "%02d%02d%02d" % (rng.randint(0, 23), rng.randint(0, 59), rng.randint(0, 59)) + t[6:]
            return [rng.choice(dtinst(Types.DateTime if with_date else Types.Time).samples(rng, 2)), t]
        return None
    return gen


CONTRACTS = []

# ------------------------------------------------------------------------ utils.gmt_offset (helper)
CONTRACTS.append(Contract(
    "ofxtools.utils:gmt_offset",
    args=[IntArg("hours", -30, 30), IntArg("minutes", -10, 200)],
    ensures=[("minutes", "spec.ofxdt.td_us(result) == 60000000 * spec.ofxdt.offset_minutes(-1 if hours < 0 else 1, abs(hours), minutes)")],
    raises=[(AssertionError, "hours < -12 or hours > 14 or minutes < 0", "must")],
    props=["C09"], kind="helper"))


# ------------------------------------------------------------------------ DateTime / Time .convert(text): accepted notations
def accept_contracts(with_date):
    cls = Types.DateTime if with_date else Types.Time
    out = []
    for tp, off in all_shapes(with_date):
        arg = shape(with_date, tp, off)
        e = fields_expr(with_date, tp, off)
        inst_ms = f"spec.ofxdt.instant_ms({e['y']}, {e['mo']}, {e['d']}, {e['h']}, {e['mi']}, {e['s']}, {e['ms']}, {e['off']})"
        if with_date:
            ens = [("utc", "spec.ofxdt.is_utc(result)"),
                   ("instant", f"spec.ofxdt.value_instant_us(result) == 1000 * {inst_ms}")]
        else:
            ens = [("utc", "spec.ofxdt.is_utc(result)"),
                   ("instant", f"spec.ofxdt.time_of_day_us(result) == (1000 * {inst_ms}) % 86400000000")]
        out.append(Contract(
            f"ofxtools.Types:{cls.__name__}.convert",
            args=[dtinst(cls), arg], call=meth("convert"),
            requires=valid_req(e, with_date),
            ensures=ens,
            gen=gen_for_shape(arg, e, with_date),
            notes=f"shape date={with_date} time_part={tp} offset={off}",
            props=["C09"], max_paths=600))
    return out


CONTRACTS += accept_contracts(True)
CONTRACTS += accept_contracts(False)

# ------------------------------------------------------------------------ writers
W0 = len(CONTRACTS)
CONTRACTS += [
    # format_datetime via DateTime.unconvert: lexically valid, denotes the instant rounded half-up to the millisecond
    Contract("ofxtools.Types:DateTime.unconvert",
             args=[dtinst(), DatetimeArg("value", aware=True)], call=meth("unconvert"),
             ensures=[("C11-lexical", "spec.ofxdt.written_ok(result, True)"),
                      ("valid-fields", "spec.ofxdt.fields_valid(spec.ofxdt.parse_written(result, True))"),
                      ("instant", "spec.ofxdt.written_instant_ms(result, True) == spec.ofxdt.round_half_up_ms(spec.ofxdt.value_instant_us(value))")],
             props=["C09", "C11", "C10"], max_paths=3000),
    Contract("ofxtools.Types:DateTime.unconvert",
             args=[dtinst(), DatetimeArg("value", aware=False)], call=meth("unconvert"),
             raises=[(ValueError, "True", "must")], props=["C09", "C10", "C11"]),
    # the edges of the calendar (year 1, year 9999 up to the last microsecond): whatever is written is well-formed and
    # denotes the instant; a value whose rounded instant does not exist (24:00 on 31 December 9999) may be refused
    Contract("ofxtools.Types:DateTime.unconvert",
             args=[dtinst(), OneOfArg("value", [datetime.datetime(9999, 12, 31, 23, 59, 59, us, tzinfo=tz_) for us in (0, 499, 999000, 999499, 999500, 999999)
                                                for tz_ in (utils.UTC, datetime.timezone(datetime.timedelta(hours=-5)), datetime.timezone(datetime.timedelta(hours=14)))]
                                      + [datetime.datetime(1, 1, 1, 0, 0, 0, us, tzinfo=utils.UTC) for us in (0, 500, 999999)]
                                      + [datetime.datetime(y_, 6, 15, 12, 30, 45, 123456, tzinfo=utils.UTC) for y_ in (9, 99, 999, 1000)]
                                      + [datetime.datetime.max.replace(tzinfo=utils.UTC), datetime.datetime.min.replace(tzinfo=utils.UTC)])],
             call=meth("unconvert"),
             ensures=[("C11-lexical", "spec.ofxdt.written_ok(result, True)"),
                      ("valid-fields", "spec.ofxdt.fields_valid(spec.ofxdt.parse_written(result, True))")],
             raises=[(OverflowError, "value.year == 9999 and value.microsecond >= 999500", "may")],
             native_only=True, samples=120, notes="first and last representable instants", props=["C09", "C11", "C10"]),
    Contract("ofxtools.Types:DateTime.unconvert",
             args=[dtinst(), OneOfArg("value", [3, "20200101", 2.5, datetime.date(2020, 1, 1)])], call=meth("unconvert"),
             raises=[(TypeError, "True", "must")], props=["C09", "C10", "C11"]),
    Contract("ofxtools.Types:DateTime.unconvert",
             args=[dtinst(), Const("value", None)], call=meth("unconvert"),
             ensures=[("none", "result is None")], raises=[(OFXSpecError, "self.required", "must")], props=["C10"]),
    Contract("ofxtools.Types:DateTime.convert",
             args=[dtinst(), OneOfArg("value", [None])], call=meth("convert"),
             ensures=[("none", "result is None")], raises=[(OFXSpecError, "self.required", "must")], props=["C10"]),
    Contract("ofxtools.Types:DateTime.convert",
             args=[dtinst(), DatetimeArg("value", aware=True)], call=meth("convert"),
             ensures=[("identity", "result is value")], props=["C10"]),
    Contract("ofxtools.Types:DateTime.convert",
             args=[dtinst(), DatetimeArg("value", aware=False)], call=meth("convert"),
             raises=[(ValueError, "True", "must")], props=["C09", "C10"]),
    Contract("ofxtools.Types:DateTime.convert",
             args=[dtinst(), OneOfArg("value", [3, 2.5, b"20200101", datetime.date(2020, 1, 1)])], call=meth("convert"),
             raises=[(TypeError, "True", "must")], props=["C10"]),
    # write-then-read: the original instant to within half a millisecond, as UTC
    Contract("ofxtools.Types:DateTime.convert",
             args=[dtinst(), DatetimeArg("value", aware=True, ylo=1000, yhi=9997)],
             call=lambda it, fn, a: meth("convert")(it, fn, [a[0], meth("unconvert")(it, fn, a)]),
             ensures=[("utc", "spec.ofxdt.is_utc(result)"),
                      ("half-ms", "-500 <= spec.ofxdt.value_instant_us(result) - spec.ofxdt.value_instant_us(value) <= 500")],
             split=["spec.ofxdt.offset_us(value) < 0", "spec.ofxdt.offset_us(value) % 3600000000 == 0",
                    "value.tzname() is None", "value.month < 10", "value.day < 10", "value.hour < 20"], shards=16,
             tier="thorough",
             notes="composite write-then-read through the real reader: thorough tier only (about one CPU-hour); the quick tier proves the same statement as writer contract + reader contracts per shape + the written-form lemmas",
             props=["C09", "C10"], max_paths=3000),
    # Time
    Contract("ofxtools.Types:Time.unconvert",
             args=[dtinst(Types.Time), DatetimeArg("value", aware=True, as_time=True)], call=meth("unconvert"),
             ensures=[("C11-lexical", "spec.ofxdt.written_ok(result, False)"),
                      ("valid-fields", "spec.ofxdt.fields_valid(spec.ofxdt.parse_written(result, False))"),
                      ("instant", "(spec.ofxdt.written_instant_ms(result, False) - spec.ofxdt.round_half_up_ms(spec.ofxdt.time_of_day_us(value) - spec.ofxdt.offset_us(value))) % 86400000 == 0")],
             props=["C09", "C11", "C10"], max_paths=3000),
    Contract("ofxtools.Types:Time.unconvert",
             args=[dtinst(Types.Time), DatetimeArg("value", aware=False, as_time=True)], call=meth("unconvert"),
             raises=[(ValueError, "True", "must")], props=["C09", "C10", "C11"]),
    Contract("ofxtools.Types:Time.convert",
             args=[dtinst(Types.Time), DatetimeArg("value", aware=True, as_time=True)],
             call=lambda it, fn, a: meth("convert")(it, fn, [a[0], meth("unconvert")(it, fn, a)]),
             ensures=[("utc", "spec.ofxdt.is_utc(result)"),
                      ("half-ms", "(spec.ofxdt.time_of_day_us(result) - (spec.ofxdt.time_of_day_us(value) - spec.ofxdt.offset_us(value)) + 500) % 86400000000 <= 1000")],
             props=["C09", "C10"], max_paths=3000),
]

# ------------------------------------------------------------------------ rejection (texts outside the notation)
R0 = len(CONTRACTS)
NONDIGIT = [(0, 47), (58, 0xD7FF), (0xE000, 0x10FFFF)]


def reject_contracts(with_date):
    cls = Types.DateTime if with_date else Types.Time
    out = []
    full = shape(with_date, 2, None)
    n_full = full.maxlen
    good_lengths = {8, 14} if with_date else {6}
    # wrong length, all digits
    for n in range(1, 18):
        if n in good_lengths:
            continue
        out.append(Contract(f"ofxtools.Types:{cls.__name__}.convert",
                            args=[dtinst(cls), StrArg("value", length=n, charset=DIG)], call=meth("convert"),
                            raises=[(OFXSpecError, "True", "must")], notes=f"wrong length {n}", props=["C09", "C10"]))
    # a complete text followed by one more character - any code point, line breaks included
    ANYCH = [(0, 0xD7FF), (0xE000, 0x10FFFF)]
    for tp in (0, 1, 2) if with_date else (1, 2):
        base = shape(with_date, tp, None)
        n0 = base.maxlen
        pp = dict(base.per_pos); pp[n0] = ANYCH
        out.append(Contract(f"ofxtools.Types:{cls.__name__}.convert",
                            args=[dtinst(cls), StrArg("value", length=n0 + 1, per_pos=pp, charset=DIG)], call=meth("convert"),
                            requires=[f"value[{n0}] != '['"] if tp else [f"not (48 <= ord(value[{n0}]) <= 57)"],
                            raises=[(OFXSpecError, "True", "must"), (ValueError, "True", "must")],
                            notes=f"a complete text (time part {tp}) followed by one more character of any kind", props=["C09", "C10"],
                            gen=(lambda base_: lambda rng: [cls(), rng.choice(base_.samples(rng, 4)) + rng.choice(["\n", " ", "\r", "x", "\t", "Z", "+", "\u2028"])])(base)))
    # one field out of range (full form with milliseconds)
    e = fields_expr(with_date, 2, None)
    bad = [("hour", f"{e['h']} > 23"), ("minute", f"{e['mi']} > 59"), ("second", f"{e['s']} > 60")]
    if with_date:
        bad += [("month", f"not (1 <= {e['mo']} <= 12)"), ("day", f"not (1 <= {e['d']} <= 31)")]
    for nm, cond in bad:
        out.append(Contract(f"ofxtools.Types:{cls.__name__}.convert",
                            args=[dtinst(cls), full], call=meth("convert"), requires=[cond],
                            raises=[(OFXSpecError, "True", "must")], notes=f"{nm} out of range", props=["C09", "C10"]))
    # calendar-invalid day (e.g. 31 April, 30 February): refused by the constructor
    if with_date:
        out.append(Contract(f"ofxtools.Types:{cls.__name__}.convert",
                            args=[dtinst(cls), full], call=meth("convert"),
                            requires=[f"1 <= {e['mo']} <= 12 and 1 <= {e['y']} and {e['d']} > spec.ofxdt.days_in_month({e['y']}, {e['mo']})",
                                      f"{e['h']} <= 23 and {e['mi']} <= 59 and {e['s']} <= 59"],
                            raises=[(ValueError, "True", "must")], notes="calendar-invalid day", props=["C09", "C10"]))
    # a non-digit (any other code point, the decimal digits of other scripts included) in any digit position -
    # of the full form and of the shorter forms (bare date, date and time without milliseconds)
    for p in range(n_full):
        if full.per_pos.get(p) == ".":
            continue
        pp = dict(full.per_pos); pp[p] = NONDIGIT
        out.append(Contract(f"ofxtools.Types:{cls.__name__}.convert",
                            args=[dtinst(cls), StrArg("value", length=n_full, per_pos=pp, charset=DIG)], call=meth("convert"),
                            raises=[(OFXSpecError, "True", "must")], notes=f"non-digit at {p}", props=["C09", "C10"]))
    for tp in ((0, 1) if with_date else (1,)):
        short = shape(with_date, tp, None)
        for p in range(short.maxlen):
            pp = dict(short.per_pos); pp[p] = NONDIGIT
            out.append(Contract(f"ofxtools.Types:{cls.__name__}.convert",
                                args=[dtinst(cls), StrArg("value", length=short.maxlen, per_pos=pp, charset=DIG)], call=meth("convert"),
                                raises=[(OFXSpecError, "True", "must")], notes=f"non-digit at {p} of the {short.maxlen}-character form", props=["C09", "C10"]))
    return out


CONTRACTS += reject_contracts(True)
CONTRACTS += reject_contracts(False)

# ------------------------------------------------------------------------ parse_gmt_offset
P0 = len(CONTRACTS)
MIN2 = OptArg(StrArg("minutes", length=2, charset=DIG))
TZN = OptArg(TextArg("tz_name", sampler=lambda r: r.choice(["EST", "PDT", "XYZ", "", "UTC"])))
for signed in (False, True):
    for hd in (1, 2):
        pp = {0: "+-"} if signed else {}
        harg = StrArg("hours", length=hd + (1 if signed else 0), per_pos=pp, charset=DIG)
        o = 1 if signed else 0
        sign = "(-1 if hours[0] == '-' else 1)" if signed else "1"
        mag = f"spec.ofxdt.num(hours[{o}:])"
        mm = "(0 if minutes is None else spec.ofxdt.num(minutes))"
        inrange = f"({mag} <= (12 if {sign} < 0 else 14))"
        CONTRACTS.append(Contract(
            "ofxtools.Types:DateTime.parse_gmt_offset",
            args=[dtinst(), harg, MIN2, TZN],
            ensures=[("offset", f"spec.ofxdt.td_us(result) == 60000000 * spec.ofxdt.offset_minutes({sign}, {mag}, {mm})")],
            raises=[(AssertionError, f"not {inrange}", "must")],
            notes=f"signed={signed} digits={hd}", props=["C09"]))
# unparsable hours: zone table or ValueError
CONTRACTS.append(Contract(
    "ofxtools.Types:DateTime.parse_gmt_offset",
    args=[dtinst(), OneOfArg("hours", ["-", "+", "--", "+-", "-+5"]), Const("minutes", None),
          OptArg(OneOfArg("tz_name", sorted(utils.TZS) + ["XYZ", "", "UTC"]))],
    ensures=[("table", "tz_name in spec.ofxdt.US_ZONES and spec.ofxdt.td_us(result) == 3600000000 * spec.ofxdt.US_ZONES[tz_name]")],
    raises=[(ValueError, "tz_name not in spec.ofxdt.US_ZONES", "must")],
    props=["C09"]))


# ------------------------------------------------------------------------ lemmas over spec functions only
# every text of a written shape is read by the reference reader `parse_written` into exactly the fields the
# reader contracts use for that shape: glue for  writer contract + reader contract  =>  write-then-read
LEMMAS = []
for with_date in (True, False):
    for hd in (1, 2):
        for mins in (False, True):
            for name in (None, 0, 2):
                off = (True, hd, mins, name)
                arg = shape(with_date, 2, off)
                e = fields_expr(with_date, 2, off)
                tup = f"({e['y']}, {e['mo']}, {e['d']}, {e['h']}, {e['mi']}, {e['s']}, {e['ms']}, {e['off']})"
                LEMMAS.append((f"written-form date={with_date} {off}", [arg],
                               f"spec.ofxdt.parse_written(value, {with_date}) == {tup}"))
