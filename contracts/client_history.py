"""Bounded companion of the C15 contract (engine R): all histories of server behaviours up to a stated length
against the real request_profile, with a real cache file in a scratch data directory and the transport
replaced by a script.  Oracle: an independent model of the cache (the newest accepted profile)."""
import datetime, io, itertools, os, shutil, tempfile
import xml.etree.ElementTree as ET
from pathlib import Path
from pyvc.contract import *

BEHAVIOURS = ["newer", "same", "older_subsecond", "older", "uptodate", "error", "garbage", "transport"]
# further server behaviours, used in the extra histories (not in the full product, to keep it small): a newer profile
# sent as an OFXv1 file in Windows-1252 with a non-ASCII institution name, and a newer profile whose date lies ahead of
# the client's clock (server clock ahead / far future)
EXTRA = ["newer_cp1252", "newer_future", "newer_sonrs_date"]
T0 = datetime.datetime(2022, 6, 1, 12, 0, 0, 500000, tzinfo=datetime.timezone.utc)
_cache = {}


def profile_bytes(dt, code=0, url="https://ofx.example.com/ofx", finame="Bank", version=203, charset=None, sonrs_dtprofup=None):
    key = (dt, code, url, finame, version, charset, sonrs_dtprofup)
    if key in _cache:
        return _cache[key]
    from ofxtools import models
    from ofxtools.models.common import MSGSETCORE
    from ofxtools.header import make_header
    from ofxtools.utils import UTC
    skw = {"dtprofup": sonrs_dtprofup} if sonrs_dtprofup is not None else {}       # the sign-on response may carry a profile date of its own
    sonrs = models.SONRS(status=models.STATUS(code=0, severity="INFO"), dtserver=datetime.datetime(2020, 1, 1, tzinfo=UTC), language="ENG", **skw)
    kw = {}
    if dt is not None:
        core = MSGSETCORE("ENG", ver=1, url=url, ofxsec="NONE", transpsec=True, signonrealm="R",
                          syncmode="LITE", respfileer=False)
        bank = models.BANKMSGSET(bankmsgsetv1=models.BANKMSGSETV1(msgsetcore=core, closingavail=True, emailprof=models.EMAILPROF(canemail=False, cannotify=False)))
        profrs = models.PROFRS(msgsetlist=models.MSGSETLIST(models.PROFMSGSET(profmsgsetv1=models.PROFMSGSETV1(msgsetcore=core)), bank),
                               signoninfolist=models.SIGNONINFOLIST(models.SIGNONINFO(signonrealm="R", min=4, max=32, chartype="ALPHAORNUMERIC",
                                                                                      casesen=True, special=True, spaces=False, pinch=False)),
                               dtprofup=dt.astimezone(UTC), finame=finame, addr1="1 Main St", city="S", state="IL", postalcode="60000", country="USA")
        kw["profrs"] = profrs
    trnrs = models.PROFTRNRS(trnuid="1", status=models.STATUS(code=code, severity="INFO" if code in (0, 1) else "ERROR"), **kw)
    ofx = models.OFX(signonmsgsrsv1=models.SIGNONMSGSRSV1(sonrs=sonrs), profmsgsrsv1=models.PROFMSGSRSV1(trnrs))
    if charset is None:
        b = bytes(str(make_header(version=version, newfileuid="NONE")), "utf_8") + ET.tostring(ofx.to_etree(), encoding="utf_8", method="html")
    else:
        # an OFXv1 file in a declared 8-bit character set (what many servers send)
        hdr = str(make_header(version=102, newfileuid="NONE")).replace("ENCODING:USASCII", "ENCODING:USASCII").replace("CHARSET:NONE", f"CHARSET:{charset}")
        b = hdr.encode("ascii") + ET.tostring(ofx.to_etree(), encoding="unicode", method="html").encode({"1252": "cp1252", "ISO-8859-1": "latin_1"}[charset])
    _cache[key] = b
    return b


def dt_of(data):
    from ofxtools.Parser import OFXTree
    p = OFXTree(); p.parse(io.BytesIO(data))
    return p.convert().profmsgsrsv1[0].profrs.dtprofup


def run_history(it, fn, a):
    history, restart_at = a
    from ofxtools import config
    from ofxtools.Client import OFXClient
    tmp = tempfile.mkdtemp(prefix="verif-c15-")
    old = config.DATADIR
    config.DATADIR = Path(tmp) / "ofxtools"
    problems = []
    try:
        path = config.DATADIR / "fiprofiles" / "ORG-77.profrs"
        held = None            # oracle: newest accepted profile (bytes) and its date
        held_dt = None
        script = {"next": None, "asked": []}

        class Scripted(OFXClient):
            def post_request(self, url, serialized_request, timeout):
                from ofxtools.Parser import OFXTree
                p = OFXTree(); p.parse(io.BytesIO(serialized_request))
                script["asked"].append(p.convert().profmsgsrqv1[0].profrq.dtprofup)
                r = script["next"]
                if isinstance(r, Exception):
                    raise r
                return r
        client = Scripted("https://ofx.example.com/ofx", org="ORG", fid="77")
        clock = T0
        for i, b in enumerate(history):
            # "<behaviour>@np": this call passes persist=False; "@scan": the options ofxget's profile scan overrides
            b, _, opt = b.partition("@")
            callkw = {"np": {"persist": False}, "scan": {"version": 102, "prettyprint": True, "close_elements": False}, "": {}}[opt]
            if i == restart_at:
                client = Scripted("https://ofx.example.com/ofx", org="ORG", fid="77")
            base = held_dt or T0
            resp_dt = None
            if b == "newer":
                clock = max(clock, base) + datetime.timedelta(days=1, milliseconds=250)
                resp_dt = clock; resp = profile_bytes(resp_dt)
            elif b == "newer_cp1252":
                clock = max(clock, base) + datetime.timedelta(days=1, milliseconds=250)
                resp_dt = clock; resp = profile_bytes(resp_dt, finame="Caf\u00e9 Bank \u20ac", charset="1252")
            elif b == "newer_sonrs_date":
                # the sign-on response carries its own (optional) DTPROFUP, years later than the profile's: the date of the
                # profile held is the PROFRS one
                clock = max(clock, base) + datetime.timedelta(days=1, milliseconds=250)
                resp_dt = clock; resp = profile_bytes(resp_dt, sonrs_dtprofup=datetime.datetime(2033, 5, 5, tzinfo=datetime.timezone.utc))
            elif b == "newer_future":
                clock = max(clock, base, datetime.datetime(2035, 1, 1, 6, 0, 0, 250000, tzinfo=datetime.timezone.utc)) + datetime.timedelta(days=1)
                resp_dt = clock; resp = profile_bytes(resp_dt)
            elif b == "same":
                resp_dt = base; resp = profile_bytes(resp_dt)
            elif b == "older_subsecond":
                resp_dt = base - datetime.timedelta(milliseconds=300); resp = profile_bytes(resp_dt)
            elif b == "older":
                resp_dt = base - datetime.timedelta(days=2); resp = profile_bytes(resp_dt)
            elif b == "uptodate":
                resp = profile_bytes(None, code=1)
            elif b == "error":
                resp = profile_bytes(None, code=2000)
            elif b == "garbage":
                resp = b"OFXHEADER:100\r\nthis is not OFX <<<"
            else:
                resp = OSError("connection reset")
            script["next"] = resp
            before = path.read_bytes() if path.exists() else None
            n_asked = len(script["asked"])
            try:
                out = client.request_profile(**callkw).read()
                ok = True
            except Exception as ex:
                ok = False
                out = ex
            after = path.read_bytes() if path.exists() else None
            # the request carried the date of the profile then held
            if len(script["asked"]) > n_asked:
                asked = script["asked"][-1]
                want = held_dt if held is not None else datetime.datetime(1990, 1, 1, tzinfo=datetime.timezone.utc)
                if asked != want:
                    problems.append(f"step {i} {b}: asked with {asked}, held {want}")
            accept_new = b in ("newer", "same", "newer_cp1252", "newer_future", "newer_sonrs_date") or (held is None and b in ("older_subsecond", "older"))
            if accept_new:
                if not ok or out != resp:
                    problems.append(f"step {i} {b}: expected the new profile, got {out!r:.80}")
                held, held_dt = resp, resp_dt
                if after != resp:
                    problems.append(f"step {i} {b}: cache is not the accepted profile")
            elif b == "uptodate" and held is not None:
                if not ok or out != held:
                    problems.append(f"step {i} uptodate: did not return the newest profile sent")
                if after != before:
                    problems.append(f"step {i} uptodate: cache changed")
            else:
                if ok:
                    problems.append(f"step {i} {b}: call succeeded, returned {out!r:.60}")
                if after != before:
                    problems.append(f"step {i} {b}: failing call changed the cache")
            if after is not None:
                try:
                    d = dt_of(after)
                    if held_dt is not None and d < held_dt:
                        problems.append(f"step {i} {b}: cache went back to {d}")
                except Exception as ex:
                    problems.append(f"step {i} {b}: cache is not one complete profile ({type(ex).__name__})")
        return problems
    finally:
        config.DATADIR = old
        shutil.rmtree(tmp, ignore_errors=True)


def cases(tier):
    n = 4 if tier == "thorough" else 3
    out = []
    for ln in range(1, n + 1):
        for h in itertools.product(BEHAVIOURS, repeat=ln):
            for restart in ([None] + list(range(1, ln)) if ln <= 3 else [None, 2]):
                out.append([list(h), restart])
    # the same statement whatever options the caller passes to request_profile
    opts = ["", "@np", "@scan"]
    for ln in (1, 2, 3):
        for h in itertools.product(BEHAVIOURS if ln < 3 else ["newer", "older", "uptodate", "error"], repeat=ln):
            for o in itertools.product(opts, repeat=ln):
                if any(o):
                    out.append([[b + x for b, x in zip(h, o)], None])
    for x in EXTRA:
        for tail in (["uptodate"], ["newer"], ["older"], ["same"], ["uptodate", "newer"]):
            for restart in (None, 1):
                out.append([["newer", x] + tail, restart])
                out.append([[x] + tail, restart])
    return out


class A_(Arg):
    def __init__(self, name):
        self.name = name


CONTRACTS = [
    Contract("ofxtools.Client:OFXClient.request_profile", args=[A_("history"), A_("restart_at")], call=run_history,
             ensures=[("history-clean", "result == []")], cases=cases, native_only=True, shards=16,
             notes="all histories of length <= 3 (4 in thorough) over {newer, same date, older by 300 ms, older, up-to-date, error status, garbage, transport failure} x client restarted at any step, real cache file, scripted transport; sequential only",
             props=["C15"]),
]


# =============================================================================== two institutions, one data directory
# The cache is per institution: what one institution's server sent must never be offered to, returned for, or
# overwritten by another institution (another ORG/FID pair) - whatever characters the identifiers contain.
# (Two servers with the SAME ORG/FID and different URLs do share an entry: known finding KF-C15-cache-key-ignores-url.)
IDENTS = [("ORG", "77"), ("ORG", "78"), ("ORG2", "77"), ("A&B Bank", "1"), ("A+B Bank", "1"), ("A B Bank", "1"), ("A_B Bank", "1"),
          ("AB", "C"), ("A", "BC"), ("org", "77"), ("ÖRG", "77"), ("ORG.", "77"), ("ORG", "7.7"), ("ORG", "7-7"), ("ORG-7", "7"),
          # dots in the ORG (institutions use their domain name): two entries of the FI database that ship with the library
          ("msdw.com", "1235"), ("msdw.com", "14137"), ("a.b", "1"), ("a.b", "2")]


def run_two(it, fn, a):
    (org1, fid1), (org2, fid2) = a
    from ofxtools import config
    from ofxtools.Client import OFXClient
    tmp = tempfile.mkdtemp(prefix="verif-c15b-")
    old = config.DATADIR
    config.DATADIR = Path(tmp) / "ofxtools"
    problems = []
    try:
        asked = []

        class Scripted(OFXClient):
            reply = None

            def post_request(self, url, serialized_request, timeout):
                from ofxtools.Parser import OFXTree
                p = OFXTree(); p.parse(io.BytesIO(serialized_request))
                asked.append((self.org, p.convert().profmsgsrqv1[0].profrq.dtprofup))
                return self.reply
        T1 = T0
        T2 = T0 + datetime.timedelta(days=30)
        c1 = Scripted("https://one.example/ofx", org=org1, fid=fid1)
        c2 = Scripted("https://two.example/ofx", org=org2, fid=fid2)
        c1.reply = profile_bytes(T1)
        try:
            r1 = c1.request_profile().read()
        except Exception as ex:
            return [] if "/" in org1 + fid1 else [f"first institution: {type(ex).__name__}: {ex}"]
        c2.reply = profile_bytes(T2)
        try:
            r2 = c2.request_profile().read()
        except Exception as ex:
            return [f"second institution: {type(ex).__name__}: {ex}"]
        if asked[-1][1] is not None and asked[-1][1].year > 1990:
            problems.append(f"{org2!r}/{fid2!r} was asked with the profile date {asked[-1][1]} of {org1!r}/{fid1!r}")
        if r2 != profile_bytes(T2):
            problems.append("second institution was served something else than its own server's profile")
        # the first institution's entry is untouched: an 'up to date' answer returns ITS profile
        c1.reply = profile_bytes(None, code=1)
        try:
            r1b = c1.request_profile().read()
            if r1b != profile_bytes(T1):
                problems.append(f"{org1!r}/{fid1!r} is now served the profile of {org2!r}/{fid2!r}" if r1b == profile_bytes(T2) else "first institution's cached profile changed")
        except Exception as ex:
            problems.append(f"first institution after the second: {type(ex).__name__}: {ex}")
        return problems
    finally:
        config.DATADIR = old
        shutil.rmtree(tmp, ignore_errors=True)


def cases_two(tier):
    # pairs whose "ORG-FID" texts coincide (a '-' shifted between ORG and FID) are the known finding
    # KF-C15-cache-key-hyphen-shift: carved out here, replayed on its own on every run
    return [[a, b] for a in IDENTS for b in IDENTS if a != b and f"{a[0]}-{a[1]}" != f"{b[0]}-{b[1]}"]


CONTRACTS.append(
    Contract("ofxtools.Client:OFXClient.request_profile", args=[A_("first"), A_("second")], call=run_two,
             ensures=[("institutions-do-not-share-a-cache-entry", "result == []")], cases=cases_two, native_only=True, shards=8,
             notes="every ordered pair of 19 distinct ORG/FID pairs (punctuation, blanks, case, non-ASCII, a '-' moved between ORG and FID): the second institution is asked without a date and served its own profile, the first keeps its own",
             props=["C15"]))
