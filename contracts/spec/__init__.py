"""Spec functions: pure Python written from the property statements and the public rules they cite,
never by calling or copying the code under verification.  They are inside the pyvc subset, so they
are both executable natively (independent reference implementation) and symbolically evaluable."""
from . import secid, ofxtypes, ofxdt, header, aggregate, groom, shortcuts, client, render, ofxget
