#!/bin/sh
# Offline setup: verify the tools the checks need and byte-compile the framework.
set -e
cd "$(dirname "$0")"
for t in python3-vt /venv/bin/python z3 cvc5 lean; do
  command -v "$t" >/dev/null 2>&1 || { echo "missing tool: $t"; exit 1; }
done
python3-vt -c "import z3, cvc5" 
python3-vt -m compileall -q pyvc vlib contracts props >/dev/null
mkdir -p evidence replays .cache
echo "setup ok"
