"""Sidecar contracts for ofxtools.Types: Bool, String, NagString, OneOf, Integer, ListElement,
SubAggregate/ListAggregate (properties C10, C11).  Instance parameters (length, required, valid) are
symbolic, so one proof covers every parameterisation."""
from pyvc.contract import *
from ofxtools import Types
from ofxtools.Types import OFXSpecError, OFXTypeWarning


TEXT_POOL = ["", "Y", "N", "y", "1", "12", "-7", "+3", "007", "1_0", " 1", "abc", "AT&T", "&lt;", "a&amp;b", "&nbsp;", "x" * 40,
             "é€", "<", "&", "&amp;lt;", "&amp;amp;", "x&amp;nbsp;y", "&amp;quot;", "&lt;&amp;gt;", "1.5", "1,5", "TYPE1", "NONE", "١٢", "1e3", "--1", "-", "+",
             # numbers no binary float can hold, limits of digit counts, texts a lenient number parser would take
             "9007199254740993", "-9007199254740993", "12345678901234567890", "999999999999999999", "1000000000000000000", "100.00", "1e16", "0x10", "1 000",
             "ab  cd", "a\tb", "x" * 32, "x" * 33, "a b ", " a",
             # ampersands that start no OFX entity (HTML would read some of them as character references)
             "good&times2024", "tom&micro", "4111&lt1111", "R&#38D", "&#38;", "&#x26;", "&copy;", "&amp", "&quot;", "&apos;"]


def text_sampler(rng):
    pool = TEXT_POOL
    if rng.random() < 0.7:
        return rng.choice(pool)
    alpha = "aZ09 &<>;\"'é€lt_+-."
    return "".join(rng.choice(alpha) for _ in range(rng.randint(1, 9)))


text_sampler.pool = TEXT_POOL


def T(name="value", nonempty=False):
    return TextArg(name, sampler=text_sampler, nonempty=nonempty)


def inst(cls, **fields):
    def build(**kw):
        req = kw.pop("required", False)
        if cls in (Types.String, Types.NagString, Types.Integer):
            return cls(kw.get("length"), required=req)
        if cls is Types.OneOf:
            return cls(*kw["valid"], required=req)
        return cls(required=req)
    return InstArg("self", cls, fields, build)


REQ = BoolArg("required")
LEN = OptArg(IntArg("length", 1, 64))
OTHER_TYPES = OneOfArg("value", [3, 2.5, b"Y", (1,), Types.Bool])

CONTRACTS = [
    # ------------------------------------------------------------------ enforce_required   0
    Contract("ofxtools.Types:Element.enforce_required",
             args=[inst(Types.Bool, required=REQ), OptArg(T())],
             ensures=[("identity", "result is value")],
             raises=[(OFXSpecError, "value is None and self.required", "must")],
             props=["C10"], kind="helper"),
    # ------------------------------------------------------------------ Bool               1..4
    Contract("ofxtools.Types:Bool.convert",
             args=[inst(Types.Bool, required=REQ), T()], call=meth("convert"),
             ensures=[("value", "result == spec.ofxtypes.bool_value(value)")],
             raises=[(OFXSpecError, "value != 'Y' and value != 'N'", "must")],
             props=["C10"]),
    Contract("ofxtools.Types:Bool.convert",
             args=[inst(Types.Bool, required=REQ), OneOfArg("value", [None, True, False])], call=meth("convert"),
             ensures=[("passthrough", "result is value")],
             raises=[(OFXSpecError, "value is None and self.required", "must")],
             props=["C10"]),
    Contract("ofxtools.Types:Bool.convert",
             args=[inst(Types.Bool, required=REQ), OTHER_TYPES], call=meth("convert"),
             raises=[(OFXSpecError, "True", "must")],
             props=["C10"]),
    Contract("ofxtools.Types:Bool.unconvert",
             args=[inst(Types.Bool, required=REQ), OneOfArg("value", [None, True, False])], call=meth("unconvert"),
             ensures=[("text", "(value is None and result is None) or (value is True and result == 'Y') or (value is False and result == 'N')"),
                      ("C11-lexical", "result is None or result == 'Y' or result == 'N'")],
             raises=[(OFXSpecError, "value is None and self.required", "must")],
             props=["C10", "C11"]),
    # 5: wrong python type on write is refused
    Contract("ofxtools.Types:Bool.unconvert",
             args=[inst(Types.Bool, required=REQ), OneOfArg("value", [3, "Y", 2.5, b"Y"])], call=meth("unconvert"),
             raises=[(OFXSpecError, "True", "must")],
             props=["C10", "C11"]),
    # ------------------------------------------------------------------ String             6..
    Contract("ofxtools.Types:String.convert",
             args=[inst(Types.String, required=REQ, length=LEN), T()], call=meth("convert"),
             ensures=[("value", "value != '' and result == spec.ofxtypes.decode_entities(value)"),
                      ("within-limit", "self.length is None or len(result) <= self.length")],
             raises=[(OFXSpecError, "(value == '' and self.required) or (self.length is not None and len(spec.ofxtypes.decode_entities(value)) > self.length)", "must")],
             requires=["not (value == '' and not self.required)"],
             props=["C10"]),
    Contract("ofxtools.Types:String.convert",
             args=[inst(Types.String, required=REQ, length=LEN), OneOfArg("value", ["", None])], call=meth("convert"),
             ensures=[("none", "result is None")],
             raises=[(OFXSpecError, "self.required", "must")],
             props=["C10"]),
    Contract("ofxtools.Types:String.convert",
             args=[inst(Types.String, required=REQ, length=LEN), OTHER_TYPES], call=meth("convert"),
             raises=[(TypeError, "True", "must")],
             props=["C10"]),
    Contract("ofxtools.Types:String.unconvert",
             args=[inst(Types.String, required=REQ, length=LEN), T()], call=meth("unconvert"),
             ensures=[("identity", "result == value"),
                      ("C11-within-limit", "self.length is None or len(result) <= self.length")],
             raises=[(OFXSpecError, "self.length is not None and len(value) > self.length", "must")],
             props=["C10", "C11"]),
    Contract("ofxtools.Types:String.unconvert",
             args=[inst(Types.String, required=REQ, length=LEN), Const("value", None)], call=meth("unconvert"),
             ensures=[("none", "result is None")],
             raises=[(OFXSpecError, "self.required", "must")],
             props=["C10"]),
    Contract("ofxtools.Types:String.unconvert",
             args=[inst(Types.String, required=REQ, length=LEN), OTHER_TYPES], call=meth("unconvert"),
             raises=[(TypeError, "True", "must")],
             props=["C10", "C11"]),
    # 12: write-then-read: values free of '&' come back unchanged (values holding an entity: known finding)
    Contract("ofxtools.Types:String.convert",
             args=[inst(Types.String, required=REQ, length=LEN), T(nonempty=True)],
             call=lambda it, fn, a: meth("convert")(it, fn, [a[0], meth("unconvert")(it, fn, a)]),
             requires=["self.length is None or len(value) <= self.length"],
             kf=[("KF-C10-string-entity", "spec.ofxtypes.has_entity(value)")],
             ensures=[("roundtrip", "result == value")],
             notes="proved for values without '&'; '&' not starting an entity is covered by the bounded native evaluation only",
             requires_symbolic=["'&' not in value"],
             props=["C10"]),
    # 13: read-then-write gives a canonical text that reads to the same value and is a fixed point
    Contract("ofxtools.Types:String.unconvert",
             args=[inst(Types.String, required=REQ, length=LEN), T(nonempty=True)],
             call=lambda it, fn, a: meth("unconvert")(it, fn, [a[0], meth("convert")(it, fn, a)]),
             requires=["self.length is None or len(spec.ofxtypes.decode_entities(value)) <= self.length"],
             ensures=[("canonical", "result == spec.ofxtypes.decode_entities(value)")],
             props=["C10"]),
    # ------------------------------------------------------------------ NagString          14..15
    Contract("ofxtools.Types:NagString.convert",
             args=[inst(Types.NagString, required=REQ, length=LEN), T(nonempty=True)], call=meth("convert"),
             ensures=[("kept-whole", "result == spec.ofxtypes.decode_entities(value)"),
                      ("warns-iff-overlong", "(len(ghost['warnings']) == 1) == (self.length is not None and len(result) > self.length)")],
             props=["C10"]),
    Contract("ofxtools.Types:NagString.unconvert",
             args=[inst(Types.NagString, required=REQ, length=LEN), T()], call=meth("unconvert"),
             ensures=[("kept-whole", "result == value"),
                      ("warns-iff-overlong", "(len(ghost['warnings']) == 1) == (self.length is not None and len(value) > self.length)")],
             props=["C10"]),
]

VALID3 = TupleArg("valid", [TextArg("tok0", nonempty=True, sampler=lambda r: "CALL"),
                            TextArg("tok1", nonempty=True, sampler=lambda r: "PUT"),
                            TextArg("tok2", nonempty=True, sampler=lambda r: "X&Y")])
INTLEN = OptArg(IntArg("length", 1, 18))

CONTRACTS += [
    # ------------------------------------------------------------------ OneOf              16..19
    Contract("ofxtools.Types:OneOf.convert",
             args=[inst(Types.OneOf, required=REQ, valid=VALID3), T(nonempty=True)], call=meth("convert"),
             ensures=[("member", "result == value and value in self.valid")],
             raises=[(OFXSpecError, "value not in self.valid", "must")],
             props=["C10"]),
    Contract("ofxtools.Types:OneOf.convert",
             args=[inst(Types.OneOf, required=REQ, valid=VALID3), OneOfArg("value", ["", None])], call=meth("convert"),
             ensures=[("none", "result is None")],
             raises=[(OFXSpecError, "self.required", "must")],
             props=["C10"]),
    Contract("ofxtools.Types:OneOf.unconvert",
             args=[inst(Types.OneOf, required=REQ, valid=VALID3), OptArg(T(nonempty=True))], call=meth("unconvert"),
             ensures=[("member", "result is value and (value is None or value in self.valid)"),
                      ("C11-token", "result is None or result in self.valid")],
             raises=[(OFXSpecError, "(value is None and self.required) or (value is not None and value not in self.valid)", "must")],
             props=["C10", "C11"]),
    Contract("ofxtools.Types:OneOf.convert",
             args=[inst(Types.OneOf, required=REQ, valid=VALID3), OneOfArg("value", [3, 2.5, b"CALL"])], call=meth("convert"),
             raises=[(OFXSpecError, "True", "must")],
             props=["C10"]),
    # ------------------------------------------------------------------ Integer            20..
    Contract("ofxtools.Types:Integer.convert",
             args=[inst(Types.Integer, required=REQ, length=INTLEN), T(nonempty=True)], call=meth("convert"),
             kf=[("KF-C10-int-lenient", "spec.ofxtypes.lenient_int_text(value)")],
             ensures=[("value", "spec.ofxtypes.is_int_text(value) and result == spec.ofxtypes.int_value(value)"),
                      ("within-limit", "self.length is None or -spec.ofxtypes.ten_to(self.length) < result < spec.ofxtypes.ten_to(self.length)")],
             raises=[(ValueError, "not spec.ofxtypes.python_int_accepts(value)", "must"),
                     (OFXSpecError, "self.length is not None and spec.ofxtypes.python_int_accepts(value) and abs(spec.ofxtypes.int_value(value)) >= spec.ofxtypes.ten_to(self.length)", "must")],
             props=["C10"]),
    Contract("ofxtools.Types:Integer.convert",
             args=[inst(Types.Integer, required=REQ, length=INTLEN), OneOfArg("value", ["", None])], call=meth("convert"),
             ensures=[("none", "result is None")],
             raises=[(OFXSpecError, "self.required", "must")],
             props=["C10"]),
    Contract("ofxtools.Types:Integer.convert",
             args=[inst(Types.Integer, required=REQ, length=INTLEN), IntArg("value", -10**20, 10**20)], call=meth("convert"),
             ensures=[("identity", "result == value"),
                      ("boundary", "self.length is None or -spec.ofxtypes.ten_to(self.length) + 1 <= value <= spec.ofxtypes.ten_to(self.length) - 1")],
             raises=[(OFXSpecError, "self.length is not None and abs(value) >= spec.ofxtypes.ten_to(self.length)", "must")],
             props=["C10"]),
    Contract("ofxtools.Types:Integer.unconvert",
             args=[inst(Types.Integer, required=REQ, length=INTLEN), IntArg("value", -10**20, 10**20)], call=meth("unconvert"),
             ensures=[("reads-back", "spec.ofxtypes.is_int_lexical(result) and spec.ofxtypes.int_value(result) == value")],
             raises=[(OFXSpecError, "self.length is not None and abs(value) >= spec.ofxtypes.ten_to(self.length)", "must")],
             props=["C10", "C11"]),
    Contract("ofxtools.Types:Integer.unconvert",
             args=[inst(Types.Integer, required=REQ, length=INTLEN), Const("value", None)], call=meth("unconvert"),
             ensures=[("none", "result is None")],
             raises=[(OFXSpecError, "self.required", "must")],
             props=["C10"]),
    Contract("ofxtools.Types:Integer.unconvert",
             args=[inst(Types.Integer, required=REQ, length=INTLEN), OneOfArg("value", ["12", 2.5, b"1"])], call=meth("unconvert"),
             raises=[(TypeError, "True", "must")],
             props=["C10", "C11"]),
    # 26: bool is an int for dispatch: Integer.unconvert(True) writes 'True'  (known finding, C10/C11)
    Contract("ofxtools.Types:Integer.unconvert",
             args=[inst(Types.Integer, required=REQ, length=INTLEN), OneOfArg("value", [True, False])], call=meth("unconvert"),
             kf=[("KF-C11-int-bool", "value is True or value is False")],
             raises=[(TypeError, "True", "must")],
             native_only=True,
             props=["C10", "C11"]),
]

from ofxtools.models.bank.stmt import STMTTRN, LEDGERBAL
from ofxtools.models.base import Aggregate


def _agg_samples():
    import datetime, decimal
    from ofxtools.utils import UTC
    return [LEDGERBAL(balamt=decimal.Decimal("1.00"), dtasof=datetime.datetime(2020, 1, 1, tzinfo=UTC))]


class AggArg(Arg):
    """an instance of a given aggregate class (abstract heap object; only its class matters here)"""

    def __init__(self, name, cls, make_real):
        self.name = name; self.cls = cls; self.make_real = make_real

    def make(self, it):
        return SObj(self.cls, {"__items__": []}, fresh=False, label=self.name), []

    def concretize(self, model, value):
        return self.make_real()

    def samples(self, rng, n):
        return [self.make_real()]


def _outcome(it, obj, meth_, value):
    """(kind, value-or-exception-class) of obj.<meth_>(value), natively"""
    try:
        return ("ok", getattr(obj, meth_)(value))
    except Exception as ex:
        return ("raised", type(ex).__name__)


def subagg(cls, T_):
    def build(**kw):
        return cls(T_, required=kw.get("required", False))
    return InstArg("self", cls, {"required": REQ, "__type__": T_}, build)


CONTRACTS += [
    # ------------------------------------------------------------------ ListElement        27..28
    Contract("ofxtools.Types:ListElement.convert",
             args=[InstArg("self", Types.ListElement, {"converter": Types.String(32), "required": False},
                           lambda **kw: Types.ListElement(Types.String(32))), T()],
             call=meth("convert"),
             ensures=[("delegates", "result == spec.ofxtypes.via(self.converter, 'convert', value)")],
             raises=[(OFXSpecError, "len(spec.ofxtypes.decode_entities(value)) > 32", "must")],
             props=["C10"]),
    Contract("ofxtools.Types:ListElement.unconvert",
             args=[InstArg("self", Types.ListElement, {"converter": Types.String(32), "required": False},
                           lambda **kw: Types.ListElement(Types.String(32))), T()],
             call=meth("unconvert"),
             ensures=[("delegates", "result == spec.ofxtypes.via(self.converter, 'unconvert', value)")],
             raises=[(OFXSpecError, "len(value) > 32", "must")],
             props=["C10", "C11"]),
    # ListElement is a pure delegate: whatever the wrapped converter does with a value - None included, whether the
    # wrapped converter is required or not, whatever its type - is what the list element does
] + [
    Contract(f"ofxtools.Types:ListElement.{meth_}",
             args=[InstArg("self", Types.ListElement, {"converter": inner, "required": False}, (lambda inner_: lambda **kw: Types.ListElement(inner_))(inner)),
                   OneOfArg("value", vals)],
             call=(lambda m_: lambda it, fn, a: (lambda r: r)(_outcome(it, a[0], m_, a[1])))(meth_),
             ensures=[("same-outcome-as-the-wrapped-converter", "result == spec.ofxtypes.outcome_of(self.converter, " + repr(meth_) + ", value)")],
             notes=f"ListElement({type(inner).__name__}(required={inner.required})).{meth_} over None and typical / refused values", native_only=True, samples=40,
             props=["C10", "C04"])
    for inner, vals in ((Types.String(4, required=True), [None, "", "abcd", "abcde", 3]), (Types.String(4), [None, "ab", "abcde"]),
                        (Types.Integer(4, required=True), [None, "12", "-2024", 2024, -2024, 20240, "x"]), (Types.Integer(4), [None, 7, -99999]),
                        (Types.OneOf("A", "B", required=True), [None, "A", "C"]), (Types.Bool(required=True), [None, "Y", True, "Q"]))
    for meth_ in ("convert", "unconvert")
] + [
    # ------------------------------------------------------------------ SubAggregate / ListAggregate  29..32
    Contract("ofxtools.Types:SubAggregate.convert",
             args=[subagg(Types.SubAggregate, LEDGERBAL), AggArg("value", LEDGERBAL, lambda: _agg_samples()[0])], call=meth("convert"),
             ensures=[("identity", "result is value")], props=["C10"]),
    Contract("ofxtools.Types:SubAggregate.convert",
             args=[subagg(Types.SubAggregate, STMTTRN), AggArg("value", LEDGERBAL, lambda: _agg_samples()[0])], call=meth("convert"),
             raises=[(TypeError, "True", "must")], props=["C10"]),
    Contract("ofxtools.Types:SubAggregate.convert",
             args=[subagg(Types.SubAggregate, STMTTRN), Const("value", None)], call=meth("convert"),
             ensures=[("none", "result is None")],
             raises=[(OFXSpecError, "self.required", "must")], props=["C10"]),
    Contract("ofxtools.Types:ListAggregate.unconvert",
             args=[subagg(Types.ListAggregate, STMTTRN), AggArg("value", LEDGERBAL, lambda: _agg_samples()[0])], call=meth("unconvert"),
             raises=[(TypeError, "True", "must")], props=["C10"]),
]

# whole numbers that arrive as another numeric type (Decimal, float, Fraction) take Integer.convert's default arm: the
# declared digit limit holds for them exactly as for ints and texts (C04: maximum integer digits, keyword route)
import decimal as _decimal, fractions as _fractions
WHOLE_NUMBERS = [_decimal.Decimal(10) ** k + d for k in (1, 3, 6, 9) for d in (-1, 0)] + [float(10 ** k + d) for k in (1, 3, 6, 9) for d in (-1, 0)] + \
                [-(_decimal.Decimal(10) ** k) for k in (1, 3, 6)] + [_fractions.Fraction(10 ** 6, 1), _decimal.Decimal("1E+6"), _decimal.Decimal("7"), 7.0]
CONTRACTS.append(
    Contract("ofxtools.Types:Integer.convert",
             args=[inst(Types.Integer, required=REQ, length=INTLEN), OneOfArg("value", WHOLE_NUMBERS)], call=meth("convert"),
             ensures=[("value", "result == int(value) and type(result) is int"),
                      ("within-limit", "self.length is None or abs(result) < 10 ** self.length")],
             raises=[(OFXSpecError, "self.length is not None and abs(int(value)) >= 10 ** self.length", "must")],
             native_only=True, samples=600,
             notes="whole numbers given as Decimal / float / Fraction (default dispatch arm)",
             props=["C10", "C04"]))
