import sys, time
import os; sys.path[:0]=['/verif', os.environ.get('VERIF_REPO','/repo')]
import importlib, z3
from vlib.common import Report
from pyvc.contract import Verifier
from pyvc import core
cm=importlib.import_module(sys.argv[1]); i=int(sys.argv[2])
rep=Report("X","quick",0); v=Verifier(rep,"X",sys.argv[1],0)
orig=core.Interp.prove
n=[0]
def prove(self, pc, claim, timeout_ms=None):
    s=z3.Solver()
    for a in self.axioms: s.add(a)
    for c in pc:
        if c is not True: s.add(c)
    s.add(z3.Not(claim) if not isinstance(claim,bool) else z3.BoolVal(not claim))
    open(f"/tmp/ob{n[0]}.smt2","w").write(s.to_smt2()); n[0]+=1
    return "discharged",None,0.0
core.Interp.prove=prove
cm.CONTRACTS[i].nsamples=1
v.verify(cm.CONTRACTS[i], i)
print("dumped",n[0])
