"""The OFX wire syntax of a message body (OFX 1.6 section 2.3 / OFX 2: XML), from the property statements C02 and
C08: the rendering relation (every way the syntax allows one tree to be written) and a strict reference
tokenizer - a hand-written scanner, deliberately not a regular expression.

Tree: (tag, data) for a data element, (tag, [children]) for an aggregate (possibly empty).
Renderings of a node:
  aggregate      <TAG> ws child* </TAG> ws
  data element   <TAG> ws? data ws? [</TAG>] ws          (the end tag may be omitted: OFXv1)
                 <TAG><![CDATA[data]]>[</TAG>] ws         (data free of '&' and ']]>'; same data)
data is non-empty, has no '<', and no leading/trailing whitespace.
"""
import itertools

WS_CHOICES = ["", "\n", " \r\n  "]


class RefError(Exception):
    pass


def is_leaf(node):
    return isinstance(node[1], str)


# ------------------------------------------------------------------------------------------ renderings
def render(node, choice):
    """choice: iterator over per-node decisions (close: bool, ws_index: int, cdata: bool)"""
    close, wsi, cdata = next(choice)
    ws = WS_CHOICES[wsi]
    tag = node[0]
    if is_leaf(node):
        data = node[1]
        if cdata and "&" not in data and "]]>" not in data:
            s = f"<{tag}>{ws if wsi == 1 else ''}<![CDATA[{data}]]>{ws if wsi == 2 else ''}"
        else:
            s = f"<{tag}>{ws if wsi == 1 else ''}{data}{ws if wsi == 2 else ''}"
        if close:
            s += f"</{tag}>"
        return s + ws
    s = f"<{tag}>" + ws
    for c in node[1]:
        s += render(c, choice)
    return s + f"</{tag}>" + ws


def count_nodes(node):
    return 1 + (0 if is_leaf(node) else sum(count_nodes(c) for c in node[1]))


def all_renderings(tree, full=True):
    n = count_nodes(tree)
    per = list(itertools.product((True, False), range(len(WS_CHOICES)), (False, True))) if full else \
        [(True, 0, False), (False, 0, False), (True, 1, False), (False, 2, False), (True, 0, True), (False, 1, True)]
    for combo in itertools.product(per, repeat=n):
        yield render(tree, iter(combo))


DATAS = ("x", "a\nb c", "x]", "q]]r", "R&amp;D", "&lt;")      # incl. data ending in ']' / holding ']]' (CDATA edge) and entity text (must stay escaped)


def trees(max_nodes, agg_tags=("A", "AG"), leaf_tags=("B1", "C.D"), datas=("x", "a\nb c")):
    """all trees with <= max_nodes nodes whose root is an aggregate.  Aggregates and data elements draw their
    tags from disjoint sets: '<A><A>x</A>' (a data element without end tag as last child of a same-named parent)
    is inherently ambiguous in SGML and is not part of the scope."""
    def build(n, top):
        out = []
        if n == 1:
            if not top:
                for t in leaf_tags:
                    for d in datas:
                        out.append((t, d))
            for t in agg_tags[:1] if top else agg_tags:
                out.append((t, []))
            return out
        for t in (agg_tags[:1] if top else agg_tags[1:]):
            for split in compositions(n - 1):
                for kids in itertools.product(*[build(k, False) for k in split]):
                    out.append((t, list(kids)))
        return out
    res = []
    for n in range(1, max_nodes + 1):
        res += build(n, True)
    return res


def compositions(n):
    if n == 0:
        return [()]
    out = []
    for first in range(1, n + 1):
        for rest in compositions(n - first):
            out.append((first,) + rest)
    return out


# ------------------------------------------------------------------------------------------ reference tokenizer
def tokens(text):
    """-> list of ('start', tag) | ('end', tag) | ('cdata', data) | ('text', data)"""
    out = []
    i = 0
    n = len(text)
    while i < n:
        if text.startswith("<![CDATA[", i):
            j = text.find("]]>", i)
            if j < 0:
                raise RefError("unterminated CDATA")
            out.append(("cdata", text[i + 9:j]))
            i = j + 3
        elif text[i] == "<":
            j = text.find(">", i)
            if j < 0:
                raise RefError("unterminated tag")
            name = text[i + 1:j]
            if name.startswith("/"):
                out.append(("end", name[1:]))
            else:
                out.append(("start", name))
            if not name.strip("/") or "<" in name:
                raise RefError("bad tag")
            i = j + 1
        else:
            j = text.find("<", i)
            if j < 0:
                j = n
            out.append(("text", text[i:j]))
            i = j
    return out


def parse(text):
    """strict reference parse: the tree, or RefError for anything that is not a complete, properly nested body"""
    toks = tokens(text)
    root = None
    stack = []       # open aggregates: (tag, children)
    i = 0

    def attach(node):
        nonlocal root
        if stack:
            stack[-1][1].append(node)
        elif root is None:
            root = node
        else:
            raise RefError("second top-level element")
    while i < len(toks):
        kind, val = toks[i]
        if kind == "text":
            if val.strip():
                raise RefError("stray text")
            i += 1
        elif kind == "cdata":
            raise RefError("stray CDATA")
        elif kind == "end":
            if not stack or stack[-1][0] != val:
                raise RefError("end tag does not match the open element")
            node = stack.pop()
            attach((node[0], node[1]))
            i += 1
        else:
            tag = val
            data = None
            j = i + 1
            if j + 1 < len(toks) and toks[j][0] == "text" and not toks[j][1].strip() and toks[j + 1][0] == "cdata":
                j += 1          # whitespace between the start tag and the CDATA section
            if j < len(toks) and toks[j][0] == "cdata":
                data = toks[j][1]; j += 1
            elif j < len(toks) and toks[j][0] == "text" and toks[j][1].strip():
                data = toks[j][1].strip(); j += 1
            if data is not None:
                if j < len(toks) and toks[j] == ("end", tag):
                    j += 1
                elif j + 1 < len(toks) and toks[j][0] == "text" and not toks[j][1].strip() and toks[j + 1] == ("end", tag):
                    j += 2
                if root is not None and not stack:
                    raise RefError("second top-level element")
                attach((tag, data))
                i = j
            else:
                if root is not None and not stack:
                    raise RefError("second top-level element")
                stack.append((tag, []))
                i += 1
    if stack:
        raise RefError("unclosed aggregate")
    if root is None:
        raise RefError("no element")
    return root


def tree_of_element(e):
    """(tag, data) / (tag, [children]) view of an xml.etree element"""
    if len(e) == 0 and e.text is not None and e.text.strip() != "":
        return (e.tag, e.text)
    if len(e) == 0 and (e.text is None or not e.text.strip()):
        return (e.tag, [])
    return (e.tag, [tree_of_element(c) for c in e])


def trim(s):
    """whitespace removed at both ends only"""
    return s.strip()


def _trim_model(it, a, kw):
    from pyvc import models as M
    from pyvc.values import SVal
    v = it.force(a[0])
    if isinstance(v, SVal):
        return M.sm_strip(it, v, [], {})
    return v.strip()


trim._pyvc_model = _trim_model


def events_equal(a, b):
    if len(a) != len(b):
        return False
    r = True
    for i in range(len(a)):
        r = r and a[i] == b[i]
    return r


# ------------------------------------------------------------------------------------------ the library's writer
# view of an element: (tag, text, tail, [children])
ESCAPES = {"&": "&amp;", "<": "&lt;", ">": "&gt;"}


def esc(text):
    """exactly the three markup characters are replaced, everything else (quotes included) is left alone"""
    out = ""
    for ch in text:
        if ch == "&":
            out += "&amp;"
        elif ch == "<":
            out += "&lt;"
        elif ch == ">":
            out += "&gt;"
        else:
            out += ch
    return out


def unclosed(v):
    """the rendering with the choices: no end tag on data elements, whitespace = the element's tail"""
    tag, text, tail, kids = v
    ws = tail if tail is not None else ""
    if len(kids) == 0:
        return "<" + tag + ">" + esc(text if text is not None else "") + ws
    out = "<" + tag + ">" + ws
    for k in kids:
        out += unclosed(k)
    return out + "</" + tag + ">" + ws


def blank(s):
    return s is None or s.strip() == ""


def same_but_whitespace(after, before):
    """indent may only put whitespace where there was none or only whitespace"""
    if after[0] != before[0] or len(after[3]) != len(before[3]):
        return False
    if len(before[3]) == 0:
        if after[1] != before[1]:
            return False
    else:
        if not (blank(before[1]) and blank(after[1])) and after[1] != before[1]:
            return False
    if not (blank(before[2]) and blank(after[2])) and after[2] != before[2]:
        return False
    ok = True
    for a, b in zip(after[3], before[3]):
        ok = ok and same_but_whitespace(a, b)
    return ok


def view_of(e):
    return (e.tag, e.text, e.tail, [view_of(c) for c in e])


def _view_model(it, a, kw):
    def v(e):
        return (e.tag, e.text, e.tail, [v(c) for c in e.kids])
    return v(a[0])


view_of._pyvc_model = _view_model
view_of._pyvc_always = True
