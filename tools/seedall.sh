#!/bin/sh
# run every kept seeded change against the check(s) of its property; prints one line per seed (needs a clean /repo)
cd /verif
for d in seeded/*; do
  id=$(basename $d); p=${id%%-*}
  extra=""
  [ "$id" = "C03-1" ] && extra="C09"
  r=$(python3 tools/seedtest.py /verif/$d $p $extra 2>&1)
  echo "$id $(echo "$r" | python3 -c "
import sys, json
try:
    d = json.loads(sys.stdin.read())
    print(' '.join(f'{k}:exit={v[\"exit\"]},violations={v[\"violations\"]},proof={v.get(\"by_proof\")},bounded={v.get(\"by_bounded_run\")},wall={v[\"wall\"]}' for k, v in d['checks'].items()))
except Exception as e:
    print('ERROR', e)
")"
done
