"""Native replay of a counter-model of the per-class constructor proofs (props/aggclasses.py):
the presence pattern is turned into real values with the C13 witness constructor and the real class is called."""
import sys


def replay_pattern(clsname, pattern, clause, seed=0):
    """-> process exit code: 17 the failed obligation reproduces on the real class, 0 it does not"""
    import random
    from xengine import aggx
    e = aggx.env()
    import ofxtools.models as m
    C = getattr(m, clsname)
    b = aggx.Builder(e, seed)
    rng = random.Random(seed)
    kw = {}
    spec = C.spec
    for a, given in pattern.items():
        if not given:
            continue
        t = spec[a]
        k = aggx.kind(e, t)
        try:
            kw[a] = b.witness(t.__type__) if k == "subaggregate" else b.value(t, rng)
        except Exception as ex:
            print("cannot build a value for", a, ex)
            return 0
    try:
        inst = C(**kw)
        outcome = "returned"
    except Exception as ex:
        outcome = f"raised {type(ex).__name__}: {ex}"
    print("REPLAY", clsname, sorted(kw), "->", outcome)
    if clause.startswith("raises:"):
        return 17 if outcome != "returned" else 0
    if clause.startswith(("C04-", "nothing-else", "stored:")):
        return 17 if outcome == "returned" else 0
    if clause.startswith("C03-value:") and outcome == "returned":
        a = clause.split(":", 1)[1]
        want = spec[a].convert(kw.get(a)) if hasattr(spec[a], "convert") else None
        return 17 if getattr(inst, a) != want else 0
    return 0
