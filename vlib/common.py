"""Common plumbing for every check: obligations, bounded checks, known findings,
replay files, evidence, exit codes.

Exit codes: 0 held, 1 violation (VIOLATION line printed), 2 undecided (an
obligation could neither be discharged nor refuted and no failing input was
found *and* it is not a baseline obligation -- never used on the pinned tree),
3 the machinery itself failed.
"""
import hashlib, json, os, subprocess, sys, time, traceback, glob

VERIF = os.path.dirname(os.path.dirname(os.path.abspath(__file__)))
REPO = os.environ.get("VERIF_REPO", "/repo")
NATIVE_PY = "/venv/bin/python"

TRUSTED_COMMON = [
    "T-ENGINE: pyvc (AST symbolic interpreter, VC generation) written for this task; mitigated by canaries, CPython cross-check, seeded breaks",
    "T-SMT: z3 5.1 (python3-vt z3-solver) and cvc5 soundness; Python int is encoded as mathematical Int (exact, Python ints are unbounded)",
    "A-ASSERT: assertions enabled (library not run with python -O)",
    "A-TERM: termination not proved (all loops range over finite iterables)",
    "A-LOG: logger.* calls are dropped, their arguments assumed effect-free",
    "A-3.11/3.12: VCs generated under CPython 3.11 (python3-vt), replays under CPython 3.12 (/venv)",
]


def repo_hash(files=None):
    h = hashlib.sha256()
    if files is None:
        files = sorted(glob.glob(os.path.join(REPO, "ofxtools", "**", "*.py"), recursive=True))
    for f in files:
        h.update(f.encode())
        with open(f, "rb") as fh:
            h.update(fh.read())
    return h.hexdigest()


def load_known_findings():
    p = os.path.join(VERIF, "known_findings.json")
    if not os.path.exists(p):
        return {"findings": [], "fixed": []}
    return json.load(open(p))


def run_native(code, timeout=120, extra_path=None):
    """Run a python snippet under the test-suite interpreter against /repo."""
    env = dict(os.environ)
    # z3 (pure-python wheel of the tooling venv) last, so that sidecar modules importing pyvc load under /venv too
    pp = [REPO, VERIF] + (extra_path or []) + ["/opt/veriftools/pyvenv/lib/python3.11/site-packages"]
    env["PYTHONPATH"] = os.pathsep.join(pp)
    env["PYTHONWARNINGS"] = "ignore"
    r = subprocess.run([NATIVE_PY, "-c", code], capture_output=True, text=True, timeout=timeout, env=env)
    return r.returncode, r.stdout, r.stderr


class Obligation:
    __slots__ = ("name", "status", "backend", "time", "detail", "kind", "function", "cex")

    def __init__(self, name, status, backend, time_s=0.0, detail="", kind="top", function="", cex=None):
        self.name = name; self.status = status; self.backend = backend
        self.time = time_s; self.detail = detail; self.kind = kind; self.function = function; self.cex = cex

    def asdict(self):
        return {"name": self.name, "status": self.status, "backend": self.backend,
                "time_s": round(self.time, 4), "kind": self.kind, "function": self.function,
                **({"detail": self.detail} if self.detail else {})}


class Report:
    """Collects everything one check run did and turns it into evidence + exit code."""

    def __init__(self, prop, tier, seed, level="proof"):
        self.prop = prop; self.tier = tier; self.seed = seed; self.level = level
        self.t0 = time.time()
        self.obligations = []          # Obligation
        self.bounded = []              # dicts
        self.violations = []           # (replay_path, text, no_input)
        self.kf_lines = []
        self.functions = {}            # qualname -> {file,line,sha}
        self.assumptions = list(TRUSTED_COMMON)
        self.trusted = []
        self.samples = []
        self.extra = {}
        self.havoced = set()
        self.downgraded = []
        self.canaries = [0, 0]
        self.crosscheck = {"samples": 0, "disagreements": 0}
        self.engine_errors = []
        self.hash0 = repo_hash()

    # ---- recording
    def add(self, ob):
        self.obligations.append(ob)

    def ok(self, name, backend, time_s=0.0, kind="top", function="", detail=""):
        self.add(Obligation(name, "discharged", backend, time_s, detail, kind, function))

    def fail(self, name, backend, detail, time_s=0.0, kind="top", function="", cex=None):
        self.add(Obligation(name, "failed", backend, time_s, detail, kind, function, cex))

    def note_function(self, qual, file, line, src):
        self.functions[qual] = {"file": file, "line": line, "sha256": hashlib.sha256(src.encode()).hexdigest()[:16]}

    def add_bounded(self, function, engine, bound, evaluations, counterexamples, note=""):
        self.bounded.append({"function": function, "engine": engine, "bound": bound,
                             "evaluations": evaluations, "counterexamples": counterexamples,
                             **({"note": note} if note else {})})

    def sample(self, s):
        if len(self.samples) < 12:
            self.samples.append(s)

    def engine_error(self, text):
        self.engine_errors.append(text)

    # ---- violations / known findings
    def violation(self, name, payload, no_input=False):
        d = os.path.join(VERIF, "replays", self.prop)
        os.makedirs(d, exist_ok=True)
        safe = "".join(c if c.isalnum() or c in "-_." else "_" for c in name)[:150]
        path = os.path.join(d, safe + ".json")
        payload = dict(payload); payload.setdefault("property", self.prop); payload.setdefault("obligation", name)
        with open(path, "w") as f:
            json.dump(payload, f, indent=1, default=str)
        self.violations.append((path, name, no_input))
        return path

    def known_finding(self, kf, still_fails):
        if still_fails:
            self.kf_lines.append(f"KNOWN-FINDING: property={self.prop} {kf['id']}: {kf['what']}")

    # ---- finish
    def finish(self, checker_cmd):
        wall = time.time() - self.t0
        hash1 = repo_hash()
        if hash1 != self.hash0:
            self.engine_error("repository files changed during the run")
        nob = len(self.obligations)
        ndis = sum(1 for o in self.obligations if o.status == "discharged")
        backends = {}
        for o in self.obligations:
            backends[o.backend] = backends.get(o.backend, 0) + 1
        solver_time = sum(o.time for o in self.obligations)
        slowest = sorted(self.obligations, key=lambda o: -o.time)[:5]
        cov = {
            "obligations": nob, "discharged": ndis,
            "checker_cmd": checker_cmd,
            "trusted_base": self.trusted + TRUSTED_COMMON,
            "functions_under_contract": self.functions,
            "backends": backends,
            "solver_time_s": round(solver_time, 3),
            "slowest": [o.asdict() for o in slowest],
            "bounded_checks": self.bounded,
            "havoced_calls": sorted(self.havoced),
            "downgraded": self.downgraded,
            "known_findings_replayed": self.kf_lines,
            "canaries": {"refuted": self.canaries[0], "total": self.canaries[1]},
            "model_crosscheck": self.crosscheck,
            "samples": self.samples or [o.asdict() for o in self.obligations[:5]],
            "obligation_names": [o.name for o in self.obligations][:400],
            "failed": [o.asdict() for o in self.obligations if o.status != "discharged"],
            "repo_sha256": self.hash0,
            "engine_errors": self.engine_errors,
        }
        if self.level != "proof":
            cov["explanation"] = self.extra.get("explanation", "")
        cov.update({k: v for k, v in self.extra.items() if k != "explanation"})
        # generic keys where the schema wants them / they are measured
        if "evaluations" not in cov:
            ev = sum(b["evaluations"] for b in self.bounded)
            if ev:
                cov["evaluations"] = ev
        ev = {
            "property_id": self.prop, "tier": self.tier, "seed": self.seed, "level": self.level,
            "coverage": cov, "assumptions": self.assumptions, "wall_s": round(wall, 2),
            "violations": len(self.violations),
        }
        os.makedirs(os.path.join(VERIF, "evidence"), exist_ok=True)
        with open(os.path.join(VERIF, "evidence", f"{self.prop}.json"), "w") as f:
            json.dump(ev, f, indent=1, default=str)
        for l in self.kf_lines:
            print(l)
        if self.engine_errors:
            for e in self.engine_errors:
                print("ENGINE-ERROR:", e)
            if not self.violations:
                print(f"check {self.prop}: machinery failure ({len(self.engine_errors)}), nothing is reported")
                return 3
            # parts of the machinery failed (typically a harness that could no longer build its inputs on the changed
            # code); obligations that failed on their own are still reported - the failures above are listed with them
        seen_und = set()
        for d in self.downgraded:
            k = (d.get("function"), tuple(d.get("reason") or ())[:1])
            if k in seen_und:
                continue
            seen_und.add(k)
            # an obligation that could not be generated from the current source is undecided - neither held nor violated;
            # the bounded companion of the same function (if any) still ran and is reported on its own
            print(f"UNDECIDED: property={self.prop} function={d.get('function')} obligations not generated: {'; '.join(map(str, (d.get('reason') or [])[:2]))[:200]}")
        for path, name, no_input in self.violations:
            print(f"VIOLATION property={self.prop} replay={path}" + (" no-failing-input-found" if no_input else ""))
        print(f"check {self.prop} [{self.tier}]: obligations={nob} discharged={ndis} bounded_checks={len(self.bounded)} "
              f"violations={len(self.violations)} known_findings={len(self.kf_lines)} wall={wall:.1f}s")
        if self.violations:
            return 1
        if nob == 0 and not self.bounded:
            print("ENGINE-ERROR: zero obligations generated")
            return 3
        if ndis != nob:
            # an undischarged obligation without a violation record should not happen
            print("ENGINE-ERROR: undischarged obligation without a violation record")
            return 3
        return 0


_WARM = [False]


def adversarial_warmup():
    """A history every property must be insensitive to, played before anything is checked in every worker process:
    each class-level derived mapping (spec, spec_no_listaggregates, elements, subaggregates, listaggregates,
    listelements, unsupported, _superdict) of every model class is read once, abstract base classes first.  State that
    a subclass inherits from a base class by mistake (a memo found through ordinary attribute lookup) then shows up as
    wrong specs in the class proofs, the class invariants and the bounded runs, instead of depending on import order."""
    if _WARM[0]:
        return
    _WARM[0] = True
    try:
        from ofxtools.models.base import Aggregate
        import ofxtools.models  # noqa: F401
    except Exception:
        return
    order = []
    q = [Aggregate]
    while q:
        c = q.pop(0)
        order.append(c)
        q += [x for x in c.__subclasses__() if x not in order and x not in q]
    for c in order:
        for n in ("spec", "spec_no_listaggregates", "elements", "subaggregates", "listaggregates", "listelements", "unsupported", "_superdict"):
            try:
                getattr(c, n)
            except Exception:
                pass
    # ... and every converter of every class has converted values before: valid ones of its own kind (all tokens of
    # every enumeration), and refused ones.  A converter that remembers what it - or another converter - has accepted
    # then shows its memory in the converter contracts.
    try:
        from ofxtools import Types
    except Exception:
        return
    import warnings
    seen = set()
    with warnings.catch_warnings():
        warnings.simplefilter("ignore")
        for c in order:
            try:
                elems = list(c.spec.values())
            except Exception:
                continue
            for t in elems:
                t = getattr(t, "converter", t)
                if id(t) in seen or not hasattr(t, "convert"):
                    continue
                seen.add(id(t))
                if isinstance(t, Types.OneOf):
                    vals = list(getattr(t, "valid", ()))[:400] + ["!!not-a-token!!"]
                elif isinstance(t, Types.Bool):
                    vals = ["Y", "N", "Q"]
                elif isinstance(t, Types.DateTime):
                    vals = ["20200101", "120000", "20051020120000.000[-5:EST]", "2005102012", "bad"]
                elif isinstance(t, (Types.Integer, Types.Decimal)):
                    vals = ["1", "-12", "1.50", "x"]
                elif isinstance(t, Types.String):
                    vals = ["x", "R&amp;D", "y" * 300]
                else:
                    continue
                for v in vals:
                    for mth in ("convert",):
                        try:
                            getattr(t, mth)(v)
                        except Exception:
                            pass
        # ... and whole documents have been parsed and converted before, successfully and unsuccessfully (a refused
        # enumeration token deep inside, a truncated body, an unknown class): what a failed conversion leaves behind
        # must not change what later calls accept or write
        try:
            import io
            from ofxtools.Parser import OFXTree
            from ofxtools.models.base import Aggregate
            import xml.etree.ElementTree as ET
            hdr = b"OFXHEADER:100\r\nDATA:OFXSGML\r\nVERSION:102\r\nSECURITY:NONE\r\nENCODING:USASCII\r\nCHARSET:NONE\r\nCOMPRESSION:NONE\r\nOLDFILEUID:NONE\r\nNEWFILEUID:NONE\r\n\r\n"
            good = b"<OFX><SIGNONMSGSRSV1><SONRS><STATUS><CODE>0<SEVERITY>INFO</STATUS><DTSERVER>20200101<LANGUAGE>ENG</SONRS></SIGNONMSGSRSV1></OFX>"
            for body in (good, good.replace(b"INFO", b"BOGUS"), good[:60], good.replace(b"SONRS", b"NOSUCHTHING"), good.replace(b"20200101", b"2020"), good):
                try:
                    p = OFXTree()
                    p.parse(io.BytesIO(hdr + body))
                    p.convert()
                except Exception:
                    pass
            for xml in ("<STATUS><CODE>0</CODE><SEVERITY>WRONG</SEVERITY></STATUS>", "<STATUS><SEVERITY>INFO</SEVERITY><CODE>0</CODE></STATUS>", "<NOPE><A>1</A></NOPE>"):
                try:
                    Aggregate.from_etree(ET.fromstring(xml))
                except Exception:
                    pass
        except Exception:
            pass
