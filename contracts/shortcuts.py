"""Shortcut properties of the model classes (C16): each is proved equal to the explicit path walk, on heap
instances whose member classes are enumerated and whose field values are symbolic."""
import itertools
import z3
from pyvc.contract import *
from pyvc.values import *
import ofxtools.models as m
from contracts.spec import shortcuts as SP

_n = [0]


def opaque(label):
    _n[0] += 1
    return SVal(object, z3.Const(f"{label}_{_n[0]}", V), {"eq": "term"})


def stmt_obj(cls, label):
    return SObj(cls, {"__items__": [], "trnuid": None, "cltcookie": None}, fresh=False, label=label)


class MsgSetArg(Arg):
    """instance of a message-set class whose members are of the given classes; each wrapper's statement child is
    symbolically present or None"""

    def __init__(self, name, cls, member_classes):
        self.name = name; self.cls = cls; self.member_classes = member_classes

    def make(self, it):
        items = []
        for i, mc in enumerate(self.member_classes):
            f = {"__items__": [], "trnuid": opaque("trnuid"), "cltcookie": opaque("cltcookie")}
            a = SP.WRAPPED.get(mc.__name__)
            for attr in mc.spec_no_listaggregates:
                if attr not in f:
                    f[attr] = None
            if a is not None:
                child_cls = mc.spec[a].__type__
                f[a] = SIte(z3.Bool(f"{self.name}_m{i}_absent"), None, stmt_obj(child_cls, f"{self.name}_stmt{i}"))
            items.append(SObj(mc, f, fresh=False, label=f"{self.name}_m{i}"))
        return SObj(self.cls, {"__items__": items}, fresh=False, label=self.name), []


def other_member(cls):
    """a list member class of the message set that is not a statement wrapper"""
    for a, t in cls.listaggregates.items():
        if t.__type__.__name__ not in SP.WRAPPED:
            return t.__type__
    return None


MSGSETS = [m.BANKMSGSRQV1, m.BANKMSGSRSV1, m.CREDITCARDMSGSRQV1, m.CREDITCARDMSGSRSV1, m.INVSTMTMSGSRQV1, m.INVSTMTMSGSRSV1]


def prop(name):
    def call(it, fn, a):
        if it is None:
            return getattr(a[0], name)
        return it.getattr(a[0], name)
    return call


CONTRACTS = []
for cls in MSGSETS:
    wrappers = [t.__type__ for t in cls.listaggregates.values() if t.__type__.__name__ in SP.WRAPPED]
    # every kind of member the message set can hold: the statement wrappers and ALL the others (transfers, mail, syncs ...)
    others = [t.__type__ for a, t in cls.listaggregates.items() if t.__type__.__name__ not in SP.WRAPPED]
    pool = wrappers + others
    for k in (0, 1, 2, 3):
        if k == 3 and len(pool) > 4:
            # large message sets: all pairs, and the triples that hold at least two statement wrappers
            combos = [c for c in itertools.product(pool, repeat=3) if sum(x in wrappers for x in c) >= 2]
        else:
            combos = list(itertools.product(pool, repeat=k))
        for combo in combos:
            CONTRACTS.append(Contract(
                f"ofxtools.models:{cls.__name__}.statements",
                args=[MsgSetArg("msgs", cls, list(combo))], call=prop("statements"),
                ensures=[("every-statement-once-in-document-order", "spec.shortcuts.same_objects(result, spec.shortcuts.expected_statements(msgs))")],
                modifies=[f"msgs_stmt{i}" for i in range(k)],
                notes=f"{cls.__name__} with members {[c.__name__ for c in combo]}", props=["C16"], symbolic_only=True))


class AliasArg(Arg):
    def __init__(self, name, cls):
        self.name = name; self.cls = cls

    def make(self, it):
        f = {"__items__": []}
        for attr in self.cls.spec_no_listaggregates:
            f[attr] = opaque(attr)
        return SObj(self.cls, f, fresh=False, label=self.name), []


A0 = len(CONTRACTS)
for (cn, pn), attr in SP.ALIASES.items():
    cls = getattr(m, cn)
    CONTRACTS.append(Contract(f"ofxtools.models:{cn}.{pn}", args=[AliasArg("obj", cls)], call=prop(pn),
                              ensures=[("same-object", f"result is obj.{attr}")], notes=f"{cn}.{pn} is {attr}", props=["C16"], symbolic_only=True))


class AliasArg2(Arg):
    """the same, with the aliased child a heap instance of its class that may just as well be ABSENT (None) - an optional
    sub-aggregate that the server left out - and everything else of the holder opaque"""

    def __init__(self, name, cls, attr):
        self.name = name; self.cls = cls; self.attr = attr

    def make(self, it):
        f = {"__items__": []}
        for a in self.cls.spec_no_listaggregates:
            f[a] = opaque(a)
        t = self.cls.spec[self.attr]
        child_cls = getattr(t, "__type__", None)
        if isinstance(child_cls, type):
            cf = {"__items__": []}
            for a in child_cls.spec_no_listaggregates:
                cf[a] = opaque(a)
            child = SObj(child_cls, cf, fresh=False, label=f"{self.name}_child")
        else:
            child = opaque(self.attr)
        f[self.attr] = SIte(z3.Bool(f"{self.name}_{self.attr}_absent"), None, child)
        return SObj(self.cls, f, fresh=False, label=self.name), []


for (cn, pn), attr in SP.ALIASES.items():
    cls = getattr(m, cn)
    CONTRACTS.append(Contract(f"ofxtools.models:{cn}.{pn}", args=[AliasArg2("obj", cls, attr)], call=prop(pn),
                              ensures=[("same-object-or-None-when-absent", f"result is obj.{attr}")],
                              notes=f"{cn}.{pn} is {attr}; the child present (a heap instance) or absent", props=["C16"], symbolic_only=True))


# ------------------------------------------------------------------ OFX.statements / signon / securities
class OfxArg(Arg):
    """an OFX tree: each of the six statement message sets is None or holds two wrappers (first statement wrapper
    class and, where the set has one, the closing-statement wrapper), each statement child symbolically present"""

    def __init__(self, name="ofx", nwrap=2):
        self.name = name; self.nwrap = nwrap

    def make(self, it):
        f = {"__items__": []}
        for attr in m.OFX.spec_no_listaggregates:
            f[attr] = None
        for attr in SP.MSGSET_ORDER:
            cls = m.OFX.spec[attr].__type__
            wrappers = [t.__type__ for t in cls.listaggregates.values() if t.__type__.__name__ in SP.WRAPPED]
            ms, _ = MsgSetArg(f"{self.name}_{attr}", cls, wrappers[:self.nwrap]).make(it)
            f[attr] = SIte(z3.Bool(f"{self.name}_{attr}_absent"), None, ms)
        son = SObj(m.SONRQ, {"__items__": []}, fresh=False, label="sonrq")
        f["signonmsgsrqv1"] = SObj(m.SIGNONMSGSRQV1, {"__items__": [], "sonrq": son}, fresh=False, label="signonmsgsrqv1")
        return SObj(m.OFX, f, fresh=False, label=self.name), []


O0 = len(CONTRACTS)
CONTRACTS += [
    Contract("ofxtools.models:OFX.statements", args=[OfxArg(nwrap=1)], call=prop("statements"),
             ensures=[("all-statements-of-all-message-sets-in-order", "spec.shortcuts.same_objects(result, spec.shortcuts.expected_ofx_statements(ofx))")],
             modifies=[f"ofx_{a}_stmt{i}" for a in SP.MSGSET_ORDER for i in range(2)],
             notes="every combination of present/absent message sets, one wrapper each with the statement present or absent", props=["C16"], symbolic_only=True, max_paths=6000),
    Contract("ofxtools.models:OFX.statements", args=[OfxArg()], call=prop("statements"), tier="thorough",
             ensures=[("all-statements-of-all-message-sets-in-order", "spec.shortcuts.same_objects(result, spec.shortcuts.expected_ofx_statements(ofx))")],
             modifies=[f"ofx_{a}_stmt{i}" for a in SP.MSGSET_ORDER for i in range(2)],
             notes="every combination of present/absent message sets and present/absent statements (2^6 x 2^10 symbolic)", props=["C16"], symbolic_only=True, max_paths=6000),
    Contract("ofxtools.models:OFX.signon", args=[OfxArg()], call=prop("signon"),
             ensures=[("sonrq", "result is ofx.signonmsgsrqv1.sonrq")], props=["C16"], symbolic_only=True),
]


# =============================================================================== currency type / symbol / rate (Origcurrency mixin)
# curtype, cursym, currate read CURRENCY if present, else ORIGCURRENCY, else nothing.  A CURRENCY / ORIGCURRENCY
# instance is an (empty) list subclass and therefore FALSY: "present" must mean "is not None".
from ofxtools.models.i18n import Origcurrency, CURRENCY, ORIGCURRENCY


class CurArg(Arg):
    name = "tx"

    def make(self, it):
        def cur(cls, label):
            return SObj(cls, {"__items__": [], "cursym": opaque(label + "_sym"), "currate": opaque(label + "_rate")}, fresh=False, label=label)
        c, o = cur(CURRENCY, "currency"), cur(ORIGCURRENCY, "origcurrency")
        has_c, has_o = z3.Bool("has_currency"), z3.Bool("has_origcurrency")
        self_ = SObj(m.STMTTRN, {"__items__": [], "currency": SIte(has_c, c, None), "origcurrency": SIte(has_o, o, None)}, fresh=False, label="tx")
        return {"self": self_, "cur": c, "orig": o, "has_c": SBool(has_c), "has_o": SBool(has_o)}, [z3.Not(z3.And(has_c, has_o))]


def cur_prop(name):
    def call(it, fn, a):
        return it.getattr(a[0]["self"], name)
    return call


for nm, want_c, want_o in (("curtype", "'CURRENCY'", "'ORIGCURRENCY'"), ("cursym", "tx['cur'].cursym", "tx['orig'].cursym"), ("currate", "tx['cur'].currate", "tx['orig'].currate")):
    CONTRACTS.append(Contract(f"ofxtools.models.i18n:Origcurrency.{nm}", args=[CurArg()], call=cur_prop(nm),
                              ensures=[("full-path-value", f"(result == {want_c}) if tx['has_c'] else ((result == {want_o}) if tx['has_o'] else result is None)")],
                              notes=f"{nm} on a transaction with CURRENCY, with ORIGCURRENCY, or with neither (presence symbolic; the aggregates are empty lists, i.e. falsy)",
                              props=["C16"], symbolic_only=True))


def cur_native_cases(tier):
    import decimal
    out = []
    for cname in sorted(n for n in dir(m) if isinstance(getattr(m, n), type) and issubclass(getattr(m, n), Origcurrency) and n.isupper()):
        for which in ("currency", "origcurrency", None):
            out.append([cname, which])
    return out


def cur_native(it, fn, a):
    import decimal
    from xengine import aggx
    cname, which = a
    C = getattr(m, cname)
    b = aggx.Builder(aggx.env(), 0)
    try:
        x = b.witness(C, (which,) if which else ())
    except Exception as ex:
        return [f"cannot build {cname} with {which}: {ex}"]
    problems = []
    sub = getattr(x, which) if which else None
    want = (type(sub).__name__, sub.cursym, sub.currate) if sub is not None else (None, None, None)
    got = (x.curtype, x.cursym, x.currate)
    if got != want:
        problems.append(f"{cname} with {which}: (curtype, cursym, currate) = {got!r}, the full path gives {want!r}")
    return problems


class A2_(Arg):
    def __init__(self, name):
        self.name = name


CONTRACTS.append(Contract("ofxtools.models.i18n:Origcurrency.curtype", args=[A2_("cls"), A2_("which")], call=cur_native,
                          ensures=[("full-path-value-on-real-instances", "result == []")], cases=cur_native_cases, native_only=True,
                          notes="every model class using the Origcurrency mixin x {CURRENCY, ORIGCURRENCY, neither}: real instances", props=["C16"]))


# =============================================================================== securities (SECLISTMSGSRSV1 / OFX)
class SecMsgsArg(Arg):
    """SECLISTMSGSRSV1 with three members: SECLIST (2 securities), a non-SECLIST member, SECLIST (1 security)"""
    name = "msgs"

    def make(self, it):
        def sec(label):
            return SObj(m.STOCKINFO, {"__items__": []}, fresh=False, label=label)
        l1 = SObj(m.SECLIST, {"__items__": [sec("s1"), sec("s2")]}, fresh=False, label="seclist1")
        other = SObj(m.SECLISTTRNRS, {"__items__": []}, fresh=False, label="trnrs")
        l2 = SObj(m.SECLIST, {"__items__": [sec("s3")]}, fresh=False, label="seclist2")
        return SObj(m.SECLISTMSGSRSV1, {"__items__": [l1, other, l2]}, fresh=False, label="msgs"), []


CONTRACTS.append(
    Contract("ofxtools.models:SECLISTMSGSRSV1.securities", args=[SecMsgsArg()], call=prop("securities"),
             ensures=[("all-securities-of-all-lists-in-order", "len(result) == 3 and result[0] is msgs[0][0] and result[1] is msgs[0][1] and result[2] is msgs[2][0]"),
                      ("a-new-list", "result is not msgs[0] and result is not msgs[2]")],
             notes="two security lists around another member: the members of both, in order, in a list of their own - reading the shortcut writes nothing in the model (frame)",
             props=["C16", "C17"], symbolic_only=True))


# =============================================================================== every shortcut, on real instances: pure and repeatable
def shortcut_names(C):
    out = []
    for k in C.__mro__:
        for n, v in vars(k).items():
            if isinstance(v, property) and not n.startswith("_") and n not in out and k.__module__.startswith("ofxtools.models"):
                out.append(n)
    return out


def shortcut_cases(tier):
    out = []
    for n in sorted(dir(m)):
        C = getattr(m, n)
        if isinstance(C, type) and issubclass(C, m.base.Aggregate if hasattr(m, "base") else object) and n.isupper() and shortcut_names(C):
            out.append([n])
    return out


def shortcut_purity(it, fn, a):
    import random, copy
    import xml.etree.ElementTree as ET
    from xengine import aggx
    from ofxtools.models.base import Aggregate
    cname = a[0]
    C = getattr(m, cname)
    e = aggx.env()
    b = aggx.Builder(e, 0)
    rng = random.Random(cname)
    problems = []
    lists = [nm for nm, t in C.spec.items() if aggx.is_list(aggx.kind(e, t))]
    singles = [nm for nm, t in C.spec.items() if aggx.kind(e, t) in ("element", "subaggregate")]
    tried = 0
    for extra, mem in [((), ()), (tuple(singles[:3]), tuple(lists[:1]) * 2), (tuple(singles), tuple(lists) + tuple(lists))]:
        try:
            x = b.witness(C, extra, mem)
        except Exception:
            continue
        tried += 1

        def shape(o, depth=0):
            # structure of the model: class, list members (recursively), declared children - not the instance
            # dictionaries (the statement shortcuts staple TRNUID/CLTCOOKIE onto the statements they return: that is
            # their documented job, C16)
            if isinstance(o, Aggregate) and depth < 8:
                return (type(o).__name__, [shape(c, depth + 1) for c in o], ET.tostring(o.to_etree()))
            return repr(o)
        for nm in shortcut_names(C):
            before = shape(x)
            try:
                r1 = getattr(x, nm)
                r2 = getattr(x, nm)
            except Exception as ex:
                continue
            after = shape(x)
            if before != after:
                problems.append(f"{cname}.{nm}: reading the shortcut changed the model")
            if isinstance(r1, (str, int, float, bool, type(None))) or hasattr(r1, "keys"):
                s1, s2 = r1, r2            # values and (class-level) mappings: equal
            else:
                s1 = [id(v) for v in r1] if isinstance(r1, list) else id(r1)
                s2 = [id(v) for v in r2] if isinstance(r2, list) else id(r2)
            if s1 != s2:
                problems.append(f"{cname}.{nm}: two reads in a row return different objects ({len(r1) if isinstance(r1, list) else r1!r} then {len(r2) if isinstance(r2, list) else r2!r})")
    return problems


class A3_(Arg):
    def __init__(self, name):
        self.name = name


CONTRACTS.append(Contract("ofxtools.models:OFX.statements", args=[A3_("cls")], call=shortcut_purity,
                          ensures=[("shortcuts-are-pure-and-repeatable", "result == []")], cases=shortcut_cases, native_only=True, shards=4,
                          notes="every property defined by a model class (all shortcut accessors), on up to three real instances of the class (minimal, some, all optional children and list members twice): two reads return the same objects and the model - classes, list members, written tree - is unchanged",
                          props=["C16", "C17"]))


# ------------------------------------------------------------------ two-level shortcuts: SONRS.org / SONRS.fid read through the optional <FI>
for pn in ("org", "fid"):
    CONTRACTS.append(Contract(f"ofxtools.models:SONRS.{pn}", args=[AliasArg2("obj", m.SONRS, "fi")], call=prop(pn),
                              ensures=[("the-FI's-own-value", f"obj.fi is not None and result is obj.fi.{pn}")],
                              raises=[(AttributeError, "obj.fi is None", "must")],
                              notes=f"SONRS.{pn} is fi.{pn}; a sign-on response without <FI> has no {pn}: AttributeError (so that hasattr / getattr with a default work) and nothing else",
                              props=["C16"], symbolic_only=True))
