"""Symbolic values of pyvc.

Concrete Python objects are used as they are.  Everything symbolic derives from
Sym.  Python containers (list/tuple/dict with concrete keys) may hold Sym items.
"""
import z3

# one universal sort for opaque values (texts of unknown shape, decimals, ...)
V = z3.DeclareSort("V")
tlen = z3.Function("tlen", V, z3.IntSort())          # len() of an opaque text


class Sym:
    pytype = object


class SInt(Sym):
    pytype = int
    __slots__ = ("e",)

    def __init__(self, e):
        self.e = e

    def __repr__(self):
        return f"SInt({self.e})"


class SBool(Sym):
    pytype = bool
    __slots__ = ("e",)

    def __init__(self, e):
        self.e = e

    def __repr__(self):
        return f"SBool({self.e})"


class SStr(Sym):
    """guarded character sequence: items = [(guard, code)], guard True|z3 Bool, code int|z3 Int"""
    pytype = str
    __slots__ = ("items",)

    def __init__(self, items):
        self.items = list(items)

    @staticmethod
    def lit(s):
        return SStr([(True, ord(c)) for c in s])

    def fixed(self):
        return all(g is True for g, _ in self.items)

    def concrete(self):
        return self.fixed() and all(isinstance(c, int) for _, c in self.items)

    def pystr(self):
        return "".join(chr(c) for _, c in self.items)

    def __repr__(self):
        return f"SStr({self.items})"


class SVal(Sym):
    """opaque value of a known Python type; e is a z3 term of sort V"""
    __slots__ = ("pytype", "e", "info")

    def __init__(self, pytype, e, info=None):
        self.pytype = pytype
        self.e = e
        self.info = info or {}

    def __repr__(self):
        return f"SVal({self.pytype.__name__},{self.e})"


class SIte(Sym):
    __slots__ = ("c", "a", "b")

    def __init__(self, c, a, b):
        self.c = c; self.a = a; self.b = b

    def __repr__(self):
        return f"SIte({self.c},{self.a},{self.b})"


class GList(Sym):
    """guarded list: items = [(guard, value)]"""
    pytype = list
    __slots__ = ("items",)

    def __init__(self, items):
        self.items = list(items)


class SObj(Sym):
    """heap object: instance of a concrete class with a field record"""

    def __init__(self, cls, fields=None, fresh=True, label=None):
        self.cls = cls
        self.fields = dict(fields or {})
        self.fresh = fresh      # allocated during the call under verification
        self.label = label

    @property
    def pytype(self):
        return self.cls

    def __repr__(self):
        return f"SObj({self.cls.__name__}:{self.label or id(self)})"


class Abstract(Sym):
    """Harness-provided abstract object.  Override the p_* hooks that the code uses."""
    pytype = object

    def p_getattr(self, it, name):
        raise NotImplementedError(f"{type(self).__name__}.{name}")

    def p_call(self, it, args, kwargs):
        raise NotImplementedError(f"call {type(self).__name__}")

    def p_iter(self, it):
        raise NotImplementedError(f"iter {type(self).__name__}")

    def p_contains(self, it, item):
        raise NotImplementedError(f"in {type(self).__name__}")

    def p_getitem(self, it, key):
        raise NotImplementedError(f"getitem {type(self).__name__}")

    def p_setitem(self, it, key, value):
        raise NotImplementedError(f"setitem {type(self).__name__}")

    def p_truth(self, it):
        raise NotImplementedError(f"truth {type(self).__name__}")

    def p_len(self, it):
        raise NotImplementedError(f"len {type(self).__name__}")

    def p_eq(self, it, other):
        return self is other


class ExcVal:
    """an exception instance inside the interpreter"""

    def __init__(self, cls, args=(), cause=None):
        self.cls = cls
        self.args = tuple(args)
        self.cause = cause

    def __repr__(self):
        return f"ExcVal({self.cls.__name__})"


def is_sym(v):
    return isinstance(v, Sym)


def deep_concrete(v, depth=0):
    """True if v contains no symbolic part (containers inspected, bounded depth)"""
    if isinstance(v, (Sym, ExcVal)):
        return False
    if depth > 6:
        return True
    if isinstance(v, (list, tuple, set, frozenset)):
        return all(deep_concrete(x, depth + 1) for x in v)
    if isinstance(v, dict):
        return all(deep_concrete(k, depth + 1) and deep_concrete(x, depth + 1) for k, x in v.items())
    return True


def zand(*a):
    a = [x for x in a if x is not True]
    if any(x is False for x in a):
        return False
    if not a:
        return True
    return a[0] if len(a) == 1 else z3.And(*a)


def zor(*a):
    a = [x for x in a if x is not False]
    if any(x is True for x in a):
        return True
    if not a:
        return False
    return a[0] if len(a) == 1 else z3.Or(*a)


def znot(a):
    if isinstance(a, bool):
        return not a
    return z3.Not(a)


def zbool(a):
    return z3.BoolVal(a) if isinstance(a, bool) else a


def zint(a):
    if isinstance(a, bool):
        return z3.IntVal(int(a))
    if isinstance(a, int):
        return z3.IntVal(a)
    if isinstance(a, SInt):
        return a.e
    if isinstance(a, SBool):
        return z3.If(a.e, z3.IntVal(1), z3.IntVal(0))
    return a
