"""Bounded checks (engine R) for ofxget's statement commands (property C19): enumerated account configurations
and account-information responses through the real request_stmt / request_stmtend; what the client is asked to
send (the arguments reaching OFXClient.request_statements) is compared with the configured / discovered accounts."""
import collections, datetime, io, itertools, random
from unittest.mock import patch
from pyvc.contract import *

TYPES = ["checking", "savings", "moneymrkt", "creditline", "creditcard", "investment"]
BANK = TYPES[:4]
DT = {"dtstart": "20200101", "dtend": "20200201120000.000[-5:EST]", "dtasof": "20200115"}
DT_FUTURE = {"dtstart": "20990101", "dtend": "20991231235959.999[+9:JST]", "dtasof": "20990615"}      # dates are the user's: whatever they are, they go out


def run_command(cmd, cli, userfile=None):
    from ofxtools.scripts import ofxget
    from ofxtools.Client import OFXClient
    defaults = dict(ofxget.DEFAULTS)
    defaults.update({"url": "https://ofx.example.com", "user": "porkypig"})
    args = collections.ChainMap(dict(cli), dict(userfile or {}), defaults)
    captured = {}

    orig_rs = OFXClient.request_statements

    def fake_rs(self, password, *rqs, **kw):
        captured["rqs"] = rqs; captured["kw"] = kw; captured["client"] = self
        try:
            # ... and what the client then composes from them (dry run: nothing is sent)
            captured["composed"] = orig_rs(self, password, *rqs, **{**kw, "dryrun": True}).read()
        except Exception as ex:
            captured["composed"] = ex
        return io.BytesIO(b"response")
    with patch.object(OFXClient, "request_statements", fake_rs), patch("builtins.print"), \
            patch("ofxtools.scripts.ofxget.get_passwd", lambda a: "secret"):
        getattr(ofxget, cmd)(args)
    return args, captured


def cli_args(cmd, accts, flags, DT, nick_last=False):
    """the same configuration as it arrives from the real command line: argparser -> merge_config
    (nick_last: the server's settings come from a configuration section and the nickname is written LAST, after the account options)"""
    from ofxtools.scripts import ofxget
    opt = {"checking": "-C", "savings": "-S", "moneymrkt": "-M", "creditline": "-L", "creditcard": "-c", "investment": "-i"}
    argv = [{"request_stmt": "stmt", "request_stmtend": "stmtend"}[cmd], "--url", "https://ofx.example.com", "-u", "porkypig", "--dryrun", "--bankid", "B-1",
            "-s", DT["dtstart"], "-e", DT["dtend"]]
    if cmd == "request_stmt":
        argv += ["-a", DT["dtasof"], "--brokerid", "BR-2"]
    for t, vs in accts.items():
        for v in vs:
            if not (cmd == "request_stmtend" and t == "investment"):      # stmtend has no -i option
                argv += [opt[t], v]
    if cmd == "request_stmt":
        for fl, sw in (("inctran", "--no-transactions"), ("incpos", "--no-positions"), ("incbal", "--no-balances")):
            if not flags.get(fl, True):
                argv.append(sw)
        if flags.get("incoo"):
            argv.append("--open-orders")
    cfg = ofxget.UserConfig()
    if nick_last:
        # drop the options that the configuration section provides, and put the nickname at the very end
        cut = argv.index("--url")
        argv = argv[:cut] + argv[cut + 4:]                 # --url U -u USER
        for opt_ in ("--bankid", "--brokerid"):
            if opt_ in argv:
                i_ = argv.index(opt_); argv = argv[:i_] + argv[i_ + 2:]
        argv = argv + ["mybank"]
        cfg.read_string("[mybank]\nurl = https://ofx.example.com\nuser = porkypig\nbankid = B-1\nbrokerid = BR-2\n")
    ns = ofxget.make_argparser().parse_args(argv)
    with patch("builtins.print"):
        return ofxget.merge_config(ns, cfg)


def file_args(cmd, accts, flags, DT, seed):
    """the same configuration as it arrives from the user's configuration file (accounts listed there in any of the spellings a
    hand-edited file has: 'a,b'  'a, b'  'a ,b'  ' a , b '), the rest from the real command line"""
    from ofxtools.scripts import ofxget
    rng = random.Random(seed)
    lines = ["[mybank]", "url = https://ofx.example.com", "user = porkypig", "bankid = B-1", "brokerid = BR-2"]
    for t, vs in accts.items():
        if vs:
            sep = rng.choice([",", ", ", " ,", " , ", ",  "])
            lines.append(f"{t} = {rng.choice(['', ' '])}{sep.join(vs)}{rng.choice(['', ' '])}")
    argv = [{"request_stmt": "stmt", "request_stmtend": "stmtend"}[cmd], "mybank", "--dryrun", "-s", DT["dtstart"], "-e", DT["dtend"]]
    if cmd == "request_stmt":
        argv += ["-a", DT["dtasof"]]
        for fl, sw in (("inctran", "--no-transactions"), ("incpos", "--no-positions"), ("incbal", "--no-balances")):
            if not flags.get(fl, True):
                argv.append(sw)
        if flags.get("incoo"):
            argv.append("--open-orders")
    ns = ofxget.make_argparser().parse_args(argv)
    cfg = ofxget.UserConfig()
    cfg.read_string("\n".join(lines) + "\n")
    with patch("builtins.print"):
        return ofxget.merge_config(ns, cfg)


def check_configured(it, fn, a):
    cmd, accts, flags, seed = a
    from ofxtools.Types import DateTime
    cli = {k: list(v) for k, v in accts.items()}
    cli.update({"dryrun": True, "bankid": "B-1", "brokerid": "BR-2"})
    DT = DT_FUTURE if seed % 3 == 0 else globals()["DT"]
    cli.update(DT)
    cli.update(flags)
    import warnings
    with warnings.catch_warnings():
        warnings.simplefilter("ignore")
        if seed % 2 == 0:
            args, cap = run_command(cmd, cli)
        else:
            try:
                # account numbers that a configuration file can hold: no comma inside a number
                from_file = seed % 4 == 3 and not any("," in v or v != v.strip() for vs in accts.values() for v in vs)
                nick_last = (not from_file) and seed % 8 == 5 and any(accts.get(t) for t in accts if not (cmd == "request_stmtend" and t == "investment"))
                merged = file_args(cmd, accts, flags, DT, seed) if from_file else cli_args(cmd, accts, flags, DT, nick_last)
            except SystemExit as ex:
                raise RuntimeError(f"harness: the real argument parser refused the generated command line ({ex})")
            args, cap = run_command(cmd, {} if (cmd == "request_stmt" or from_file or nick_last) else {"brokerid": "BR-2", **({"investment": list(accts["investment"])} if "investment" in accts else {})}, merged)     # stmtend has no --brokerid option
            flags = {k: args[k] for k in ("inctran", "incoo", "incpos", "incbal")} if cmd == "request_stmt" else flags
            if cmd == "request_stmt":
                want_flags = {"inctran": a[2].get("inctran", True), "incpos": a[2].get("incpos", True), "incbal": a[2].get("incbal", True), "incoo": bool(a[2].get("incoo"))}
                for k_, v_ in want_flags.items():
                    if bool(args[k_]) != bool(v_):
                        return [f"command line asked {k_}={v_}; in effect {args[k_]}"]
    rqs = cap["rqs"]
    D = DateTime().convert
    start, end, asof = D(DT["dtstart"]), D(DT["dtend"]), D(DT["dtasof"])
    want = []
    for t in BANK:
        for acct in accts.get(t, []):
            want.append(("StmtRq" if cmd == "request_stmt" else "StmtEndRq", acct, t.upper()))
    for acct in accts.get("creditcard", []):
        want.append(("CcStmtRq" if cmd == "request_stmt" else "CcStmtEndRq", acct, None))
    if cmd == "request_stmt":
        for acct in accts.get("investment", []):
            want.append(("InvStmtRq", acct, None))
    got = [(type(r).__name__, r.acctid, getattr(r, "accttype", None)) for r in rqs]
    problems = []
    if got != want:
        problems.append(f"requested {got}, configured {want}")
    for r in rqs:
        if r.dtstart != start or r.dtend != end:
            problems.append(f"dates of {r}")
        if hasattr(r, "dtasof") and r.dtasof != asof:
            problems.append("dtasof")
        for fl in ("inctran", "incoo", "incpos", "incbal"):
            if hasattr(r, fl) and getattr(r, fl) != args[fl]:
                problems.append(f"{fl}={getattr(r, fl)} configured {args[fl]}")
    c = cap["client"]
    if c.bankid != "B-1" or c.brokerid != "BR-2" or c.url != "https://ofx.example.com" or c.userid != "porkypig":
        problems.append("client identity")
    # the request as composed: the include flags asked for on the command line are the ones that go out
    comp = cap.get("composed")
    if isinstance(comp, Exception):
        problems.append(f"composing the request failed: {type(comp).__name__}: {comp}")
    elif comp is not None and rqs:
        from ofxtools.Parser import OFXTree
        t = OFXTree(); t.parse(io.BytesIO(comp)); ofx = t.convert()
        if cmd == "request_stmt":
            for w in (ofx.invstmtmsgsrqv1 or []):
                b = w.invstmtrq
                got_f = {"inctran": b.inctran is not None and b.inctran.include, "incoo": b.incoo, "incpos": b.incpos is not None and b.incpos.include, "incbal": b.incbal}
                for fl, v in got_f.items():
                    if bool(v) != bool(args[fl]):
                        problems.append(f"investment request for {b.invacctfrom.acctid} goes out with {fl}={v}, asked {args[fl]}")
                # the as-of date asked for goes out whether or not positions are included (balances are as of a date too)
                got_asof = b.incpos.dtasof if b.incpos is not None else None
                if got_asof != asof:
                    problems.append(f"investment request for {b.invacctfrom.acctid} goes out with DTASOF {got_asof}, asked {asof} (incpos={args['incpos']})")
                if b.inctran is not None and (b.inctran.dtstart != start or b.inctran.dtend != end):
                    problems.append(f"investment request for {b.invacctfrom.acctid} goes out with dates {b.inctran.dtstart}..{b.inctran.dtend}, asked {start}..{end}")
            for ms, attr, sub in ((ofx.bankmsgsrqv1, "stmtrq", "bankacctfrom"), (ofx.creditcardmsgsrqv1, "ccstmtrq", "ccacctfrom")):
                for w in (ms or []):
                    b = getattr(w, attr, None)
                    if b is not None and b.inctran is not None and bool(b.inctran.include) != bool(args["inctran"]):
                        problems.append(f"{attr} goes out with inctran={b.inctran.include}, asked {args['inctran']}")
    return problems


def cases_configured(tier):
    out = []
    rng = random.Random(7)
    ids = ["1", "22", "22", "A&B"]          # a repeated number on purpose: the same number under two types / twice
    for cmd in ("request_stmt", "request_stmtend"):
        for pattern in itertools.product((0, 1, 2), repeat=6):
            if tier != "thorough" and rng.random() > 0.25:
                continue
            accts = {}
            for t, n in zip(TYPES, pattern):
                if n:
                    accts[t] = [rng.choice(ids) for _ in range(n)]
            flags = {"inctran": rng.choice([True, False]), "incoo": rng.choice([True, False]), "incpos": rng.choice([True, False]), "incbal": rng.choice([True, False])}
            out.append([cmd, accts, flags, rng.randrange(10 ** 6)])
    return out


# ------------------------------------------------------------------------------------ --all
def acctinfo_markup(infos, per_acctinfo):
    from ofxtools import models
    from ofxtools.Client import OFXClient
    from ofxtools.utils import UTC
    dt = datetime.datetime(2020, 1, 1, tzinfo=UTC)
    st = models.STATUS(code=0, severity="INFO")
    built = []
    for kind, acct, typ, status in infos:
        if kind == "bank":
            built.append(models.BANKACCTINFO(bankacctfrom=models.BANKACCTFROM(bankid="111000614", acctid=acct, accttype=typ),
                                             suptxdl=(sum(map(ord, acct)) % 2 == 0), xfersrc=False, xferdest=False, svcstatus=status))
        elif kind == "cc":
            built.append(models.CCACCTINFO(ccacctfrom=models.CCACCTFROM(acctid=acct), suptxdl=(sum(map(ord, acct)) % 2 == 0), xfersrc=False, xferdest=False, svcstatus=status))
        elif kind == "bp":
            # a bill-pay enrolment: it names a bank account, but it is not a bank account to fetch statements for
            built.append(models.BPACCTINFO(bankacctfrom=models.BANKACCTFROM(bankid="111000614", acctid=acct, accttype=typ), svcstatus=status))
        else:
            built.append(models.INVACCTINFO(invacctfrom=models.INVACCTFROM(brokerid="broker.example.com", acctid=acct), usproducttype="OTHER",
                                            checking=False, svcstatus=status))
    if per_acctinfo:
        wrapped = [models.ACCTINFO(b) for b in built]
    else:
        # pack into as few ACCTINFO as possible (each may hold one info per class)
        groups = []
        for b in built:
            for g in groups:
                if not any(type(x) is type(b) for x in g):
                    g.append(b)
                    break
            else:
                groups.append([b])
        wrapped = [models.ACCTINFO(*g) for g in groups]
    rs = models.ACCTINFORS(*wrapped, dtacctup=dt)
    trnrs = models.ACCTINFOTRNRS(trnuid="1", status=st, acctinfors=rs)
    ofx = models.OFX(signonmsgsrsv1=models.SIGNONMSGSRSV1(sonrs=models.SONRS(status=st, dtserver=dt, language="ENG")),
                     signupmsgsrsv1=models.SIGNUPMSGSRSV1(trnrs))
    return OFXClient("https://ofx.example.com").serialize(ofx)


def check_all(it, fn, a):
    cmd, infos, per_acctinfo, userfile = a
    from ofxtools.scripts import ofxget
    markup = acctinfo_markup(infos, per_acctinfo)
    cli = {"all": True, "dryrun": True}
    import warnings
    try:
        with patch("ofxtools.scripts.ofxget._request_acctinfo", lambda args, pw: io.BytesIO(markup)), warnings.catch_warnings():
            warnings.simplefilter("ignore")
            args, cap = run_command(cmd, cli, userfile)
    except Exception as ex:
        return [f"{type(ex).__name__}: {ex}"]
    got = sorted((type(r).__name__, r.acctid, getattr(r, "accttype", None)) for r in cap["rqs"])
    want = []
    for kind, acct, typ, status in infos:
        if status != "ACTIVE":
            continue
        if kind == "bp":
            continue
        if kind == "bank":
            want.append(("StmtRq" if cmd == "request_stmt" else "StmtEndRq", acct, typ))
        elif kind == "cc":
            want.append(("CcStmtRq" if cmd == "request_stmt" else "CcStmtEndRq", acct, None))
        elif cmd == "request_stmt":
            want.append(("InvStmtRq", acct, None))
    problems = []
    if got != sorted(want):
        problems.append(f"requested {got}; ACTIVE accounts listed by the server {sorted(want)}")
    # the discovered accounts are requested at the bank / broker the server named for them
    c = cap.get("client")
    if c is not None:
        if any(w[0] in ("StmtRq", "StmtEndRq") for w in want) and c.bankid != "111000614":
            problems.append(f"bank accounts discovered at bank id 111000614 are requested with bank id {c.bankid!r}")
        if any(w[0] == "InvStmtRq" for w in want) and c.brokerid != "broker.example.com":
            problems.append(f"investment accounts discovered at broker.example.com are requested with broker id {c.brokerid!r}")
    return problems


from contracts.spec.ofxget import configured_type_without_active, TYPE_OF


def cases_all(tier):
    out = []
    rng = random.Random(11)
    pool = [("bank", "1001", "CHECKING"), ("bank", "1002", "CHECKING"), ("bank", "2001", "SAVINGS"), ("cc", "4111", None), ("cc", "4222", None),
            ("inv", "77001", None), ("inv", "77002", None), ("bank", "3001", "MONEYMRKT"), ("bp", "1001", "CHECKING"), ("bp", "5005", "SAVINGS")]
    n = 400 if tier == "thorough" else 120
    for _ in range(n):
        k = rng.randint(1, 6)
        infos = [(kd, ac, tp, rng.choice(["ACTIVE", "ACTIVE", "AVAIL", "PEND"])) for kd, ac, tp in rng.sample(pool, k)]
        if rng.random() < 0.5:
            rng.shuffle(infos)
        for cmd in ("request_stmt", "request_stmtend"):
            out.append([cmd, infos, rng.random() < 0.5, {}])
    # the configuration file already lists accounts (older, partly no longer active ones): with --all the accounts the
    # server reports ACTIVE are what is requested, for every type the server reports on
    for _ in range(60 if tier == "thorough" else 24):
        k = rng.randint(2, 6)
        infos = [(kd, ac, tp, rng.choice(["ACTIVE", "ACTIVE", "AVAIL", "PEND"])) for kd, ac, tp in rng.sample(pool, k)]
        uf = {}
        for kd, ac, tp, stt in infos:
            if kd == "bp":
                continue
            t = TYPE_OF.get(tp) if kd == "bank" else ("creditcard" if kd == "cc" else "investment")
            uf.setdefault(t, [])
            if rng.random() < 0.7:
                uf[t].append(ac if rng.random() < 0.5 else "9" + ac)
        uf = {t: v for t, v in uf.items() if v}
        uf.update({"bankid": "OLDBANK", "brokerid": "old.example"} if rng.random() < 0.5 else {})
        for cmd in ("request_stmt", "request_stmtend"):
            out.append([cmd, infos, rng.random() < 0.5, uf])
    # a configured (possibly inactive) account of a type for which the server lists no ACTIVE account
    out.append(["request_stmt", [("bank", "1001", "CHECKING", "ACTIVE"), ("bank", "999", "SAVINGS", "AVAIL")], False, {"savings": ["999"]}])
    # no ACTIVE bank account at all
    out.append(["request_stmt", [("bank", "1001", "CHECKING", "AVAIL"), ("cc", "4111", None, "ACTIVE")], False, {}])
    return out


class A_(Arg):
    def __init__(self, name):
        self.name = name


CONTRACTS = [
    Contract("ofxtools.scripts.ofxget:request_stmt", args=[A_("cmd"), A_("accts"), A_("flags"), A_("seed")], call=check_configured,
             ensures=[("exactly-the-configured-accounts", "result == []")], cases=cases_configured, native_only=True, shards=8,
             notes="stmt and stmtend x account-count patterns over 6 types (0,1,2 accounts each; a quarter of the 729 patterns in quick, all in thorough) with repeated numbers across and within types, include flags, date options with offsets",
             props=["C19"]),
    Contract("ofxtools.scripts.ofxget:_merge_acctinfo", args=[A_("cmd"), A_("infos"), A_("per_acctinfo"), A_("userfile")], call=check_all,
             ensures=[("exactly-the-ACTIVE-accounts", "result == []")], cases=cases_all, native_only=True, shards=8,
             kf=[("KF-C19-all-configured-inactive", "spec.ofxget.configured_type_without_active(infos, userfile)")],
             notes="--all: sampled account-information responses (1-6 accounts of bank/credit-card/investment kind, any service status, grouped in one ACCTINFO or one per account, in any order)",
             props=["C19"]),
]
