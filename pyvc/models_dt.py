"""datetime / timedelta / time model (T-LIB), exact integer arithmetic in microseconds.

A date is (Y, M, D) with the exact Gregorian validity predicate; its ordinal is the uninterpreted
function ymd2ord(Y, M, D) (shared with the spec side, so "same instant" is decided by congruence and
linear arithmetic; the relation of ymd2ord to CPython's date.toordinal is cross-checked natively).
Date arithmetic introduces the shifted date as fresh (Y', M', D') constrained by
ymd2ord(Y', M', D') == ymd2ord(Y, M, D) + k and validity.  Time zones are fixed offsets."""
import datetime
import z3
from .values import *
from . import core as C
from . import models as M

DAY = 86400 * 10 ** 6
ymd2ord = z3.Function("ymd2ord", z3.IntSort(), z3.IntSort(), z3.IntSort(), z3.IntSort())
MAXORD = 3652059


def leap(y):
    return z3.And(y % 4 == 0, z3.Or(y % 100 != 0, y % 400 == 0))


def dim(y, m):
    return z3.If(z3.Or(m == 1, m == 3, m == 5, m == 7, m == 8, m == 10, m == 12), 31,
                 z3.If(m == 2, z3.If(leap(y), 29, 28), 30))


def valid_ymd(y, m, d):
    y, m, d = zint(y), zint(m), zint(d)
    return z3.And(y >= 1, y <= 9999, m >= 1, m <= 12, d >= 1, d <= dim(y, m))


def ordinal(it, y, m, d):
    if isinstance(y, int) and isinstance(m, int) and isinstance(d, int):
        return datetime.date(y, m, d).toordinal()
    o = ymd2ord(zint(y), zint(m), zint(d))
    it.assume(z3.And(o >= 1, o <= MAXORD))
    it.assume(z3.Implies(zint(y) >= 2, o >= 366))
    it.assume(z3.Implies(zint(y) <= 9998, o <= MAXORD - 365))
    return o


class ATimedelta(Abstract):
    pytype = datetime.timedelta

    def __init__(self, us):
        self.us = us

    @staticmethod
    def of(v):
        if isinstance(v, ATimedelta):
            return v
        if isinstance(v, datetime.timedelta):
            return ATimedelta(v.days * DAY + v.seconds * 10 ** 6 + v.microseconds)
        return None

    def p_binop(self, it, op, other, reflected):
        o = ATimedelta.of(other)
        if o is not None:
            a, b = (o, self) if reflected else (self, o)
            if op == "Add":
                return ATimedelta(mk(a.us + b.us))
            if op == "Sub":
                return ATimedelta(mk(a.us - b.us))
            if op == "FloorDiv":
                return M.mkint(M.py_floordiv(it, a.us, b.us)) if not (isinstance(a.us, int) and isinstance(b.us, int)) else a.us // b.us
            if op == "Mod":
                # timedelta % timedelta: the remainder has the sign of the divisor (a constant here), as for ints
                if isinstance(a.us, int) and isinstance(b.us, int):
                    return ATimedelta(a.us % b.us)
                if isinstance(b.us, int) and b.us > 0:
                    return ATimedelta(zint(a.us) % z3.IntVal(b.us))        # z3 mod with a positive divisor is Python's
                raise C.Unsupported("timedelta % symbolic or non-positive timedelta")
            return NotImplemented
        ok, i = M.as_int(other)
        if ok and op == "Mult":
            return ATimedelta(mk(self.us * i))
        if isinstance(other, (ADatetime,)) and op == "Add":
            return other.p_binop(it, "Add", self, False)
        return NotImplemented

    def p_unary(self, it, op):
        return ATimedelta(mk(-self.us))

    def p_abs(self, it):
        return ATimedelta(z3.If(zint(self.us) < 0, -zint(self.us), zint(self.us)))

    def p_compare(self, it, op, other, reflected):
        o = ATimedelta.of(other)
        if o is None:
            raise C.Raised(ExcVal(TypeError, ("compare timedelta",)))
        a, b = (o.us, self.us) if reflected else (self.us, o.us)
        a, b = zint(a), zint(b)
        return {"Lt": a < b, "LtE": a <= b, "Gt": a > b, "GtE": a >= b}[op]

    def p_eq(self, it, other):
        o = ATimedelta.of(other)
        if o is None:
            return False
        return zint(self.us) == zint(o.us)

    def p_truth(self, it):
        return zint(self.us) != 0

    def p_getattr(self, it, name):
        if name == "total_seconds":
            raise C.Unsupported("timedelta.total_seconds (float)")
        raise C.Unsupported(f"timedelta.{name}")


def mk(x):
    return x


def tz_parts(it, tz):
    """-> None | (offset_us, name, tzobj)"""
    if tz is None:
        return None
    if isinstance(tz, tuple):
        return tz
    if isinstance(tz, datetime.tzinfo):
        try:
            off = tz.utcoffset(None)
            name = tz.tzname(None)
        except Exception:
            raise C.Unsupported("tzinfo that is not a fixed offset")
        if off is None:
            return None
        return (ATimedelta.of(off).us, name, tz)
    raise C.Unsupported(f"tzinfo {tz!r}")


class ADatetime(Abstract):
    pytype = datetime.datetime

    def __init__(self, y, m, d, tod, tz=None, hmsu=None):
        self.y = y; self.m = m; self.d = d; self.tod = tod; self.tz = tz
        self.hmsu = hmsu          # optional (hour, minute, second, microsecond) with tod == their linear combination

    def shift(self, it, delta_us):
        total = zint(self.tod) + zint(delta_us)
        # no div/mod: total == k * DAY + tod2 with fresh k and fresh, range-constrained time fields
        k = it.fresh("dshift")
        tod2, hmsu2 = fresh_tod(it)
        it.assume(total == k * DAY + tod2)
        y2, m2, d2 = it.fresh("Y"), it.fresh("M"), it.fresh("D")
        o1 = ordinal(it, self.y, self.m, self.d)
        o2raw = zint(o1) + k
        if it.branch(z3.Or(o2raw < 1, o2raw > MAXORD)):
            raise C.Raised(ExcVal(OverflowError, ("date value out of range",)))
        it.assume(valid_ymd(y2, m2, d2))
        it.assume(ordinal(it, y2, m2, d2) == o2raw)
        it.assume(z3.Implies(k == 0, z3.And(y2 == zint(self.y), m2 == zint(self.m), d2 == zint(self.d))))
        # calendar facts (T-LIB): the ordinal is monotone in the date; fewer than 366 days cross at most one year
        it.assume(z3.Implies(k >= 0, y2 >= zint(self.y)))
        it.assume(z3.Implies(k <= 0, y2 <= zint(self.y)))
        it.assume(z3.Implies(z3.And(k >= -365, k <= 365), z3.And(y2 - zint(self.y) <= 1, zint(self.y) - y2 <= 1)))
        return ADatetime(y2, m2, d2, tod2, self.tz, hmsu2)

    def p_binop(self, it, op, other, reflected):
        td = ATimedelta.of(other)
        if td is not None:
            if op == "Add":
                return self.shift(it, td.us)
            if op == "Sub" and not reflected:
                return self.shift(it, -zint(td.us))
        if isinstance(other, ADatetime) and op == "Sub":
            a, b = (other, self) if reflected else (self, other)
            ta, tb = tz_parts(it, a.tz), tz_parts(it, b.tz)
            if (ta is None) != (tb is None):
                raise C.Raised(ExcVal(TypeError, ("can't subtract offset-naive and offset-aware datetimes",)))
            return ATimedelta(a.instant(it) - b.instant(it))
        return NotImplemented

    def instant(self, it):
        """microseconds since ordinal 0, UTC (local when naive)"""
        t = tz_parts(it, self.tz)
        off = zint(t[0]) if t else 0
        return zint(ordinal(it, self.y, self.m, self.d)) * DAY + zint(self.tod) - off

    def p_compare(self, it, op, other, reflected):
        if not isinstance(other, ADatetime):
            raise C.Raised(ExcVal(TypeError, ("compare datetime",)))
        ta, tb = tz_parts(it, self.tz), tz_parts(it, other.tz)
        if (ta is None) != (tb is None):
            raise C.Raised(ExcVal(TypeError, ("can't compare offset-naive and offset-aware datetimes",)))
        a, b = self.instant(it), other.instant(it)
        if reflected:
            a, b = b, a
        return {"Lt": a < b, "LtE": a <= b, "Gt": a > b, "GtE": a >= b}[op]

    def p_eq(self, it, other):
        if not isinstance(other, ADatetime):
            return False
        ta, tb = tz_parts(it, self.tz), tz_parts(it, other.tz)
        if (ta is None) != (tb is None):
            return False
        return self.instant(it) == other.instant(it)

    def field(self, name):
        if self.hmsu is not None and name in ("hour", "minute", "second", "microsecond"):
            return self.hmsu[("hour", "minute", "second", "microsecond").index(name)]
        tod = zint(self.tod)
        return {"year": self.y, "month": self.m, "day": self.d,
                "hour": tod / (3600 * 10 ** 6), "minute": (tod / (60 * 10 ** 6)) % 60,
                "second": (tod / 10 ** 6) % 60, "microsecond": tod % 10 ** 6}[name]

    def p_getattr(self, it, name):
        if name in ("year", "month", "day", "hour", "minute", "second", "microsecond"):
            v = self.field(name)
            return v if isinstance(v, int) else SInt(z3.simplify(v))
        if name == "tzinfo":
            t = tz_parts(it, self.tz)
            return None if t is None else (t[2] if len(t) > 2 and t[2] is not None else ATz(t[0], t[1]))
        if name == "utcoffset":
            def f():
                t = tz_parts(it, self.tz)
                return None if t is None else ATimedelta(t[0])
            return f
        if name == "tzname":
            def f():
                t = tz_parts(it, self.tz)
                return None if t is None else t[1]
            return f
        if name == "replace":
            def f(**kw):
                r = ADatetime(self.y, self.m, self.d, self.tod, self.tz, self.hmsu)
                for k, v in kw.items():
                    if k == "tzinfo":
                        r.tz = v.parts() if isinstance(v, ATz) else v
                    else:
                        raise C.Unsupported(f"datetime.replace({k})")
                return r
            return f
        if name == "time":
            return lambda: ATime(self.tod, None, self.hmsu)
        if name == "timetz":
            return lambda: ATime(self.tod, self.tz, self.hmsu)
        if name == "strftime":
            return lambda fmt: strftime(it, self, fmt)
        if name == "toordinal":
            return lambda: SInt(zint(ordinal(it, self.y, self.m, self.d)))
        if name == "__class__":
            return datetime.datetime
        raise C.Unsupported(f"datetime.{name}")

    def p_str(self, it):
        return M.fresh_text(it, "dtstr")

    def p_truth(self, it):
        return True


class ATz(Abstract):
    pytype = datetime.tzinfo

    def __init__(self, off_us, name):
        self.off = off_us; self.name = name

    def parts(self):
        return (self.off, self.name, None)

    def p_getattr(self, it, name):
        if name == "utcoffset":
            return lambda dt=None: ATimedelta(self.off)
        if name == "tzname":
            return lambda dt=None: self.name
        raise C.Unsupported(f"tzinfo.{name}")


class ATime(Abstract):
    pytype = datetime.time

    def __init__(self, tod, tz=None, hmsu=None):
        self.tod = tod; self.tz = tz; self.hmsu = hmsu

    def p_getattr(self, it, name):
        if name in ("hour", "minute", "second", "microsecond"):
            v = ADatetime(1, 1, 1, self.tod, None, self.hmsu).field(name)
            return v if isinstance(v, int) else SInt(z3.simplify(v))
        if name == "tzinfo":
            t = tz_parts(it, self.tz)
            return None if t is None else (t[2] if len(t) > 2 and t[2] is not None else ATz(t[0], t[1]))
        if name == "utcoffset":
            def f():
                t = tz_parts(it, self.tz)
                return None if t is None else ATimedelta(t[0])
            return f
        if name == "tzname":
            def f():
                t = tz_parts(it, self.tz)
                return None if t is None else t[1]
            return f
        if name == "replace":
            def f(**kw):
                r = ATime(self.tod, self.tz, self.hmsu)
                for k, v in kw.items():
                    if k == "tzinfo":
                        r.tz = v.parts() if isinstance(v, ATz) else v
                    else:
                        raise C.Unsupported(f"time.replace({k})")
                return r
            return f
        if name == "__class__":
            return datetime.time
        raise C.Unsupported(f"time.{name}")

    def p_eq(self, it, other):
        if not isinstance(other, ATime):
            return False
        return zint(self.tod) == zint(other.tod)

    def p_truth(self, it):
        return True

    def p_str(self, it):
        return M.fresh_text(it, "timestr")


def fresh_tod(it):
    """fresh time of day: (tod expression, (h, mi, s, us)) with exact range constraints"""
    h, mi, sec, us = it.fresh("h"), it.fresh("mi"), it.fresh("s"), it.fresh("us")
    it.assume(z3.And(h >= 0, h <= 23, mi >= 0, mi <= 59, sec >= 0, sec <= 59, us >= 0, us <= 999999))
    tod = ((h * 60 + mi) * 60 + sec) * 10 ** 6 + us
    return tod, (h, mi, sec, us)


def two(it, e):
    return M.int_to_sstr(it, zint(e), width=2)


def strftime(it, dt, fmt):
    # the format is a text whose characters are concrete or symbolic (e.g. digits spliced in by the caller): a symbolic
    # character is copied as it is, provided it cannot be the directive character '%'
    if isinstance(fmt, str):
        chars = [ord(c) for c in fmt]
    elif isinstance(fmt, SStr):
        fmt = M.resolve(it, fmt)
        chars = [c for _, c in fmt.items]
    else:
        raise C.Unsupported("symbolic strftime format")
    items = []
    i = 0
    while i < len(chars):
        ch = chars[i]
        if not isinstance(ch, int):
            if not it.valid(zint(ch) != 37):
                raise C.Unsupported("strftime format with a symbolic character that may be '%'")
            items.append((True, ch)); i += 1
            continue
        if ch != 37:
            items.append((True, ch)); i += 1
            continue
        if i + 1 >= len(chars) or not isinstance(chars[i + 1], int):
            raise C.Unsupported("strftime directive")
        code = chr(chars[i + 1])
        i += 2
        if code == "Y":
            y = zint(dt.y)
            if not it.valid(z3.And(y >= 1000, y <= 9999)):
                raise C.Unsupported("strftime %Y outside 1000..9999 (platform dependent padding)")
            part = M.int_to_sstr(it, y, width=4)
        elif code in "mdHMS":
            v = {"m": dt.m, "d": dt.d, "H": dt.field("hour"), "M": dt.field("minute"), "S": dt.field("second")}[code]
            v = zint(v)
            if not it.valid(z3.And(v >= 0, v <= 99)):
                raise C.Unsupported("strftime field range")
            part = M.int_to_sstr(it, v, width=2)
        else:
            raise C.Unsupported(f"strftime %{code}")
        if part is None:
            raise C.Unsupported("strftime digits")
        items += part.items
    return SStr(items)


def as_us(it, v, scale):
    ok, i = M.as_int(v)
    if not ok:
        raise C.Unsupported("timedelta argument is not an int")
    return i * scale


def m_timedelta(it, args, kw):
    if it.all_concrete(args, kw):
        return it.native(datetime.timedelta, args, kw)
    names = ["days", "seconds", "microseconds", "milliseconds", "minutes", "hours", "weeks"]
    scale = {"days": DAY, "seconds": 10 ** 6, "microseconds": 1, "milliseconds": 1000, "minutes": 60 * 10 ** 6,
             "hours": 3600 * 10 ** 6, "weeks": 7 * DAY}
    total = 0
    for n, a in list(zip(names, args)) + list(kw.items()):
        total = total + as_us(it, a, scale[n])
    return ATimedelta(total)


def m_datetime(it, args, kw):
    if it.all_concrete(args, kw):
        return it.native(datetime.datetime, args, kw)
    names = ["year", "month", "day", "hour", "minute", "second", "microsecond", "tzinfo"]
    vals = {"hour": 0, "minute": 0, "second": 0, "microsecond": 0, "tzinfo": None}
    for n, a in list(zip(names, args)) + list(kw.items()):
        if n not in names:
            raise C.Raised(ExcVal(TypeError, (f"unexpected argument {n}",)))
        vals[n] = a
    for n in ("year", "month", "day"):
        if n not in vals:
            raise C.Raised(ExcVal(TypeError, (f"missing {n}",)))
    iv = {}
    for n in names[:7]:
        v = it.force(vals[n])
        ok, i = M.as_int(v)
        if not ok:
            raise C.Raised(ExcVal(TypeError, ("an integer is required",)))
        iv[n] = i
    okc = zand(valid_ymd(iv["year"], iv["month"], iv["day"]),
               zint(iv["hour"]) >= 0, zint(iv["hour"]) <= 23, zint(iv["minute"]) >= 0, zint(iv["minute"]) <= 59,
               zint(iv["second"]) >= 0, zint(iv["second"]) <= 59, zint(iv["microsecond"]) >= 0, zint(iv["microsecond"]) <= 999999)
    if not it.branch(okc):
        raise C.Raised(ExcVal(ValueError, ("datetime field out of range",)))
    tod = ((zint(iv["hour"]) * 60 + zint(iv["minute"])) * 60 + zint(iv["second"])) * 10 ** 6 + zint(iv["microsecond"])
    tz = vals["tzinfo"]
    if isinstance(tz, ATz):
        tz = tz.parts()
    return ADatetime(iv["year"], iv["month"], iv["day"], tod, tz, tuple(zint(iv[n]) for n in ("hour", "minute", "second", "microsecond")))


def m_time(it, args, kw):
    if it.all_concrete(args, kw):
        return it.native(datetime.time, args, kw)
    names = ["hour", "minute", "second", "microsecond", "tzinfo"]
    vals = {"hour": 0, "minute": 0, "second": 0, "microsecond": 0, "tzinfo": None}
    for n, a in list(zip(names, args)) + list(kw.items()):
        if n not in names:
            raise C.Raised(ExcVal(TypeError, (f"unexpected argument {n}",)))
        vals[n] = a
    iv = {}
    for n in names[:4]:
        v = it.force(vals[n])
        ok, i = M.as_int(v)
        if not ok:
            raise C.Raised(ExcVal(TypeError, ("an integer is required",)))
        iv[n] = i
    okc = zand(zint(iv["hour"]) >= 0, zint(iv["hour"]) <= 23, zint(iv["minute"]) >= 0, zint(iv["minute"]) <= 59,
               zint(iv["second"]) >= 0, zint(iv["second"]) <= 59, zint(iv["microsecond"]) >= 0, zint(iv["microsecond"]) <= 999999)
    if not it.branch(okc):
        raise C.Raised(ExcVal(ValueError, ("time field out of range",)))
    tod = ((zint(iv["hour"]) * 60 + zint(iv["minute"])) * 60 + zint(iv["second"])) * 10 ** 6 + zint(iv["microsecond"])
    tz = vals["tzinfo"]
    if isinstance(tz, ATz):
        tz = tz.parts()
    return ATime(tod, tz, tuple(zint(iv[n]) for n in ("hour", "minute", "second", "microsecond")))


def install(it):
    it.models[datetime.timedelta] = m_timedelta
    it.models[datetime.datetime] = m_datetime
    it.models[datetime.time] = m_time
