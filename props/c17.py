"""C17 - parsing, converting and writing are pure and repeatable."""
from props.common import run_contracts, replay_known_findings
from props.c10 import TRUSTED

LEVEL = "proof"


def run(rep, tier, seed):
    rep.trusted += TRUSTED
    run_contracts(rep, "contracts.frames_derived", tier, seed)
    run_contracts(rep, "contracts.frames", tier, seed)
    run_contracts(rep, "contracts.parser_read", tier, seed)
    run_contracts(rep, "contracts.groom", tier, seed)
    run_contracts(rep, "contracts.aggregate", tier, seed)
    # the callable that normalize_to_gmt re-registers behaves the same whichever instance it is bound to: the
    # unconvert contracts hold for every self and fix the result as a function of the value alone
    run_contracts(rep, "contracts.types_dt", tier, seed, select=lambda c: c.target.endswith(".unconvert"), accept_props=["C09", "C10", "C11"])
    run_contracts(rep, "contracts.purity_native", tier, seed)
    compose(rep)
    from props.tables import run_tables
    run_tables(rep, rep.prop)
    from props.census import run_census
    import os
    run_census(rep, os.environ.get("VERIF_REPO", "/repo"))
    replay_known_findings(rep)


def compose(rep):
    """Aggregate._convert hands the caller's element to cls.groom and folds update_args over the children of what
    groom returns.  The caller's tree is untouched if groom writes nothing it was given (claimed and proved
    directly: C17-input-untouched) and, for the fold, if EITHER groom's result shares no node with its input OR
    update_args never writes its child.  The two facts are recorded by the contracts as auxiliary clauses; only
    the disjunction is claimed."""
    aux = rep.extra.get("aux", {})
    f1 = aux.get("aux-result-shares-nothing-with-the-input")
    f2 = aux.get("aux-child-element-not-written")
    full = "C17/ofxtools.models.base:Aggregate._convert/composition:fold-leaves-the-callers-tree-untouched"
    if not f1 or not f2 or (f1["ok"] + f1["failed"] == 0) or (f2["ok"] + f2["failed"] == 0):
        rep.engine_error(f"composition facts missing: groom-result-fresh={f1} update_args-writes-nothing={f2}")
        return
    rep.extra["composition"] = {"groom_result_shares_nothing": f1, "update_args_writes_nothing_to_child": f2}
    if f1["failed"] == 0 or f2["failed"] == 0:
        which = [n for n, f in (("groom returns a tree sharing no node with its input", f1), ("update_args never writes its child element", f2)) if f["failed"] == 0]
        rep.ok(full, "composition", 0.0, "top", "ofxtools.models.base:Aggregate._convert", detail="holds by: " + "; ".join(which))
    else:
        rep.fail(full, "composition", f"groom's result shares nodes with its input ({f1['where'][:2]}) AND update_args writes its child element ({f2['where'][:2]})", 0.0, "top", "ofxtools.models.base:Aggregate._convert")
        rep.violation(full, {"clause": "fold leaves the caller's tree untouched", "groom": f1, "update_args": f2,
                             "note": "both facts the composition rests on fail; see the bounded from_etree run for a failing tree"}, no_input=True)
