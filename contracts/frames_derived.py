"""C17 - frame conditions of the converters, derived mechanically from the contracts of C09/C10/C11: the same
real functions, the same argument domains and preconditions, but the only clause generated is the frame
     modifies nothing  -  no field of a pre-existing object (the shared descriptor instance `self`, any argument)
                          is written on ANY path, returning or raising.
The value clauses are decided where they belong (C09, C10, C11); here a converter that keeps state on the
descriptor (a memo, a counter, a "last value") fails the frame obligation of the path that writes it, and the
counter-model is replayed natively with a before/after snapshot of the arguments."""
import copy, importlib
from pyvc.contract import InstArg

SOURCES = ["contracts.types_basic", "contracts.types_decimal", "contracts.types_dt"]


def has_heap_arg(c):
    return any(isinstance(a, InstArg) for a in c.args)


def thin(cs):
    """functions with many contracts (the date-time layouts): every 8th is generated in the quick tier, all of
    them in the thorough tier"""
    from collections import Counter
    n = Counter(c.target for c in cs); k = Counter(); out = []
    for c in cs:
        i = k[c.target]; k[c.target] += 1
        out.append((c, "quick" if n[c.target] <= 12 or i % 8 == 0 else "thorough"))
    return out


CONTRACTS = []
for modname in SOURCES:
    m = importlib.import_module(modname)
    src = [c for c in m.CONTRACTS if has_heap_arg(c)]
    for c, tier in thin(src):
        d = copy.copy(c)
        d.frames_only = True
        d.props = ["C17"]
        d.ensures = []; d.raises = []; d.kf = []
        d.tier = "thorough" if (tier == "thorough" or c.tier == "thorough") else "quick"
        d.notes = f"frame of {c.target} [{c.notes[:80]}]"
        d.nsamples = min(c.nsamples, 60)
        CONTRACTS.append(d)
