#!/bin/sh
# run every claimed check on the unchanged tree (evidence files are rewritten by the checks themselves)
cd /verif
test -z "$(git -C /repo status --porcelain)" || { echo "/repo not clean"; exit 1; }
for p in $(python3 -c "import json; print(' '.join(c['property_id'] for c in json.load(open('MANIFEST.json'))['checks']))"); do
  /usr/bin/time -f "$p %es" ./check $p --tier quick 2>&1 | grep -E "^check |ENGINE|VIOLATION|^C[0-9]+ " 
done
