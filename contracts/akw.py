"""Abstract **kwargs: a dict over a concrete universe of keys with symbolic presence and values."""
import z3
from pyvc.values import *
from pyvc import core as C
from pyvc import models as M


class AKw(Abstract):
    pytype = dict

    def __init__(self, keys, present, values):
        self.keys = list(keys); self.present = dict(present); self.values = dict(values)

    def copy(self):
        return AKw(self.keys, self.present, self.values)

    def _k(self, it, k):
        return it.concrete_key(k)

    def p_contains(self, it, item):
        k = self._k(it, item)
        return self.present.get(k, False)

    def lookup(self, it, k, default):
        k = self._k(it, k)
        if k not in self.present or self.present[k] is False:
            return default
        if self.present[k] is True:
            return self.values[k]
        return it.ite(self.present[k], self.values[k], default)

    def p_getitem(self, it, k):
        kk = self._k(it, k)
        p = self.present.get(kk, False)
        if p is False or not it.branch(zbool(p)):
            raise C.Raised(ExcVal(KeyError, (kk,)))
        return self.values[kk]

    def p_getattr(self, it, name):
        if name == "get":
            return lambda k, default=None: self.lookup(it, k, default)
        if name == "pop":
            def pop(k, *default):
                kk = self._k(it, k)
                if not default:
                    v = self.p_getitem(it, kk)
                else:
                    v = self.lookup(it, kk, default[0])
                self.present[kk] = False
                return v
            return pop
        if name == "keys":
            return lambda: AKeys(self)
        if name == "items":
            return lambda: GList([(self.present[k], (k, self.values[k])) for k in self.keys if self.present[k] is not False])
        if name == "values":
            return lambda: GList([(self.present[k], self.values[k]) for k in self.keys if self.present[k] is not False])
        if name == "copy":
            return lambda: self.copy()
        raise C.Unsupported(f"kwargs.{name}")

    def p_giter(self, it):
        return [(self.present[k], k) for k in self.keys if self.present[k] is not False]

    def p_iter(self, it):
        return [k for g, k in self.p_giter(it) if g is True or it.branch(g)]

    def p_truth(self, it):
        return zor(*[self.present[k] for k in self.keys])

    def p_len(self, it):
        return SInt(z3.Sum([z3.If(zbool(self.present[k]), 1, 0) for k in self.keys])) if self.keys else 0

    def p_asdict(self, it):
        return {"__akw__": self.copy()}


class AKeys(Abstract):
    def __init__(self, akw):
        self.akw = akw

    def p_giter(self, it):
        return self.akw.p_giter(it)

    def p_iter(self, it):
        return self.akw.p_iter(it)

    def p_contains(self, it, item):
        return self.akw.p_contains(it, item)

    def p_tolist(self, it):
        return GList(self.p_giter(it))
