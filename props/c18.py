"""C18 - ofxget settings obey CLI > user file > FI db > OFX Home > defaults, and persist."""
from props.common import run_contracts, replay_known_findings
from props.c10 import TRUSTED

LEVEL = "proof"


def run(rep, tier, seed):
    import time
    rep.trusted += TRUSTED + [
        "collections.ChainMap modelled as first-present lookup over its maps (T-LIB); extractns / read_config / ofxhome.lookup are abstract: the command-line and section mappings have symbolic presence and value per option",
        "configparser (layering of fi.cfg and the user file by read([..]), typed getters, BasicInterpolation) is trusted library behaviour, exercised by the bounded run on the real files",
    ]
    rep.assumptions += [
        "proved: for each of the options of DEFAULTS independently, the value merge_config returns is the one of the highest-ranking source that sets it - command line, then the named server's section, then OFX Home (url, org, fid, brokerid; when an OFX Home id is in effect and the lookup finds it), then the built-in default - for all presence patterns and values (dry-run path, so that a missing URL is not fatal)",
        "proved: mk_server_cfg (the body of --write), for each persistable option separately and with the given value, its presence in the user's server section / [DEFAULT] section / the FI database all symbolic: the value given on this run is the value in effect on the next run without command-line options (configparser's layering of read([fi.cfg, user file]) is the spec function; arg2config and its reader are abstract and assumed inverse)",
        "bounded run on a scratch configuration directory with the real argparser / configparser (100 sampled option sets, 300 thorough; older values pre-seeded in the server section or the [DEFAULT] section): persistence end to end, no password stored, nothing written on a dry run, one default CLIENTUID kept, user file over FI database",
    ]
    t = time.time()
    from ofxtools.scripts import ofxget as g
    for name, ok in (("password-is-not-configurable", "password" not in g.CONFIGURABLE and "userpass" not in g.CONFIGURABLE),
                     ("every-persistable-option-has-a-default", all(k in g.DEFAULTS for k in g.CONFIGURABLE))):
        full = f"C18/table:{name}"
        if ok:
            rep.ok(full, "enumeration", time.time() - t, "top", "ofxtools.scripts.ofxget:CONFIGURABLE")
        else:
            rep.fail(full, "enumeration", "table invariant violated", 0.0, "top", "CONFIGURABLE")
            rep.violation(full, {"table": "CONFIGURABLE", "clause": name, "python": "import sys\nfrom ofxtools.scripts import ofxget as g\nsys.exit(17 if ('password' in g.CONFIGURABLE or 'userpass' in g.CONFIGURABLE) else 0)\n"})
    run_contracts(rep, "contracts.ofxget_config", tier, seed)
    run_contracts(rep, "contracts.ofxget_write", tier, seed)
    run_contracts(rep, "contracts.ofxget_readcfg", tier, seed)
    run_contracts(rep, "contracts.ofxget_cli", tier, seed)
    run_contracts(rep, "contracts.ofxget_config_native", tier, seed)
    replay_known_findings(rep)
