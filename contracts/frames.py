"""C17 (frames) and C07 (values) of groom / ungroom, proved over the ownership-tracked element model
(contracts/oelem.py): for a root with k = 0..3 direct children (4 in the thorough tier) whose tags and texts
are symbolic - every tag string at once, not a pool - the real groom/ungroom of Aggregate, MFINFO, STOCKINFO and
MAIL
   * write nothing that the caller owns: every logged write (tag store, remove, ...) targets an object
     allocated during the call  [C17-input-untouched]
   * return exactly the children the reference keeps, in order, with the keyword tag renamed on the first
     direct child only  [C07-result]
The number of direct children is the only bound (the code loops once over them; the loop body is the same for
every child); subtrees below the children are opaque and copied as a whole."""
import xml.etree.ElementTree as ET
from pyvc.contract import *
from pyvc import core as C
from contracts import oelem as O
import ofxtools.models as models
from ofxtools.models.base import Aggregate

POOL = ["A", "YIELD", "YLD", "FROM", "FRM", "INTU.BID", "X.YIELD", "B"]


class OTreeArg(Arg):
    def __init__(self, k, name="elem", grand=False):
        self.name = name; self.k = k; self.grand = grand

    def make(self, it):
        self.it = it
        O.install(it)
        w = O.World()
        return O.make_tree(w, self.k, grand=self.grand)

    def build(self, tags, gtags=None):
        """the i-th child carries its number in its text ('t<i>'); with grand, even children are aggregates holding
        one grandchild and carry their number in the attribute-free way: the grandchild's text 'g<i>'"""
        root = ET.Element("ROOT")
        for i, t in enumerate(tags):
            c = ET.SubElement(root, t)
            if self.grand and i % 2 == 0:
                ET.SubElement(c, (gtags or {}).get(i, "YIELD")).text = f"g{i}"
            else:
                c.text = f"t{i}"
        return root

    def samples(self, rng, n):
        return [self.build([rng.choice(POOL) for _ in range(self.k)], {i: rng.choice(POOL) for i in range(self.k)}) for _ in range(max(n, 8))]

    def concretize(self, model, value):
        import z3
        from pyvc.values import tlen
        it = self.it
        tags = []
        for i, kid in enumerate(value.kids):
            pick = None
            for lit in POOL:
                try:
                    if z3.is_true(model.eval(kid.tag.e == it.lit(lit), model_completion=True)):
                        pick = lit
                except Exception:
                    pass
            tags.append(pick or f"T{i}")
        gtags = {}
        for i, kid in enumerate(value.kids):
            for g in kid.kids:
                for lit in POOL:
                    try:
                        if z3.is_true(model.eval(g.tag.e == it.lit(lit), model_completion=True)):
                            gtags[i] = lit
                    except Exception:
                        pass
                gtags.setdefault(i, f"G{i}")
        return self.build(tags, gtags)


def view(kids, native):
    from contracts.spec.groom import kids_of, _kids_model
    if native:
        return kids_of(kids)

    class _E:
        pass
    e = _E(); e.kids = kids
    return _kids_model(None, [e], {})


def call_hook(fnname, clsname):
    def call(it, fn, a):
        cls = Aggregate if clsname == "Aggregate" else getattr(models, clsname)
        f = getattr(cls, fnname)
        if it is None:
            before = ET.tostring(a[0])
            r = f(a[0])
            return {"kids": view(list(r), True), "input_writes": 0 if ET.tostring(a[0]) == before else 1, "shared": 0}
        r = it.call(f, [a[0]], {})
        return {"kids": view(r.kids, False), "input_writes": len(a[0].world.input_writes()),
                "shared": len([x for x in [r] + list(r.kids) if x.owner != "fresh"])}
    return call


CONTRACTS = []
for clsname in ["Aggregate", "MFINFO", "STOCKINFO", "MAIL"]:
    for k, grand in [(0, False), (1, False), (2, False), (3, False), (4, False), (1, True), (2, True), (3, True)]:
        tier = "quick" if k <= 3 and not (grand and k == 3) else "thorough"
        CONTRACTS.append(Contract("ofxtools.models.base:Aggregate.groom", args=[OTreeArg(k, grand=grand)], call=call_hook("groom", clsname),
                                  ensures=[("C17-input-untouched", "result['input_writes'] == 0"),
                                           ("C07-result", f"result['kids'] == spec.groom.groomed({clsname!r}, spec.groom.kids_of(elem))"),
                                           ("aux-result-shares-nothing-with-the-input", "result['shared'] == 0")],
                                  aux=["aux-result-shares-nothing-with-the-input"],
                                  notes=f"{clsname}.groom, {k} direct children with symbolic tags" + (", even children holding a grandchild with a symbolic tag" if grand else ""), props=["C17", "C07"], tier=tier, samples=40))
        CONTRACTS.append(Contract("ofxtools.models.base:Aggregate.ungroom", args=[OTreeArg(k, grand=grand)], call=call_hook("ungroom", clsname),
                                  ensures=[("C07-result", f"result['kids'] == spec.groom.ungroomed({clsname!r}, spec.groom.kids_of(elem))")],
                                  modifies=["elem"],    # to_etree hands ungroom a tree it has just allocated: no frame is claimed
                                  notes=f"{clsname}.ungroom, {k} direct children with symbolic tags" + (", even children holding a grandchild with a symbolic tag" if grand else ""), props=["C07", "C01"], tier=tier, samples=40))


# =============================================================================== Element.__set__ / __get__
# The converters are class-level singletons shared by every instance of every model: the value must be stored
# on the instance handed in (obj.__dict__[name]) and nowhere else - in particular not on the descriptor.
from ofxtools import Types
from contracts.types_basic import inst, REQ, LEN, T


class Holder:
    """stands for an arbitrary model instance: only its instance dictionary is used by the descriptor"""


def holder(**fields):
    def build(**kw):
        h = Holder()
        h.__dict__.update(kw)
        return h
    return InstArg("obj", Holder, fields, build)


def named(cls, **fields):
    a = inst(cls, **fields)
    a.fields["name"] = "attrx"
    b0 = a.build

    def build(**kw):
        kw.pop("name", None)
        o = b0(**kw)
        o.name = "attrx"
        return o
    a.build = build
    return a


for cls, extra in ((Types.String, {"length": LEN}), (Types.Bool, {}), (Types.Integer, {"length": LEN}), (Types.Decimal, {"scale": None})):
    CONTRACTS.append(Contract("ofxtools.Types:Element.__set__",
                              args=[named(cls, required=REQ, **extra), holder(), OptArg(T())],
                              modifies=[("obj", "attrx")],
                              ensures=[("stored-on-the-instance", "'attrx' in obj.__dict__")],
                              raises=[(Exception, "True", "may")],      # which values are refused, and how, is C10's business
                              notes=f"{cls.__name__}.__set__: the converted value is stored in obj.__dict__[name]; the shared descriptor and every other field of the instance are untouched, also when the converter refuses the value",
                              props=["C17", "C03"], samples=60))
CONTRACTS.append(Contract("ofxtools.Types:Element.__get__",
                          args=[named(Types.String, required=REQ, length=LEN), holder(attrx=OptArg(T("stored"))), Const("objtype", None)],
                          ensures=[("reads-the-instance", "result is obj.__dict__['attrx']")],
                          notes="__get__ returns what the instance holds and writes nothing", props=["C17", "C03"], samples=60))
