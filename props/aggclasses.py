"""Per-class proofs of the constructor route (L2): for every concrete aggregate class, the real
Aggregate.__init__ (with the class's own validate_args override, if any) is executed symbolically with
*every* non-list attribute's presence and value symbolic.  Converters are abstract callees governed by the
facts proved for every converter type in C10: convert(None) raises OFXSpecError iff the element is required
and returns None otherwise; convert(v) for v not None returns conv(attr, v) or raises.

Obligations per class (C04 constructor route, C03 "each value lands in its own attribute"):
  returns  =>  every attribute holds conv(attr, given value) / None when not given, every required child is
               present, every mutex group declared by ANY base class holds (<=1 / ==1), nothing else was stored
  raises   =>  some declared constraint is violated (required child missing, converter refused a value, mutex
               count wrong) - or the class has its own validate_args override (extra, class-specific rules)
"""
import importlib, inspect, os, time, traceback, types
from concurrent.futures import ProcessPoolExecutor
import z3

from vlib.common import Report
from props.common import export, merge


def all_classes():
    import ofxtools.models as m
    from ofxtools.models.base import Aggregate
    out = []
    for n in dir(m):
        o = getattr(m, n)
        if isinstance(o, type) and issubclass(o, Aggregate) and o.__name__ == n and o.__module__.startswith("ofxtools.models"):
            if o.__name__ in ("Aggregate", "ElementList") or not o.__name__.isupper():
                continue
            out.append(o)
    return sorted(out, key=lambda c: c.__name__)


def declared_mutexes(cls):
    """every group declared by any class in the MRO (not just the one attribute lookup finds)"""
    opt, req = [], []
    for b in cls.__mro__:
        if not isinstance(b.__dict__.get("optionalMutexes", []), (list, tuple)) or not isinstance(b.__dict__.get("requiredMutexes", []), (list, tuple)):
            continue          # not a container (reported by the table obligations): reading it here would use it up
        for g in b.__dict__.get("optionalMutexes", []) or []:
            if list(g) not in opt:
                opt.append(list(g))
        for g in b.__dict__.get("requiredMutexes", []) or []:
            if list(g) not in req:
                req.append(list(g))
    return opt, req


def declared_spec(cls, lists=True):
    """the class's declared children, computed from the class bodies along the MRO (PEP 520 order, a subclass's
    declaration overriding its bases' in place) - NOT through the class's own spec machinery, which is what is being
    checked"""
    from ofxtools import Types
    keys = {}
    for base in reversed(cls.__mro__):
        for k in base.__dict__:
            keys.setdefault(k, None)
    out = {}
    for k in keys:
        v = None
        for base in cls.__mro__:
            if k in base.__dict__:
                v = base.__dict__[k]
                break
        if isinstance(v, (Types.Element, Types.Unsupported)) and (lists or not isinstance(v, (Types.ListAggregate, Types.ListElement))):
            out[k] = v
    return out


def has_override(cls):
    from ofxtools.models.base import Aggregate
    return inspect.getattr_static(cls, "validate_args").__func__ is not Aggregate.__dict__["validate_args"].__func__


def _work(job):
    prop, names, tier, seed, carved = job
    rep = Report(prop, tier, seed)
    try:
        from vlib.common import adversarial_warmup
        adversarial_warmup()
        from pyvc import core as C
        from pyvc.values import SObj, SIte, SVal, SBool, V, ExcVal, zand, zor, zbool, znot
        from pyvc import models as M
        from contracts.akw import AKw
        from contracts.aggregate import toV, NoneV
        from ofxtools import Types
        from ofxtools.models.base import Aggregate, OFXSpecError
        import ofxtools.models as models
        import ofxtools.utils as utils
        conv = z3.Function("conv_of", V, V, V)
        conv_ok = z3.Function("conv_accepts", V, V, z3.BoolSort())
        it = C.Interp()

        def hook(it_, dm, args, kwargs):
            if dm.name != "convert" or not isinstance(dm.obj, Types.Element) or isinstance(dm.obj, C.SObj):
                return NotImplemented
            cv = dm.obj
            v = args[0]
            ident = it_.lit(getattr(cv, "name", "?"))
            isnone = M.is_none(it_, v)
            ve = toV(it_, v)
            required = bool(getattr(cv, "required", False))
            bad = zor(zand(isnone, required), zand(znot(isnone), z3.Not(conv_ok(ident, ve))))
            if bad is True or (bad is not False and it_.branch(zbool(bad))):
                # C10: required None -> OFXSpecError; a refused value -> ValueError family or TypeError
                if it_.branch(zbool(isnone)) if not isinstance(isnone, bool) else isnone:
                    raise C.Raised(ExcVal(Types.OFXSpecError, ("Value is required",)))
                if it_.branch(z3.Bool(f"refusal_is_typeerror!{it_.counter}")):
                    raise C.Raised(ExcVal(TypeError, ("wrong type",)))
                raise C.Raised(ExcVal(Types.OFXSpecError, ("refused",)))
            res = SVal(object, conv(ident, ve), {"eq": "term"})
            if isnone is False:
                return res
            if isnone is True:
                return None
            return SIte(isnone, None, res)
        it.dispatch_hooks.append(hook)
        it.models[list.__init__] = lambda it_, a, k: None

        def m_all_equal(it_, a, k):
            items = it_.giterate(a[0])
            r = True
            for i, (g1, v1) in enumerate(items):
                for g2, v2 in items[i + 1:]:
                    r = zand(r, zor(znot(g1), znot(g2), M.equal(it_, v1, v2)))
            return r if isinstance(r, bool) else SBool(r)
        it.models[utils.all_equal] = m_all_equal

        for cname in names:
            cls = getattr(models, cname)
            t0 = time.time()
            try:
                verify_class(rep, it, cls, prop, conv, conv_ok, carved)
            except C.Unsupported as u:
                rep.downgraded.append({"function": f"{cname}.__init__", "reason": [str(u)], "downgraded": "proof->bounded (unsupported construct)"})
            except Exception:
                rep.engine_error(f"{cname}: " + traceback.format_exc()[-800:])
            rep.extra.setdefault("class_times", []).append((cname, round(time.time() - t0, 2)))
    except Exception:
        rep.engine_error("aggclasses worker: " + traceback.format_exc()[-1200:])
    return export(rep)


def verify_class(rep, it, cls, prop, conv, conv_ok, carved):
    from pyvc import core as C
    from pyvc.values import SObj, SIte, SVal, V, zand, zor, zbool, znot
    from pyvc import models as M
    from contracts.akw import AKw
    from contracts.aggregate import toV, NoneV
    from ofxtools import Types
    from ofxtools.models.base import Aggregate
    cname = cls.__name__
    # the derived class-level mappings are what the class bodies declare (whatever was computed before for other classes)
    for nm, got, want in (("spec", cls.spec, declared_spec(cls)), ("spec_no_listaggregates", cls.spec_no_listaggregates, declared_spec(cls, lists=False))):
        full = f"{prop}/ofxtools.models:{cname}/derived:{nm}-is-what-the-class-declares"
        same = list(got.keys()) == list(want.keys()) and all(got[k] is want[k] for k in want)
        if same:
            rep.ok(full, "enumeration", 0.0, "top", f"ofxtools.models:{cname}.{nm}")
        else:
            missing = [k for k in want if k not in got]; extra = [k for k in got if k not in want]
            rep.fail(full, "enumeration", f"{cname}.{nm}: missing {missing}, extra {extra}, order {'differs' if not missing and not extra else ''}", 0.0, "top", f"ofxtools.models:{cname}.{nm}")
            rep.violation(full, {"class": cname, "clause": f"{nm} is what the class declares", "missing": missing, "extra": extra,
                                 "python": ("import sys\nsys.path.insert(0, '/verif')\nfrom vlib.common import adversarial_warmup\nadversarial_warmup()\n"
                                            "import ofxtools.models as m\nfrom props.aggclasses import declared_spec\n"
                                            f"c = m.{cname}\nsys.exit(17 if list(c.{nm}.keys()) != list(declared_spec(c, lists={nm == 'spec'}).keys()) else 0)\n")})
    attrs = list(declared_spec(cls, lists=False))
    spec = declared_spec(cls)
    present, values, isnone = {}, {}, {}
    for a in attrs:
        present[a] = z3.Bool(f"{cname}.{a}.given")
        isnone[a] = z3.Bool(f"{cname}.{a}.is_none")
        values[a] = SIte(isnone[a], None, SVal(object, z3.Const(f"{cname}.{a}.value", V), {"eq": "term"}))
    nonnull = {a: z3.And(present[a], z3.Not(isnone[a])) for a in attrs}
    opt, req = declared_mutexes(cls)
    override = has_override(cls)
    init = inspect.getattr_static(cls, "__init__")

    def run():
        self = SObj(cls, {}, fresh=True, label="self")
        akw = AKw(attrs, present, values)
        it.call(init, [self], {"__akw__": akw})
        return self
    it.current_target = None
    paths = it.explore(run, [], max_paths=3000)
    fname = f"ofxtools.models:{cname}.__init__"
    rep.functions[fname] = {"file": inspect.getsourcefile(cls), "line": 0, "sha256": ""}

    def count(group):
        return z3.Sum([z3.If(nonnull[m], 1, 0) for m in group if m in nonnull]) if any(m in nonnull for m in group) else z3.IntVal(0)
    elements = [a for a in attrs if not isinstance(spec[a], Types.Unsupported)]
    required = [a for a in elements if getattr(spec[a], "required", False)]
    for pi, p in enumerate(paths):
        base = f"{prop}/{fname}/path{pi}"
        if p.kind == "unsupported":
            raise C.Unsupported(p.value)
        if p.kind == "ret":
            self = p.value
            claims = []
            for a in elements:
                ident = it.lit(a)
                stored = self.fields.get(a, "missing")
                if stored == "missing":
                    claims.append((f"stored:{a}", False))
                    continue
                want = z3.If(nonnull[a], conv(ident, values[a].b.e), NoneV)
                claims.append((f"C03-value:{a}", toV(it, stored) == want))
            extra = [k for k in self.fields if k not in elements and k != "__items__"]
            claims.append(("nothing-else-stored", len(extra) == 0))
            for a in required:
                claims.append((f"C04-required:{a}", nonnull[a]))
            for g in opt:
                claims.append((f"C04-at-most-one:{'|'.join(g)}", count(g) <= 1))
            for g in req:
                claims.append((f"C04-exactly-one:{'|'.join(g)}", count(g) == 1))
            for obj, field in p.st.writes:
                if obj is not self:
                    claims.append((f"frame:{field}", False))
            for nm, cl in claims:
                full = f"{base}/{nm}"
                if f"{cname}:{nm.split(':')[0]}:{nm.split(':', 1)[1] if ':' in nm else ''}" in carved or f"{cname}:{nm}" in carved:
                    rep.extra.setdefault("carved_out", []).append(full)
                    continue
                st, model, dt = it.prove(p.pc, cl if not isinstance(cl, bool) else cl)
                if st == "unknown":
                    st, model, dt = it.prove(p.pc, cl, timeout_ms=120000)
                    if st == "unknown":
                        rep.downgraded.append({"function": fname, "reason": [f"solver undecided within its budget: {nm}"], "downgraded": "proof->undecided (solver budget)"})
                        continue
                if st.startswith("discharged"):
                    rep.ok(full, "z3", dt, "top", fname)
                else:
                    report_failure(rep, it, cls, full, nm, st, model, present, isnone, attrs, "returned although the constraint is violated")
        else:
            exc = p.value
            full = f"{base}/raises:{exc.cls.__name__}"
            reasons = [z3.Not(nonnull[a]) for a in required]
            reasons += [z3.And(nonnull[a], z3.Not(conv_ok(it.lit(a), values[a].b.e))) for a in elements]
            reasons += [count(g) > 1 for g in opt] + [count(g) != 1 for g in req]
            cl = zor(*reasons) if not override else True
            if not (issubclass(exc.cls, ValueError) or issubclass(exc.cls, TypeError)):
                cl = False
            st, model, dt = it.prove(p.pc, cl)
            if st == "unknown":
                st, model, dt = it.prove(p.pc, cl, timeout_ms=120000)
                if st == "unknown":
                    rep.downgraded.append({"function": fname, "reason": [f"solver undecided within its budget: raises:{exc.cls.__name__}"], "downgraded": "proof->undecided (solver budget)"})
                    continue
            if st.startswith("discharged"):
                rep.ok(full, "z3", dt, "top", fname)
            else:
                report_failure(rep, it, cls, full, f"raises:{exc.cls.__name__}", st, model, present, isnone, attrs, f"raised {exc.cls.__name__} although no declared constraint is violated")
    rep.sample({"class": cname, "paths": len(paths), "attributes": len(attrs), "required": required, "optionalMutexes": opt, "requiredMutexes": req, "override": override})


def report_failure(rep, it, cls, full, clause, status, model, present, isnone, attrs, what):
    """turn the counter-model into a presence pattern and replay it natively with witness values"""
    pattern = None
    if model is not None:
        pattern = {a: (bool(z3.is_true(model.eval(present[a], model_completion=True))) and not bool(z3.is_true(model.eval(isnone[a], model_completion=True)))) for a in attrs}
    detail = f"{status}; {what}; children given: {[a for a, v in (pattern or {}).items() if v]}"
    rep.fail(full, "z3", detail, 0.0, "top", f"{cls.__name__}.__init__")
    snippet = None
    if pattern is not None:
        snippet = (
            "import sys\n"
            "sys.path.insert(0, '/verif')\n"
            "from xengine.witness import replay_pattern\n"
            f"sys.exit(replay_pattern({cls.__name__!r}, {pattern!r}, {clause!r}))\n")
    payload = {"class": cls.__name__, "clause": clause, "pattern": pattern, "detail": detail}
    if snippet and os.path.exists(os.path.join(os.path.dirname(os.path.dirname(os.path.abspath(__file__))), "xengine", "witness.py")):
        payload["python"] = snippet
        rep.violation(full, payload)
    else:
        rep.violation(full, payload, no_input=True)


def run_class_init(rep, tier, seed, carved=()):
    classes = [c.__name__ for c in all_classes()]
    rep.extra["classes_enumerated"] = len(classes)
    n = 32
    chunks = [classes[i::n] for i in range(n)]
    jobs = [(rep.prop, ch, tier, seed, tuple(carved)) for ch in chunks if ch]
    if os.environ.get("VERIF_SERIAL"):
        for j in jobs:
            merge(rep, _work(j))
        return
    with ProcessPoolExecutor(max_workers=16) as ex:
        for d in ex.map(_work, jobs):
            merge(rep, d)
            rep.extra.setdefault("class_times", [])
            rep.extra["class_times"] += d["extra"].get("class_times", [])
