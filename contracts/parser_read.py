"""C17 (frames) / C05: OFXTree._read under contract - whose stream is it.

The source is either a stream of the caller's (anything with .read; it may or may not have a .mode) or a path that
_read opens itself.  parse_header is an abstract callee that returns a (header, body) pair or raises.  Proved on
every returning AND every raising path: a stream handed in by the caller is never closed and nothing but
parse_header touches it; a file opened here is closed exactly once; what parse_header returns is returned as it is."""
import builtins
import z3
from pyvc.contract import *
from pyvc.values import *
from pyvc import core as C
from ofxtools import Parser as P
from contracts.client import Marker, log


class AStream(Abstract):
    def __init__(self, label, has_mode, binary):
        self.label = label; self.has_mode = has_mode; self.binary = binary

    def p_getattr(self, it, name):
        if name == "read":
            return lambda *a: (log(it, "read", self.label), SVal(bytes, it.fresh("data", "V")))[1]
        if name == "close":
            return lambda: log(it, "close", self.label)
        if name == "mode":
            if self.has_mode is True or (self.has_mode is not False and it.branch(self.has_mode)):
                return "rb" if (self.binary is True or (self.binary is not False and it.branch(self.binary))) else "r"
            raise C.Raised(ExcVal(AttributeError, ("mode",)))
        if name in ("seek", "tell", "getvalue", "closed"):
            raise C.Unsupported(f"stream.{name}")
        raise C.Raised(ExcVal(AttributeError, (name,)))

    def p_truth(self, it):
        return True


class APathLike(Abstract):
    """a str / os.PathLike: no .read"""

    def p_getattr(self, it, name):
        raise C.Raised(ExcVal(AttributeError, (name,)))


def call_read(it, fn, a):
    kind, = a[:1]
    opened = []

    def m_open(it_, args, kw):
        log(it_, "open", args[0], args[1] if len(args) > 1 else kw.get("mode", "r"))
        s = AStream("opened-here", True, True)
        opened.append(s)
        return s

    def m_parse_header(it_, args, kw):
        log(it_, "parse_header", args[0])
        if it_.branch(z3.Bool("parse_header_raises")):
            raise C.Raised(ExcVal(P.OFXHeaderError if hasattr(P, "OFXHeaderError") else ValueError, ("refused",)))
        return (Marker("header"), SVal(str, it_.fresh("body", "V")))
    it.models[builtins.open] = m_open
    it.models[P.parse_header] = m_parse_header
    src = AStream("callers", z3.Bool("stream_has_mode"), z3.Bool("stream_is_binary")) if kind == "stream" else APathLike()
    it.st.ghost["src"] = src
    return it.call(P.OFXTree._read, [src], {})


def stream_rules(ghost, kind):
    raise RuntimeError("symbolic only")


def _stream_rules(it, a, kw):
    ghost, kind = a
    ev = ghost["calls"]
    closes = [c for c in ev if c[0] == "close"]
    opens = [c for c in ev if c[0] == "open"]
    ph = [c for c in ev if c[0] == "parse_header"]
    reads = [c for c in ev if c[0] == "read"]
    if reads:
        return False                                   # only parse_header reads
    if kind == "stream":
        return not opens and not closes and len(ph) <= 1 and all(c[1] is ghost["src"] for c in ph)
    if len(opens) != 1 or opens[0][1] is not ghost["src"] or it.concrete_key(opens[0][2]) != "rb":
        return False
    return len(closes) == 1 and closes[0][1] == "opened-here" and len(ph) <= 1 and all(isinstance(c[1], AStream) and c[1].label == "opened-here" for c in ph)


stream_rules._pyvc_model = _stream_rules
stream_rules._pyvc_always = True
import contracts.spec.client as _spc
_spc.stream_rules = stream_rules


class K_(Arg):
    def __init__(self, name, value):
        self.name = name; self.value = value

    def make(self, it):
        return self.value, []


CONTRACTS = [
    Contract("ofxtools.Parser:OFXTree._read", args=[K_("kind", k)], call=call_read,
             ensures=[("whose-stream-it-is", "spec.client.stream_rules(ghost, kind)"),
                      ("hands-on-what-parse_header-returns", "len(spec.client.calls(ghost, 'parse_header')) == 1")],
             raises=[(Exception, "True", "may")],
             on_raise=[("whose-stream-it-is (failing path)", "spec.client.stream_rules(ghost, kind)")],
             notes=f"source is a {k}; parse_header abstract: returns or raises; a text-mode stream is refused before anything is read",
             props=["C17", "C05"], symbolic_only=True)
    for k in ("stream", "path")
]


# ----------------------------------------------------------------------------------- OFXTree.convert: a function of the tree as it is now
import xml.etree.ElementTree as _ET
from ofxtools.models.base import Aggregate as _Agg


class ARoot(Abstract):
    pytype = _ET.Element

    def p_getattr(self, it, name):
        raise C.Unsupported(f"root.{name}")


class ATreeSelf(Abstract):
    """an OFXTree whose root was parsed (or edited in place) by the caller; every store on it is recorded"""
    pytype = P.OFXTree

    def __init__(self, root, earlier):
        self.root = root; self.earlier = earlier; self.writes = []

    def p_getattr(self, it, name):
        if name == "_root":
            return self.root
        if name in self.earlier:
            return self.earlier[name]           # whatever an earlier call may have left on the object
        raise C.Raised(ExcVal(AttributeError, (name,)))

    def p_setattr(self, it, name, value):
        self.writes.append((name, value))


def call_convert(it, fn, a):
    root = ARoot()
    stale = Marker("model-of-an-earlier-conversion")
    # an earlier convert() on this object may have left anything behind - in particular a model of the same root object
    earlier = {"_converted": (root, stale), "_cache": {id(root): stale}, "_instance": stale, "_models": stale} if a[0] == "converted-before" else {}
    me = ATreeSelf(root, earlier)
    it.models[_Agg.from_etree.__func__ if hasattr(_Agg.from_etree, "__func__") else _Agg.from_etree] = lambda it_, ar, kw: (log(it_, "from_etree", ar[-1]), Marker("fresh-model"))[1]
    r = it.call(P.OFXTree.convert, [me], {})
    return (r, me)


def convert_rules(ghost, result, which):
    raise RuntimeError("symbolic only")


def _convert_rules(it, a, kw):
    ghost, (r, me), which = a
    fe = [c for c in ghost["calls"] if c[0] == "from_etree"]
    if which == "fresh":
        return isinstance(r, Marker) and r.label == "fresh-model" and len(fe) == 1 and fe[0][1] is me.root
    return len(me.writes) == 0


convert_rules._pyvc_model = _convert_rules
convert_rules._pyvc_always = True
_spc.convert_rules = convert_rules

CONTRACTS += [
    Contract("ofxtools.Parser:OFXTree.convert", args=[K_("history", h)], call=call_convert,
             ensures=[("the-conversion-of-the-current-tree", "spec.client.convert_rules(ghost, result, 'fresh')"),
                      ("C17-nothing-kept-on-the-parser", "spec.client.convert_rules(ghost, result, 'writes')")],
             notes=f"parser object {h}: the tree may have been edited in place since; from_etree abstract", props=["C17"], symbolic_only=True)
    for h in ("fresh", "converted-before")
]
