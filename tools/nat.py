"""show native contract violations: nat.py <module> <index> [n]"""
import sys; import os; sys.path[:0]=['/verif', os.environ.get('VERIF_REPO','/repo')]
import random, importlib, warnings
warnings.simplefilter("ignore")
from pyvc.contract import native_check
cm=importlib.import_module(sys.argv[1]); c=cm.CONTRACTS[int(sys.argv[2])]; m,fn=c.resolve()
n=int(sys.argv[3]) if len(sys.argv)>3 else 400
seen=set()
for seed in range(3):
    rng=random.Random(seed)
    per=[a.samples(rng,25) for a in c.args]
    for i in range(n):
        args=[rng.choice(p) for p in per]
        if c.gen and i%4!=3: args=c.gen(rng)
        v,d=native_check(c,fn,args)
        if v=="violated" and d not in seen: seen.add(d); print(args, d)
