"""C02 - all wire renderings of one body parse to the same, faithful element tree."""
from props.common import run_contracts, replay_known_findings
from props.c10 import TRUSTED

LEVEL = "proof"
PARSER_TRUSTED = [
    "T-EXT: the C xml.etree TreeBuilder is mirrored by a ghost builder (start pushes, data sets text, end pops without comparing the tag, close returns the root without checking for open elements, a second root raises); re.finditer semantics (leftmost match at or after the previous end, unmatched characters skipped) is the symbolic matcher's",
    "T-LIB/re: symbolic backtracking matcher over the real TreeBuilder.regex (parsed by re._parser; greedy/lazy repeats, back-reference, scoped (?s:) flag)",
]


def run(rep, tier, seed):
    rep.trusted += TRUSTED + PARSER_TRUSTED
    rep.assumptions += [
        "proved (shape-bounded, character-unbounded): for every tree structure with <= 3 nodes and the listed per-node rendering choices (end tag yes/no, whitespace before/after data, CDATA with surrounding whitespace), with every tag character symbolic over [A-Z0-9._], every data character symbolic over all of Unicode except '<' (non-blank at the ends), every whitespace character over {space, tab, CR, LF}: feed();close() drives the builder through exactly the start/data/end events of the tree",
        "the induction from shapes to documents of any size is NOT proved; larger documents are covered by the bounded run: all trees with <= 4 nodes (5 thorough) x 6 rendering choices per node (12 for <= 3 nodes), about 440 000 renderings, against the strict reference tokenizer",
        "a data element without end tag directly inside a same-named parent is inherently ambiguous SGML and outside the scope",
    ]
    run_contracts(rep, "contracts.parser", tier, seed)
    run_contracts(rep, "contracts.parser_native", tier, seed)
    replay_known_findings(rep)
