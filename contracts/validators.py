"""C04 - constraints that a class declares in code (a validate_args override) rather than through the generic lists:
ACCTINFO - at least one <xxxACCTINFO>, and at most one per service, wherever in the sequence the second one stands."""
import z3
from pyvc.contract import *
from pyvc.values import *
from pyvc import core as C
import ofxtools.models as m
from ofxtools.models.base import Aggregate

KINDS = {n: type(n, (), {}) for n in ("BANKACCTINFO", "CCACCTINFO", "BPACCTINFO", "INVACCTINFO")}


class MembersArg(Arg):
    def __init__(self, kinds, name="members"):
        self.kinds = kinds; self.name = name

    def make(self, it):
        return [KINDS[k]() for k in self.kinds], []


def call_validate(it, fn, a):
    members = a[0]
    it.models[Aggregate.validate_args.__func__] = lambda it_, ar, kw: None      # the generic part has its own proofs (per class)
    return it.call(m.ACCTINFO.validate_args.__func__, [m.ACCTINFO] + list(members), {})


def dup(members):
    names = [type(x).__name__ for x in members]
    return len(set(names)) != len(names)


import contracts.spec.aggregate as _sa
_sa.has_duplicate_kind = dup

CONTRACTS = []
for kinds in ([], ["BANKACCTINFO"], ["BANKACCTINFO", "CCACCTINFO"], ["BANKACCTINFO", "BANKACCTINFO"], ["BANKACCTINFO", "CCACCTINFO", "BANKACCTINFO"],
              ["CCACCTINFO", "BANKACCTINFO", "INVACCTINFO", "CCACCTINFO"], ["INVACCTINFO", "BPACCTINFO", "CCACCTINFO", "BANKACCTINFO"],
              ["BPACCTINFO", "INVACCTINFO", "INVACCTINFO"], ["INVACCTINFO", "BANKACCTINFO", "BPACCTINFO", "CCACCTINFO", "INVACCTINFO"]):
    refused = len(kinds) == 0 or len(set(kinds)) != len(kinds)
    CONTRACTS.append(Contract("ofxtools.models.signup:ACCTINFO.validate_args", args=[MembersArg(kinds)], call=call_validate,
                              raises=[(ValueError, "len(members) == 0 or spec.aggregate.has_duplicate_kind(members)", "must")],
                              ensures=[] if refused else [("accepted", "len(members) > 0 and not spec.aggregate.has_duplicate_kind(members)")],
                              notes=f"members of kinds {kinds}: refused iff none, or two of one kind anywhere in the sequence", props=["C04"], symbolic_only=True))
