"""C05 - the header parser hands over exactly the body, decoded as the header declares."""
from props.common import run_contracts, replay_known_findings
from props.c10 import TRUSTED

LEVEL = "proof"


def run(rep, tier, seed):
    rep.trusted += TRUSTED + [
        "abstract BytesIO over a sequence of symbolic bytes: tell/seek/readline (split after byte 10)/read; bytes.decode for ascii, latin_1, cp1252 (exact table incl. the five undefined bytes) and the ASCII range of utf_8 (multi-byte UTF-8 sequences are outside the byte model and only in the bounded run)",
        "T-LIB/re: symbolic matcher on the real OFXHeaderV1.regex / XML_REGEX",
    ]
    rep.assumptions += [
        "proved per v1 layout (4 separators x blanks after the colon {0,1} x leading blank lines {0,1} x gap {none, CRLF, 2 CRLF, CR} x 3 character sets; the cross product in the thorough tier, 58 layouts in quick) with the NEWFILEUID characters and three body bytes symbolic (every byte value): header fields equal, body = the bytes from '<' to '>' decoded with the codec the CHARSET declares; the codec table itself for every CHARSET x ENCODING",
        "v2 files, longer bodies, UTF-8 multi-byte bodies, trailing whitespace and the remaining layout dimensions: bounded exhaustive run (about 22 000 v1 files, 400 v2 files) against a reference splitter",
    ]
    run_contracts(rep, "contracts.header_parse", tier, seed)
    run_contracts(rep, "contracts.parser_read", tier, seed)
    run_contracts(rep, "contracts.header_native", tier, seed)
    replay_known_findings(rep)
