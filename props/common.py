"""shared helpers for property checks: run contracts in a process pool and merge the results"""
import importlib, os, sys, time, traceback
from concurrent.futures import ProcessPoolExecutor
from vlib.common import Report, Obligation


class WorkBudget(BaseException):
    """raised inside a worker when one contract has used up its wall-clock budget"""


def _alarm(signum, frame):
    raise WorkBudget()


def _work(job):
    prop, cmod_name, index, tier, seed, shard = job
    from pyvc.contract import Verifier
    rep = Report(prop, tier, seed)
    t0 = time.time()
    import signal
    budget = int(os.environ.get("VERIF_CONTRACT_BUDGET_S", "900" if tier == "quick" else "5400"))
    try:
        signal.signal(signal.SIGALRM, _alarm)
        signal.alarm(budget)
    except Exception:
        pass
    try:
        return _work_inner(job, rep, t0)
    except WorkBudget:
        # what was decided before the budget ran out stands; the rest of this contract is undecided (never a violation)
        rep.downgraded.append({"function": f"{cmod_name}[{index}]{shard}", "reason": [f"wall-clock budget of {budget} s for one contract used up"],
                               "downgraded": "proof->undecided (time budget)"})
        return export(rep)
    finally:
        try:
            signal.alarm(0)
        except Exception:
            pass


def _work_inner(job, rep, t0):
    prop, cmod_name, index, tier, seed, shard = job
    from pyvc.contract import Verifier
    try:
        from vlib.common import adversarial_warmup
        adversarial_warmup()
        cmod = importlib.import_module(cmod_name)
        v = Verifier(rep, prop, cmod_name, seed)
        v.verify(cmod.CONTRACTS[index], index, shard)
        rep.extra["contract_times"] = [(f"{cmod_name}[{index}]{shard}", round(time.time() - t0, 2), cmod.CONTRACTS[index].notes)]
        st = v.it
        rep.extra["queries"] = st.nq
    except Exception:
        rep.engine_error(f"{cmod_name}[{index}]: " + traceback.format_exc()[-1200:])
    return export(rep)


def export(rep):
    return {"obligations": [(o.name, o.status, o.backend, o.time, o.detail, o.kind, o.function) for o in rep.obligations],
            "bounded": rep.bounded, "violations": rep.violations, "functions": rep.functions,
            "samples": rep.samples, "downgraded": rep.downgraded, "canaries": rep.canaries,
            "crosscheck": rep.crosscheck, "engine_errors": rep.engine_errors, "havoced": sorted(rep.havoced),
            "kf_lines": rep.kf_lines, "extra": rep.extra}


def merge(rep, d):
    for o in d["obligations"]:
        rep.add(Obligation(o[0], o[1], o[2], o[3], o[4], o[5], o[6]))
    rep.bounded += d["bounded"]; rep.violations += d["violations"]; rep.functions.update(d["functions"])
    for s in d["samples"]:
        rep.sample(s)
    rep.downgraded += d["downgraded"]
    rep.canaries[0] += d["canaries"][0]; rep.canaries[1] += d["canaries"][1]
    rep.crosscheck["samples"] += d["crosscheck"]["samples"]; rep.crosscheck["disagreements"] += d["crosscheck"]["disagreements"]
    rep.engine_errors += d["engine_errors"]; rep.havoced |= set(d["havoced"]); rep.kf_lines += d["kf_lines"]
    rep.extra["queries"] = rep.extra.get("queries", 0) + d["extra"].get("queries", 0)
    rep.extra.setdefault("contract_times", [])
    rep.extra["contract_times"] += d["extra"].get("contract_times", [])
    for k, a in d["extra"].get("aux", {}).items():
        t = rep.extra.setdefault("aux", {}).setdefault(k, {"ok": 0, "failed": 0, "where": []})
        t["ok"] += a["ok"]; t["failed"] += a["failed"]; t["where"] = (t["where"] + a["where"])[:5]


def run_contracts(rep, cmod_name, tier, seed, select=None, workers=16, accept_props=None):
    cmod = importlib.import_module(cmod_name)
    jobs = [(rep.prop, cmod_name, i, tier, seed, (k, c.shards)) for i, c in enumerate(cmod.CONTRACTS)
            if (rep.prop in c.props or (accept_props and set(accept_props) & set(c.props))) and (select is None or select(c)) and (tier == "thorough" or c.tier != "thorough") for k in range(c.shards)]
    jobs.sort(key=lambda j: -j[5][1])
    if os.environ.get("VERIF_SERIAL"):
        for j in jobs:
            merge(rep, _work(j))
        return
    _run_jobs(rep, _work, jobs, workers)


def _limit_memory():
    """a runaway symbolic execution must end as a MemoryError in its own worker, not take the machine down"""
    try:
        import resource
        lim = int(os.environ.get("VERIF_WORKER_MEM_GB", "10")) << 30
        resource.setrlimit(resource.RLIMIT_AS, (lim, lim))
    except Exception:
        pass


def _run_jobs(rep, fn, jobs, workers):
    """run the jobs in a pool; a worker that dies (killed, out of memory) costs only its own job: the jobs that were lost with
    the pool are run again one process each, and a job that kills its process again is recorded as undecided"""
    from concurrent.futures.process import BrokenProcessPool
    lost = []
    with ProcessPoolExecutor(max_workers=min(workers, max(1, len(jobs))), initializer=_limit_memory) as ex:
        futs = [(j, ex.submit(fn, j)) for j in jobs]
        for j, f in futs:
            try:
                merge(rep, f.result())
            except BrokenProcessPool:
                lost.append(j)
    for k in range(0, len(lost), workers):
        batch = lost[k:k + workers]
        pools = [ProcessPoolExecutor(max_workers=1, initializer=_limit_memory) for _ in batch]
        futs = [p.submit(fn, j) for p, j in zip(pools, batch)]
        for p, j, f in zip(pools, batch, futs):
            try:
                merge(rep, f.result())
            except BrokenProcessPool:
                rep.downgraded.append({"function": f"{j[1]}[{j[2]}]", "reason": ["the worker process died (resource exhaustion) - nothing decided for this contract"],
                                       "downgraded": "proof->undecided (worker died)"})
            finally:
                p.shutdown(wait=False)


def _lemma_work(job):
    prop, cmod_name, index, tier, seed = job
    from pyvc.contract import Verifier, clause_env
    from pyvc import core as C
    import z3, random
    rep = Report(prop, tier, seed)
    try:
        cmod = importlib.import_module(cmod_name)
        name, args, expr = cmod.LEMMAS[index]
        v = Verifier(rep, prop, cmod_name, seed)
        it = v.it
        vals = []; asm = []
        for a in args:
            x, am = a.make(it); vals.append(x); asm += am
        env = {a.name: x for a, x in zip(args, vals)}
        import contracts.spec as sp
        env["spec"] = sp
        paths = it.explore(lambda: it.truth(it.eval_src(expr, env)), asm)
        for i, p in enumerate(paths):
            full = f"{prop}/lemma:{name}/path{i}"
            if p.kind != "ret":
                rep.fail(full, "z3", f"lemma evaluation: {p.kind} {p.value}", kind="lemma")
                rep.engine_error(f"lemma {name} could not be evaluated: {p.kind} {p.value}")
                continue
            status, model, dt = it.prove(p.pc, p.value)
            if status == "unknown":
                status, model, dt = it.prove(p.pc, p.value, timeout_ms=120000)
                if status == "unknown":
                    rep.downgraded.append({"function": f"lemma:{name}", "reason": ["solver undecided within its budget"], "downgraded": "proof->undecided (solver budget)"})
                    continue
            if status.startswith("discharged"):
                rep.ok(full, "z3", dt, "lemma", f"lemma:{name}")
            else:
                concrete = None
                if model is not None:
                    try:
                        concrete = [a.concretize(model, x) for a, x in zip(args, vals)]
                    except Exception:
                        concrete = None
                rep.fail(full, "z3", f"{status} {concrete!r}", dt, "lemma", f"lemma:{name}")
                rep.violation(full, {"lemma": name, "expr": expr, "args": repr(concrete),
                                     "note": "lemma over spec functions only (no code involved)"}, no_input=concrete is None)
        # native sampling of the lemma
        rng = random.Random(seed + index)
        n = 0
        for _ in range(300):
            cargs = [rng.choice(a.samples(rng, 4)) for a in args]
            e2 = {a.name: x for a, x in zip(args, cargs)}; e2["spec"] = sp
            try:
                ok = eval(expr, {}, e2)
            except Exception:
                continue
            n += 1
            if not ok:
                rep.engine_error(f"lemma {name} false natively on {cargs!r}")
        rep.add_bounded(f"lemma:{name}", "R(native evaluation)", "300 sampled inputs", n, 0)
    except Exception:
        rep.engine_error(f"lemma {cmod_name}[{index}]: " + traceback.format_exc()[-1200:])
    return export(rep)


def run_lemmas(rep, cmod_name, tier, seed, workers=16):
    cmod = importlib.import_module(cmod_name)
    jobs = [(rep.prop, cmod_name, i, tier, seed) for i in range(len(getattr(cmod, "LEMMAS", [])))]
    if not jobs:
        return
    if os.environ.get("VERIF_SERIAL"):
        for j in jobs:
            merge(rep, _lemma_work(j))
        return
    _run_jobs(rep, _lemma_work, jobs, workers)


def replay_known_findings(rep):
    """replay every listed known finding of this property natively; print KNOWN-FINDING only while it still fails"""
    from concurrent.futures import ThreadPoolExecutor
    from vlib.common import load_known_findings, run_native
    kfs = [k for k in load_known_findings().get("findings", []) if k["property"] == rep.prop or rep.prop in k.get("also", [])]

    def one(k):
        try:
            rc, out, err = run_native(k["python"], timeout=120)
        except Exception as e:
            return k, None, str(e)
        return k, rc, err
    with ThreadPoolExecutor(max_workers=8) as ex:
        for k, rc, err in ex.map(one, kfs):
            if rc == 17:
                rep.known_finding(k, True)
            elif rc == 0:
                rep.extra.setdefault("known_findings_no_longer_failing", []).append(k["id"])
            else:
                rep.engine_error(f"known-finding replay {k['id']} failed to run: rc={rc} {str(err)[-300:]}")
    rep.extra["known_findings_listed"] = [k["id"] for k in kfs]
