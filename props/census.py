"""C17 - census of state that outlives a call (engine X: a syntactic frame check over the real source, re-read
on every run).

History independence needs more than argument frames: a function that keeps anything in a module global, a
class attribute, a shared descriptor instance, a default argument or a memo decorator makes later results depend
on earlier calls.  The symbolic interpreter refuses such writes (Unsupported), so they cannot be discharged
there; this census finds every syntactic site that can write state reachable after the call returns, in every
function of the parse / convert / serialize modules, and compares the set with the committed allow-list
(census_allow.json), where each admitted site carries the reason why it is harmless.  A site that is not listed
fails the obligation `census:<file>:<function>:<kind>:<target>`.

Sites (per function, nested functions included under their own qualified name):
  global / nonlocal declarations
  stores and deletes  x.a = ..  x[k] = ..  x.a += ..  del x[k]   whose root x is
        a module-level name | cls | type(self) / self.__class__ | self (in any method but __init__/__set_name__/
        __post_init__) | another parameter
  calls of mutating methods on such a root (append extend insert remove pop clear update setdefault add discard
        register sort reverse popitem __setitem__ __delitem__ write writelines) and setattr / delattr
  memo decorators (lru_cache, cache, cached_property) and mutable default arguments
Roots that are plain locals are not sites: a local is either fresh or an alias of a parameter/global - aliasing
is handled by treating `y = x`, `y = x.attr`, `y = x[k]`, `for y in x` as making y an alias of x's root
(one level of flow-insensitive propagation to a fixed point), while a local bound to a call result is owned
by the function unless the call is getattr/vars/dict-lookup on a non-local root."""
import ast, json, os

from vlib.common import VERIF

SCOPE = ["ofxtools/Types.py", "ofxtools/Parser.py", "ofxtools/utils.py", "ofxtools/header.py", "ofxtools/models"]
EXTRA_FUNCTIONS = {"ofxtools/Client.py": ["OFXClient.serialize"]}
MUTATORS = {"append", "extend", "insert", "remove", "pop", "clear", "update", "setdefault", "add", "discard", "register",
            "sort", "reverse", "popitem", "__setitem__", "__delitem__", "write", "writelines", "seek", "truncate"}
MEMO = {"lru_cache", "cache", "cached_property"}
# process- or thread-wide state of the standard library: writing it changes what later, unrelated calls compute
AMBIENT_ACCESSORS = {"getcontext": "decimal context", "getlogger": None}
AMBIENT_SETTERS = {"setcontext": "decimal context", "setlocale": "locale", "install_opener": "urllib opener", "setdefaulttimeout": "socket default timeout",
                   "seed": "random generator", "tzset": "time zone", "setrecursionlimit": "recursion limit", "setswitchinterval": "interpreter",
                   "putenv": "environment", "unsetenv": "environment", "chdir": "working directory", "umask": "umask", "setprofile": "interpreter", "settrace": "interpreter"}
AMBIENT_MODULE_ATTRS = {("os", "environ"): "environment", ("sys", "path"): "import path", ("sys", "modules"): "module table", ("warnings", "filters"): "warning filters"}
INIT_LIKE = {"__init__", "__set_name__", "__post_init__", "__new__", "__init_subclass__"}


def files(repo):
    out = []
    for s in SCOPE:
        p = os.path.join(repo, s)
        if os.path.isdir(p):
            for dp, dn, fn in os.walk(p):
                for f in sorted(fn):
                    if f.endswith(".py"):
                        out.append(os.path.relpath(os.path.join(dp, f), repo))
        else:
            out.append(s)
    return sorted(out) + sorted(EXTRA_FUNCTIONS)


def root_of(e):
    """-> (root Name id | special, path text) of an attribute/subscript chain"""
    while isinstance(e, (ast.Attribute, ast.Subscript, ast.Starred)):
        e = e.value
    if isinstance(e, ast.Name):
        return e.id
    if isinstance(e, ast.Call):
        f = e.func
        if isinstance(f, ast.Name) and f.id in ("type", "vars", "getattr", "globals", "locals") and e.args:
            inner = root_of(e.args[0]) if f.id != "globals" else "<module>"
            return f"{f.id}({inner})"
        if isinstance(f, ast.Name) and f.id in ("globals",):
            return "<module>"
        if isinstance(f, ast.Name) and f.id == "super":
            return "super()"
        nm = f.attr if isinstance(f, ast.Attribute) else (f.id if isinstance(f, ast.Name) else "")
        if AMBIENT_ACCESSORS.get(nm):
            return f"<ambient:{AMBIENT_ACCESSORS[nm]}>"
        return None            # result of a call: owned by the function
    return None


def text(e):
    try:
        return ast.unparse(e)
    except Exception:
        return type(e).__name__


class FnScan:
    def __init__(self, relfile, qual, node, module_names, in_class, is_method, class_level=()):
        self.file = relfile; self.qual = qual; self.node = node; self.module_names = module_names
        self.in_class = in_class; self.is_method = is_method
        self.class_level = set(class_level)      # names bound in the class body and never rebound on the instance
        a = node.args
        self.params = [p.arg for p in a.posonlyargs + a.args + a.kwonlyargs] + ([a.vararg.arg] if a.vararg else []) + ([a.kwarg.arg] if a.kwarg else [])
        self.sites = []
        self.alias = {}      # local -> root it may alias
        self.locals = set()

    def body_nodes(self):
        """all nodes of the function body, nested function/class definitions excluded"""
        stack = list(self.node.body)
        while stack:
            n = stack.pop()
            yield n
            for c in ast.iter_child_nodes(n):
                if isinstance(c, (ast.FunctionDef, ast.AsyncFunctionDef, ast.ClassDef, ast.Lambda)):
                    continue
                stack.append(c)

    def classify(self, root):
        """-> kind of state a root names, or None for function-owned"""
        if root is None:
            return None
        seen = set()
        while root in self.alias and root not in seen:
            seen.add(root); root = self.alias[root]
        if root is None:
            return None
        if root.startswith("type(") or root.endswith(".__class__"):
            return "class"
        if root.startswith("vars(") or root.startswith("getattr("):
            inner = root[root.index("(") + 1:-1]
            return self.classify(inner)
        if root.startswith("<ambient:"):
            return "ambient"
        if root == "<module>" or root.startswith("globals"):
            return "module"
        if root == "super()":
            return "self"
        if self.is_method and self.params and root == self.params[0]:
            return "cls" if self.params[0] == "cls" else "self"
        if root in self.params:
            return "param"
        if root in self.locals:
            return None
        if root in self.module_names:
            return "module"
        return None

    def collect_locals(self):
        for n in self.body_nodes():
            if isinstance(n, ast.Name) and isinstance(n.ctx, ast.Store):
                self.locals.add(n.id)
            if isinstance(n, (ast.Import, ast.ImportFrom)):
                for al in n.names:
                    self.locals.add((al.asname or al.name).split(".")[0])
        # aliases: fixed point over simple copies
        changed = True
        rounds = 0
        while changed and rounds < 6:
            changed = False; rounds += 1
            for n in self.body_nodes():
                pairs = []
                if isinstance(n, ast.Assign) and len(n.targets) == 1 and isinstance(n.targets[0], ast.Name):
                    pairs.append((n.targets[0].id, n.value))
                elif isinstance(n, ast.AnnAssign) and isinstance(n.target, ast.Name) and n.value is not None:
                    pairs.append((n.target.id, n.value))
                elif isinstance(n, ast.For) and isinstance(n.target, ast.Name):
                    pairs.append((n.target.id, n.iter))
                elif isinstance(n, ast.NamedExpr) and isinstance(n.target, ast.Name):
                    pairs.append((n.target.id, n.value))
                for name, val in pairs:
                    if isinstance(val, ast.Call) and isinstance(val.func, ast.Name) and val.func.id in ("set", "list", "tuple", "sorted", "reversed", "iter") and val.args:
                        # a fresh container of the same elements: iterating it yields the callee's objects
                        if isinstance(n, ast.For):
                            val = val.args[0]
                        else:
                            continue
                    if isinstance(val, ast.Call) and isinstance(val.func, ast.Attribute) and val.func.attr in ("find", "get", "items", "values", "findall", "iter", "__getitem__"):
                        val = val.func.value       # an element of the receiver
                    r = root_of(val) if isinstance(val, (ast.Name, ast.Attribute, ast.Subscript, ast.Call)) else None
                    if r is None or r == name:
                        continue
                    k = self.classify(r)
                    if k is not None and self.alias.get(name) != r:
                        self.alias[name] = r; changed = True

    def resolve_root(self, root):
        seen = set()
        while root in self.alias and root not in seen:
            seen.add(root); root = self.alias[root]
        return root

    def canon(self, e):
        """target text with a leading local alias replaced by the root it stands for: renaming a local, or
        introducing one for an element of a parameter, does not change the site"""
        t = text(e)
        b = e
        while isinstance(b, (ast.Attribute, ast.Subscript, ast.Starred)):
            b = b.value
        if isinstance(b, ast.Name) and b.id in self.alias:
            r = self.resolve_root(b.id)
            if r and t.startswith(b.id):
                return r + t[len(b.id):]
        return t

    def site(self, kind, target, node):
        self.sites.append({"file": self.file, "function": self.qual, "kind": kind, "target": target, "line": node.lineno})

    def through_class_level(self, e, k):
        """a container that lives on the CLASS (bound in the class body, never rebound per instance) reached as self.<name>:
        writing INTO it (item store, mutating call) changes it for every instance and every later call"""
        if k != "self" or not self.class_level:
            return k
        b = e
        chain = []
        while isinstance(b, (ast.Attribute, ast.Subscript, ast.Starred)):
            chain.append(b); b = b.value
        if not (isinstance(b, ast.Name) and self.params and b.id == self.params[0]) or not chain:
            return k
        first = chain[-1]
        if isinstance(first, ast.Attribute) and first.attr in self.class_level and len(chain) >= 2:
            return "class"
        return k

    def scan(self):
        self.collect_locals()
        name = self.node.name
        for d in self.node.decorator_list:
            t = text(d)
            if any(m in t for m in MEMO):
                self.site("memo-decorator", t, self.node)
        a = self.node.args
        for dflt in list(a.defaults) + [x for x in a.kw_defaults if x is not None]:
            if isinstance(dflt, (ast.List, ast.Dict, ast.Set, ast.ListComp, ast.DictComp, ast.SetComp)) or \
                    (isinstance(dflt, ast.Call) and isinstance(dflt.func, ast.Name) and dflt.func.id in ("list", "dict", "set", "defaultdict", "OrderedDict")):
                self.site("mutable-default", text(dflt), self.node)
            elif isinstance(dflt, ast.Call):
                # an object built ONCE, when the function is defined, and shared by every call that leaves the argument out
                # (constructors of values that cannot change are not sites)
                fn_ = text(dflt.func)
                if fn_.split(".")[-1] not in ("frozenset", "tuple", "str", "bytes", "int", "float", "bool", "complex", "timedelta", "date", "time", "datetime",
                                              "timezone", "Decimal", "Fraction", "compile", "object", "namedtuple", "MappingProxyType", "TypeVar"):
                    self.site("mutable-default", text(dflt), self.node)
        for n in self.body_nodes():
            if isinstance(n, (ast.Global, ast.Nonlocal)):
                self.site("global" if isinstance(n, ast.Global) else "nonlocal", ",".join(n.names), n)
            targets = []
            if isinstance(n, ast.Assign):
                targets = n.targets
            elif isinstance(n, (ast.AugAssign, ast.AnnAssign)):
                targets = [n.target] if not (isinstance(n, ast.AnnAssign) and n.value is None) else []
            elif isinstance(n, ast.Delete):
                targets = n.targets
            elif isinstance(n, (ast.For, ast.AsyncFor)):
                targets = [n.target]
            elif isinstance(n, ast.With):
                targets = [i.optional_vars for i in n.items if i.optional_vars is not None]
            flat = []
            for t in targets:
                if isinstance(t, (ast.Tuple, ast.List)):
                    flat += list(t.elts)
                else:
                    flat.append(t)
            for t in flat:
                if isinstance(t, (ast.Attribute, ast.Subscript)):
                    k = self.through_class_level(t, self.classify(root_of(t)))
                    if k == "self" and name in INIT_LIKE:
                        continue
                    if k is not None:
                        self.site(f"store:{k}", self.canon(t), n)
            if isinstance(n, ast.Call):
                f = n.func
                if isinstance(f, ast.Attribute) and f.attr in MUTATORS:
                    k = self.classify(root_of(f.value))
                    if k == "self":
                        # self.<class-level name>.append(...) : the receiver itself is the class-level container
                        b = f.value
                        while isinstance(b, (ast.Subscript, ast.Starred)):
                            b = b.value
                        if isinstance(b, ast.Attribute) and isinstance(b.value, ast.Name) and self.params and b.value.id == self.params[0] and b.attr in self.class_level:
                            k = "class"
                    if k == "self" and name in INIT_LIKE:
                        continue
                    if k is not None:
                        self.site(f"mutator:{k}", f"{self.canon(f.value)}.{f.attr}", n)
                fname = f.attr if isinstance(f, ast.Attribute) else (f.id if isinstance(f, ast.Name) else "")
                if fname in AMBIENT_SETTERS:
                    self.site("ambient-setter", f"{text(f)} ({AMBIENT_SETTERS[fname]})", n)
                if isinstance(f, ast.Name) and f.id in ("setattr", "delattr") and n.args:
                    k = self.classify(root_of(n.args[0]) if not isinstance(n.args[0], ast.Name) else n.args[0].id)
                    if k == "self" and name in INIT_LIKE:
                        continue
                    if k is not None:
                        self.site(f"{f.id}:{k}", self.canon(n.args[0]), n)
        return self.sites


def scan_file(repo, rel, only=None):
    src = open(os.path.join(repo, rel)).read()
    tree = ast.parse(src)
    module_names = set()
    for n in tree.body:
        for t in ast.walk(n) if isinstance(n, (ast.Assign, ast.AnnAssign, ast.AugAssign, ast.Import, ast.ImportFrom)) else []:
            if isinstance(t, ast.Name) and isinstance(t.ctx, ast.Store):
                module_names.add(t.id)
            if isinstance(t, ast.alias):
                module_names.add((t.asname or t.name).split(".")[0])
        if isinstance(n, (ast.FunctionDef, ast.ClassDef)):
            module_names.add(n.name)
    sites = []
    nfun = 0

    def class_level_names(cdef):
        bound = set()
        for st in cdef.body:
            if isinstance(st, ast.Assign):
                for t in st.targets:
                    if isinstance(t, ast.Name):
                        bound.add(t.id)
            elif isinstance(st, ast.AnnAssign) and isinstance(st.target, ast.Name) and st.value is not None:
                bound.add(st.target.id)
        rebound = set()
        for fn in ast.walk(cdef):
            if isinstance(fn, (ast.FunctionDef, ast.AsyncFunctionDef)) and fn.args.args:
                me = fn.args.args[0].arg
                for x in ast.walk(fn):
                    tg = x.targets if isinstance(x, ast.Assign) else ([x.target] if isinstance(x, (ast.AnnAssign, ast.AugAssign)) else [])
                    for t in tg:
                        if isinstance(t, ast.Attribute) and isinstance(t.value, ast.Name) and t.value.id == me:
                            rebound.add(t.attr)
        return bound - rebound

    def walk(body, prefix, in_class, class_level=()):
        nonlocal nfun
        for n in body:
            if isinstance(n, (ast.FunctionDef, ast.AsyncFunctionDef)):
                qual = prefix + n.name
                if only is None or any(qual == o or qual.startswith(o + ".") for o in only):
                    decos = [text(d) for d in n.decorator_list]
                    is_method = in_class and "staticmethod" not in decos
                    nfun += 1
                    sites.extend(FnScan(rel, qual, n, module_names, in_class, is_method, class_level if is_method else ()).scan())
                walk(n.body, qual + ".", False)
            elif isinstance(n, ast.ClassDef):
                walk(n.body, prefix + n.name + ".", True, class_level_names(n))
            elif isinstance(n, (ast.If, ast.Try, ast.With, ast.For, ast.While)):
                for fld in ("body", "orelse", "finalbody"):
                    walk(getattr(n, fld, []) or [], prefix, in_class, class_level)
                for h in getattr(n, "handlers", []) or []:
                    walk(h.body, prefix, in_class, class_level)
    walk(tree.body, "", False)
    # module-level statements that mutate at import time are not call-time state; class bodies likewise
    return sites, nfun


def census(repo):
    allsites = []
    nfun = 0
    nfiles = 0
    for rel in files(repo):
        s, n = scan_file(repo, rel, EXTRA_FUNCTIONS.get(rel))
        allsites += s; nfun += n; nfiles += 1
    return allsites, nfun, nfiles


def key(s):
    return f"{s['file']}:{s['function']}:{s['kind']}:{s['target']}"


def load_allow():
    return json.load(open(os.path.join(VERIF, "census_allow.json")))


def alarming(s):
    """kinds of site that can carry state from one call to the next whoever the caller is.  Writes through a
    parameter, or to self of an object that lives for one parse / one model, are frame questions: they are decided
    by the ownership and frame contracts of the functions concerned, and are only *listed* by the census."""
    k = s["kind"]
    if k in ("global", "nonlocal", "memo-decorator", "mutable-default", "ambient-setter"):
        return True
    what = k.split(":")[-1]
    if what in ("module", "class", "cls", "ambient"):
        return True
    if what == "self" and s["file"] == "ofxtools/Types.py":
        return True          # the converters are descriptors: one instance serves every model object
    return False


def run_census_of(rep, repo, relfiles, only_kinds=("global", "nonlocal", "memo-decorator", "mutable-default")):
    """the same census over whole files outside C17's scope, reported under rep.prop: the kinds of site that make two calls - or
    two threads - share an object whoever the caller is (module-level rebinding, memo decorators, default-argument objects)"""
    allow = load_allow()
    listed = {e["site"] for e in allow["sites"]}
    n = 0
    for rel in relfiles:
        sites, nfun = scan_file(repo, rel, None)
        n += nfun
        seen = set()
        for s_ in sites:
            if s_["kind"] not in only_kinds:
                continue
            k = key(s_)
            if k in seen:
                continue
            seen.add(k)
            full = f"{rep.prop}/census:{k}"
            if k in listed or any(match_rule(r, s_) for r in allow["rules"]):
                rep.ok(full, "census", 0.0, "frame", f"{s_['file']}:{s_['function']}")
            else:
                rep.fail(full, "census", f"an object shared by every call, not admitted: {s_['kind']} {s_['target']} at {s_['file']}:{s_['line']}", 0.0, "frame", f"{s_['file']}:{s_['function']}")
                rep.violation(full, {"clause": "no object is shared between calls (census)", "site": s_,
                                     "note": "state that every call - and every thread - of this function shares, absent from census_allow.json"}, no_input=True)
    rep.ok(f"{rep.prop}/census:scanned-{'+'.join(os.path.basename(r) for r in relfiles)}", "census", 0.0, "frame", "census", detail=f"{n} functions")
    if n < 20:
        rep.engine_error(f"census of {relfiles} scanned only {n} functions")


def run_census(rep, repo):
    import time
    t0 = time.time()
    sites, nfun, nfiles = census(repo)
    allow = load_allow()
    rules = allow["rules"]
    listed = {e["site"]: e for e in allow["sites"]}
    rep.extra["census"] = {"files": nfiles, "functions_scanned": nfun, "sites_found": len(sites), "admitted_by_rule": 0, "admitted_by_listing": 0, "new": []}
    if nfun < 150:
        rep.engine_error(f"census scanned only {nfun} functions - scope broken?")
    seen = set()
    for s in sites:
        k = key(s)
        if k in seen:
            continue
        seen.add(k)
        full = f"C17/census:{k}"
        rule = next((r for r in rules if match_rule(r, s)), None)
        if rule is not None:
            rep.extra["census"]["admitted_by_rule"] += 1
            rep.ok(full, "census", 0.0, "frame", f"{s['file']}:{s['function']}", detail=f"rule {rule['id']}")
        elif k in listed:
            rep.extra["census"]["admitted_by_listing"] += 1
            rep.ok(full, "census", 0.0, "frame", f"{s['file']}:{s['function']}", detail=listed[k]["why"][:200])
        elif not alarming(s):
            rep.extra["census"].setdefault("frame_sites_not_listed", []).append(k)
        else:
            rep.extra["census"]["new"].append(s)
            rep.fail(full, "census", f"write to state that outlives the call, not admitted: {s['kind']} {s['target']} at {s['file']}:{s['line']}", 0.0, "frame", f"{s['file']}:{s['function']}")
            rep.violation(full, {"clause": "no state outlives a call (census)", "site": s,
                                 "note": "a syntactic site that can store state reachable after the call returns, absent from census_allow.json; "
                                         "history independence of parse/convert/serialize is not established with it"}, no_input=True)
    check_indent_callsites(rep, repo)
    rep.extra["census"]["seconds"] = round(time.time() - t0, 2)


def check_indent_callsites(rep, repo):
    """call-site precondition of utils.indent (which rewrites text/tail in place): the argument is a local that the
    calling function bound to the result of a .to_etree() call - a tree nobody else holds"""
    n = 0
    for dp, dn, fn in os.walk(os.path.join(repo, "ofxtools")):
        for f in fn:
            if not f.endswith(".py"):
                continue
            rel = os.path.relpath(os.path.join(dp, f), repo)
            tree = ast.parse(open(os.path.join(dp, f)).read())
            for fdef in [x for x in ast.walk(tree) if isinstance(x, (ast.FunctionDef, ast.AsyncFunctionDef))]:
                if fdef.name == "indent" and rel == "ofxtools/utils.py":
                    continue          # the recursion on the children of its own argument
                for c in [x for x in ast.walk(fdef) if isinstance(x, ast.Call)]:
                    fn_ = c.func
                    nm = fn_.attr if isinstance(fn_, ast.Attribute) else (fn_.id if isinstance(fn_, ast.Name) else None)
                    if nm != "indent" or not c.args:
                        continue
                    n += 1
                    arg = c.args[0]
                    ok = False
                    if isinstance(arg, ast.Name):
                        binds = [a for a in ast.walk(fdef) if isinstance(a, ast.Assign) and any(isinstance(t, ast.Name) and t.id == arg.id for t in a.targets)]
                        ok = bool(binds) and all(isinstance(b.value, ast.Call) and isinstance(b.value.func, ast.Attribute) and b.value.func.attr == "to_etree" for b in binds) \
                            and arg.id not in [p.arg for p in fdef.args.args]
                    full = f"C17/census:indent-call-site:{rel}:{fdef.name}:{c.lineno and text(arg)}"
                    if ok:
                        rep.ok(full, "census", 0.0, "frame", f"{rel}:{fdef.name}", detail="argument bound to a to_etree() result")
                    else:
                        rep.fail(full, "census", f"indent() is applied to {text(arg)}, which is not a tree the function has just built", 0.0, "frame", f"{rel}:{fdef.name}")
                        rep.violation(full, {"clause": "indent call-site precondition", "file": rel, "function": fdef.name, "argument": text(arg)}, no_input=True)
    rep.extra["census"]["indent_call_sites"] = n


def match_rule(rule, s):
    import fnmatch
    return (fnmatch.fnmatch(s["file"], rule.get("file", "*")) and fnmatch.fnmatch(s["function"], rule.get("function", "*"))
            and fnmatch.fnmatch(s["kind"], rule.get("kind", "*")) and fnmatch.fnmatch(s["target"], rule.get("target", "*")))


if __name__ == "__main__":
    import sys
    sites, nfun, nfiles = census(sys.argv[1] if len(sys.argv) > 1 else "/repo")
    print(nfiles, "files", nfun, "functions", len(sites), "sites")
    for s in sites:
        print(key(s), f"(line {s['line']})")
