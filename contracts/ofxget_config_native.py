"""Bounded checks (engine R) for ofxget's settings (property C18) on the real argparser, merge_config, read_config,
mk_server_cfg and write_config with a scratch configuration directory: precedence per option and persistence."""
import itertools, os, random, shutil, tempfile
from pathlib import Path
from unittest.mock import patch
from pyvc.contract import *

OFXHOME = {"url": "https://ofxhome.example/ofx", "org": "HOMEORG", "fid": "9999", "brokerid": "home.example"}


class Lookup:
    def __init__(self, d):
        self.__dict__.update(d)
        self.name = "OFX Home FI"


class _Resp:
    def __init__(self, data):
        self.data = data

    def __enter__(self):
        return self

    def __exit__(self, *a):
        return False

    def read(self):
        return self.data


def home_record(lookup):
    """what www.ofxhome.com answers for the institution (the library's own record parser reads it): the texts as OFX Home
    serves them - indented, on lines of their own, '&' escaped; no such institution: an empty answer (not XML)"""
    from xml.sax.saxutils import escape
    if lookup is None:
        raise urllib_error.URLError("no such institution")
    pad = getattr(lookup, "pad", ("\n    ", "\n  "))
    f = lambda tag: f"<{tag}>{pad[0]}{escape(getattr(lookup, tag))}{pad[1]}</{tag}>" if getattr(lookup, tag, None) is not None else f"<{tag}></{tag}>"
    return ('<institution id="424">' + f("name") + f("fid") + f("org") + f("url") + f("brokerid") +
            "<ofxfail>0</ofxfail><sslfail>0</sslfail><lastofxvalidation>2019-04-29 23:08:45</lastofxvalidation>"
            "<lastsslvalidation>2019-04-29 23:08:44</lastsslvalidation>"
            '<profile finame="OFX Home FI" signonmsgset="true" bankmsgset="true"/></institution>').encode()


import urllib.error as urllib_error


class Sandbox:
    def __enter__(self):
        import logging
        logging.disable(logging.CRITICAL)
        from ofxtools.scripts import ofxget
        self.g = ofxget
        self.tmp = tempfile.mkdtemp(prefix="verif-c18-")
        self.saved = (ofxget.USERCONFIGPATH, ofxget.config.USERCONFIGDIR, ofxget.USERCFG)
        ofxget.config.USERCONFIGDIR = Path(self.tmp)
        ofxget.USERCONFIGPATH = Path(self.tmp) / "ofxget.cfg"
        return self

    def __exit__(self, *a):
        g = self.g
        g.USERCONFIGPATH, g.config.USERCONFIGDIR, g.USERCFG = self.saved
        shutil.rmtree(self.tmp, ignore_errors=True)

    def run(self, argv, lookup=None):
        g = self.g
        g.USERCFG = g.UserConfig()
        g.USERCFG.read([g.CONFIGPATH, g.USERCONFIGPATH])
        ns = g.make_argparser().parse_args(argv)
        with patch("urllib.request.urlopen", lambda *a, **k: _Resp(home_record(lookup))), patch("builtins.print"):
            merged = g.merge_config(ns, g.USERCFG)
        if merged["write"]:
            import warnings
            with warnings.catch_warnings():
                warnings.simplefilter("ignore")
                g.write_config(merged)
        return merged

    def userfile(self):
        p = self.g.USERCONFIGPATH
        return p.read_text() if p.exists() else None


CLI = {"url": ("--url", "https://cli.example/ofx"), "version": ("--version", "160"), "org": ("--org", "CLIORG"), "fid": ("--fid", "1111"),
       "brokerid": ("--brokerid", "cli.example"), "bankid": ("--bankid", "CLIBANK"), "user": ("-u", "cliuser"), "checking": ("-C", "111"),
       "appid": ("--appid", "CLIAPP"), "appver": ("--appver", "9900"), "language": ("--language", "FRA"), "useragent": ("--useragent", "cli-agent/1"),
       # flags: given on the command line they say True; not given they say nothing
       "pretty": ("--pretty",), "unclosedelements": ("--unclosedelements",), "nonewfileuid": ("--nonewfileuid",), "skipprofile": ("--skipprofile",)}
USER = {"url": "https://user.example/ofx", "version": "151", "org": "USERORG", "fid": "2222", "brokerid": "user.example", "bankid": "USERBANK",
        "user": "fileuser", "checking": "222, 333", "appid": "USRAPP", "appver": "1100", "language": "DEU", "useragent": "file-agent/2",
        "pretty": "true", "unclosedelements": "true", "nonewfileuid": "true", "skipprofile": "true"}
FLAGS = ("pretty", "unclosedelements", "nonewfileuid", "skipprofile")
TYPED = {"version": int, "checking": lambda s: [x.strip() for x in s.split(",")], **{f: (lambda s: s == "true") for f in ("pretty", "unclosedelements", "nonewfileuid", "skipprofile")}}


def check_precedence(it, fn, a):
    cli_set, user_set, use_home, server = a
    with Sandbox() as sb:
        g = sb.g
        lines = [f"[{server}]"]
        blanked = [o[:-1] for o in user_set if o.endswith("=")]
        user_set = [o for o in user_set if not o.endswith("=")]
        for o in user_set:
            lines.append(f"{o} = {USER[o]}")
        for o in blanked:
            lines.append(f"{o} =")
        if use_home:
            lines.append("ofxhome = 424")
        (Path(sb.tmp) / "ofxget.cfg").write_text("\n".join(lines) + "\n")
        argv = ["stmt", server, "--dryrun"]
        for o in cli_set:
            argv += list(CLI[o])
        try:
            merged = sb.run(argv, Lookup(OFXHOME) if use_home else None)
        except SystemExit:
            return []
        except Exception as ex:
            return [f"{type(ex).__name__}: {ex}"]
        lib = g.read_config(g.LIBCFG, server)
        problems = []
        for o in CLI:
            conv = TYPED.get(o, str)
            if o in cli_set:
                want = True if o in FLAGS else (conv(CLI[o][1]) if o != "checking" else [CLI[o][1]])
            elif o in blanked:
                want = ""
            elif o in user_set:
                want = conv(USER[o])
            elif o in lib:
                want = lib[o]
            elif use_home and o in OFXHOME:
                want = OFXHOME[o]
            else:
                want = g.DEFAULTS[o]
            if merged[o] != want:
                problems.append(f"{o}: in effect {merged[o]!r}, highest-ranking source says {want!r}")
        return problems


def cases_precedence(tier):
    out = []
    rng = random.Random(5)
    opts = list(CLI)
    n = 400 if tier == "thorough" else 120
    for _ in range(n):
        cli_set = [o for o in opts if rng.random() < 0.3]
        user_set = [o for o in opts if rng.random() < 0.4]
        out.append([cli_set, user_set, rng.random() < 0.5, rng.choice(["myfi", "usaa", "myfi"])])
    # a value the user's file sets to blank is still the user's value: OFX Home does not fill it in
    out.append([[], ["url", "org", "brokerid=", "fid="], True, "myfi"])
    out.append([[], ["url", "brokerid="], True, "myfi"])
    # OFX Home values must fill what the user file leaves open even when the URL is known
    out.append([[], ["url"], True, "myfi"])
    out.append([["url"], [], True, "myfi"])
    return out


PERSIST = ["url", "version", "pretty", "unclosedelements", "org", "fid", "bankid", "brokerid", "user", "checking", "savings", "creditcard", "investment", "appid", "appver", "language",
           "nonewfileuid", "skipprofile", "useragent"]


def check_persistence(it, fn, a):
    server, first_opts, preexisting, dryrun = a
    with Sandbox() as sb:
        if preexisting:
            glob_ = {k[len("DEFAULT."):]: v for k, v in preexisting.items() if k.startswith("DEFAULT.")}
            own = {k: v for k, v in preexisting.items() if not k.startswith("DEFAULT.")}
            text0 = ""
            if glob_:
                text0 += "[DEFAULT]\n" + "\n".join(f"{k} = {v}" for k, v in glob_.items()) + "\n\n"
            text0 += f"[{server}]\n" + "\n".join(f"{k} = {v}" for k, v in own.items()) + "\n"
            (Path(sb.tmp) / "ofxget.cfg").write_text(text0)
        argv = ["stmt", server, "--write"] + (["--dryrun"] if dryrun else [])
        for o in first_opts:
            argv += o
        before = sb.userfile()
        try:
            first = sb.run(argv)
        except SystemExit:
            return []
        except Exception as ex:
            if "Missing URL" in str(ex):
                return []          # no URL known for this server: a legitimate refusal, not a persistence question
            return [f"first run: {type(ex).__name__}: {ex}"]
        text = sb.userfile()
        problems = []
        if dryrun:
            if text != before:
                problems.append("dry run wrote the configuration file")
            # ... and through the real command handlers (they are what decides to store): every sub-command that takes --write,
            # as a dry run, leaves the user's file as it was
            g = sb.g
            for cmd, handler in (("stmt", "request_stmt"), ("stmtend", "request_stmtend"), ("prof", "request_profile"), ("acctinfo", "request_acctinfo"), ("tax1099", "request_tax1099")):
                argv2 = [cmd, server, "--write", "--dryrun"]
                for o in first_opts:
                    argv2 += o
                try:
                    g.USERCFG = g.UserConfig(); g.USERCFG.read([g.CONFIGPATH, g.USERCONFIGPATH])
                    import contextlib, io as _io
                    with contextlib.redirect_stderr(_io.StringIO()):
                        ns = g.make_argparser().parse_args(argv2)
                except SystemExit:
                    continue                  # this sub-command does not take one of the options
                try:
                    with patch("urllib.request.urlopen", lambda *a_, **k_: _Resp(home_record(None))), patch("builtins.print"), \
                            patch("ofxtools.scripts.ofxget.get_passwd", lambda a_: "t0ps3kr1t"):
                        merged = g.merge_config(ns, g.USERCFG)
                        getattr(g, handler)(merged)
                except (SystemExit, Exception):
                    pass
                if sb.userfile() != before:
                    problems.append(f"'ofxget {cmd} --dryrun --write' wrote the configuration file")
                    break
            return problems
        if text is None:
            return ["--write produced no file"]
        if "password" in text.lower() or "t0ps3kr1t" in text:
            problems.append("password stored")
        try:
            second = sb.run(["stmt", server])
        except SystemExit:
            return problems
        except Exception as ex:
            return problems + [f"second run: {type(ex).__name__}: {ex}"]
        for o in PERSIST:
            if second[o] != first[o]:
                problems.append(f"{o}: saved run used {first[o]!r}, next run uses {second[o]!r}")
        # one generated default CLIENTUID, kept across runs
        import configparser
        c1 = configparser.ConfigParser(); c1.read_string(text)
        uid1 = c1.defaults().get("clientuid")
        sb.run(["stmt", server, "--write"] + [x for o in first_opts for x in o])
        c2 = configparser.ConfigParser(); c2.read_string(sb.userfile())
        if not uid1 or c2.defaults().get("clientuid") != uid1:
            problems.append(f"default CLIENTUID not kept: {uid1!r} -> {c2.defaults().get('clientuid')!r}")
        return problems


def cases_persistence(tier):
    out = []
    rng = random.Random(9)
    pool = [["-C", "1234 5678"], ["-c", "4111 1111 1111 1111", "-c", "5500"], ["-S", "A 1", "-S", "B  2"], ["-i", "IRA 77"],
            ["-u", "john #1"], ["--org", "ACME ;2"], ["--appid", "A #B ;C"], ["--url", "https://bank.example/ofx#frag ;x"], ["-u", "a = b"], ["-u", "[sect]"], ["--org", "x: y"],
            ["--nonewfileuid"], ["--skipprofile"], ["--unclosedelements", "--version", "102"], ["--useragent", "agent/1 (x; y)"], ["--language", "FRA"], ["--appver", "0100"],
            ["--url", "https://bank.example/ofx"], ["--url", "https://bank.example/ofx?a=b&c=d"], ["--url", "https://bank.example/ofx?x=%20y"], ["-u", "100%user"], ["--version", "203"], ["--version", "102"], ["--version", "220"],
            ["--pretty"], ["--org", "ORG"], ["--fid", "77"], ["--bankid", "B1"], ["--brokerid", "br.example"],
            ["-u", "porkypig"], ["-C", "111"], ["-C", "111", "-C", "222"], ["-S", "333"], ["-c", "4111", "-c", "4222", "-c", "4333"], ["-i", "77001"],
            ["--appid", "MONEY"], ["--appver", "1900"], ["--language", "FRA"]]
    n = 300 if tier == "thorough" else 100
    for _ in range(n):
        k = rng.randint(1, 5)
        opts = rng.sample(pool, k)
        flags = [o[0] for o in opts]
        if len(set(flags)) != len(flags):
            continue
        pre = {}
        if rng.random() < 0.5:
            # an older value in the server's section or in the user's [DEFAULT] section
            pre = {rng.choice(["version", "appid", "org", "DEFAULT.version", "DEFAULT.appid", "DEFAULT.language"]): rng.choice(["102", "OLD", "151"])}
            pre = {k: (v if not k.endswith("version") or v.isdigit() else "151") for k, v in pre.items()}
        out.append([rng.choice(["myfi", "usaa", "myfi", "CreditUnion", "My_Bank-2"]), opts, pre, rng.random() < 0.15])
    # a value equal to the built-in default must still supersede what the FI database / an older file says
    out.append(["usaa", [["--version", "203"], ["-u", "porkypig"], ["-C", "111"]], {}, False])
    out.append(["myfi", [["--url", "https://bank.example/ofx"], ["--version", "203"]], {"version": "102"}, False])
    out.append(["myfi", [["--url", "https://bank.example/ofx"], ["--version", "203"]], {"DEFAULT.version": "102"}, False])
    out.append(["myfi", [["--url", "https://bank.example/ofx"], ["--appid", "QWIN"]], {"DEFAULT.appid": "MONEY"}, False])
    return out


class A_(Arg):
    def __init__(self, name):
        self.name = name


CONTRACTS = [
    Contract("ofxtools.scripts.ofxget:merge_config", args=[A_("cli_set"), A_("user_set"), A_("use_home"), A_("server")], call=check_precedence,
             ensures=[("highest-ranking-source-wins-per-option", "result == []")], cases=cases_precedence, native_only=True, shards=8,
             notes="sampled subsets of 9 options set on the command line / in the user file, with and without an OFX Home id, for a server known to the bundled FI database (usaa) and an unknown nickname; real argparser, configparser layering and merge_config",
             props=["C18"]),
    Contract("ofxtools.scripts.ofxget:write_config", args=[A_("server"), A_("first_opts"), A_("preexisting"), A_("dryrun")], call=check_persistence,
             ensures=[("saved-settings-are-the-next-run's-settings", "result == []")], cases=cases_persistence, native_only=True, shards=8,
             notes="sampled option sets written with --write (incl. URLs with & and =, account lists of 1-3, values equal to built-in defaults) over an empty or pre-existing user file, then a second run without the options; password never stored; nothing on a dry run; one default CLIENTUID kept",
             props=["C18"]),
]
