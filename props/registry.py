"""Single source for MANIFEST.json: `python3 -m props.registry` rewrites it."""
import json, os

VERIF = os.path.dirname(os.path.dirname(os.path.abspath(__file__)))
PENDING = "check not built yet in this session (planned, see DESIGN.md section 9); not a statement that the technique cannot apply"

CLAIMED = {
    "C01": dict(
        category="proof",
        text="The links of write-then-read are under contract and discharged: model -> tree (body of the to_etree loop with a symbolic attribute, _listAppend, ungroom of every class that overrides it), element value <-> text for every element type (writer contracts, write-then-read contracts), tree -> model (fold step of _convert with a symbolic child). The links bytes <-> tree and header are the contracts of C02, C05, C12, and the per-class constructor route is C03/C04: assumed here, discharged there. The end-to-end statement over every class, varied values (markup characters, non-ASCII, time zones, milliseconds, negative and fractional decimals), all six wire forms and the header versions is decided by a BOUNDED run through the real serialize / parse / convert, and the four body writers are checked against the strict reference tokenizer on all small trees (bounded).",
        design_ref="DESIGN.md 9 (C01)",
        note="The composition of the links into the end-to-end statement is stated in DESIGN.md, not mechanised. ET.tostring(method='html') is trusted (standard library). tostring_unclosed_elements and indent have no discharged contract yet: bounded only. Carve-outs are listed known findings (empty aggregate without end tags; TAX1099INT_V100 list adjacency; strings spelling an entity; decimals whose str() has an exponent).",
        technique="contracts on to_etree/_listAppend/ungroom/update_args and on every converter pair (pyvc + z3); bounded end-to-end round trips and writer-vs-reference-tokenizer enumeration",
        engine="pyvc"),
    "C20": dict(
        category="proof",
        text="Every obligation generated from the current source of the seven check-digit functions in ofxtools/utils.py is discharged by SMT for all inputs of the stated alphabets: computed check digit == published algorithm (spec functions written from the algorithm), validate_* iff, converters produce validating ISINs embedding the original, wrong length / unknown prefix / changed check character never validate. Loop-free after unrolling over the fixed identifier lengths, all characters symbolic, so the proof is complete for these domains, not bounded.",
        design_ref="DESIGN.md 9 (C20)",
        note="Trusted: pyvc engine and its model library (int(str,36), str(int), join, enumerate, slicing, dict.get; cross-checked against CPython on sampled inputs each run), z3/cvc5, finite-domain tabulation rewrite (domain membership re-proved per obligation). Domains: CUSIP over [0-9A-Z*@#], SEDOL over [0-9A-Z] minus AEIO (vowels proved refused), ISIN over [0-9A-Z] with the 84 two-letter agency prefixes; isin_checksum is proved by a 512-way case split on the digit/letter pattern. Callers use callee contracts at call sites. Characters outside printable ASCII are outside the int() model and not claimed.",
        technique="contracts on the real functions; VCs generated from the AST by symbolic execution (pyvc), discharged by z3 with finite-domain tabulation; counter-models replayed on the real code",
        engine="pyvc"),
    "C09": dict(
        category="proof",
        text="Readers: for every OFX date-time/time notation shape (date, date+time, +.XXX, offset absent or [H|HH|sH|sHH][.MM][:name]) with all digits symbolic and calendar-valid, DateTime/Time.convert returns the aware UTC value whose instant equals the integer-arithmetic reference; texts of wrong length, with a field out of range, a calendar-invalid day or any non-digit code point are refused. Writers: for every aware value (every microsecond, every whole-minute offset -12:00..+14:00, any zone name) the written text is lexically valid and denotes the instant rounded half-up to the millisecond; naive and wrongly typed values are refused. Write-then-read within half a millisecond follows from writer + reader contracts + written-form lemmas (quick) and is additionally proved through the real reader as a composite (thorough). All obligations discharged by SMT for the stated unbounded domains.",
        design_ref="DESIGN.md 9 (C09)",
        note="Trusted: pyvc engine, datetime/timedelta model (exact integer microsecond arithmetic; date ordinal uninterpreted and shared with the spec, cross-checked natively), symbolic regex matcher on the real DT_REGEX/TIME_REGEX, int()/str()/f-string models, z3/cvc5. Zone names in reader proofs: absent, empty or 2 arbitrary characters; longer names only in the bounded native evaluation. Years 2..9998 (readers) / 1000..9998 (writers, strftime %Y). Second 60 not demanded either way.",
        technique="contracts on the real converters; VCs from the AST by symbolic execution with a symbolic regex matcher and an integer datetime model; z3; counter-models replayed natively",
        engine="pyvc"),
    "C10": dict(
        category="proof",
        text="One contract per element type and dispatch arm with the instance parameters (length, required, enumeration tokens) symbolic, so every parameterisation is covered by one proof: inverse and canonical-text round trips, None exactly when optional, limits enforced on read and write with the boundary values accepted, wrong Python types refused, warn-only strings kept whole with exactly one warning. Date-time/time clauses come from the C09 contracts. The numeric laws of decimals (value and exponent preserved, rounding to scale) are evaluated natively on a sampled grid and labelled bounded; their structure (which library operation on which text under which condition) is proved.",
        design_ref="DESIGN.md 9 (C10)",
        note="Trusted: as C09 plus uninterpreted models of saxutils.unescape (identity without '&', never longer), int() on opaque text, decimal.Decimal/quantize/same_quantum/str. String write-then-read proved for values without '&' (values with a bare '&': bounded only). Known findings (carved out by predicate, replayed every run): values holding an entity, lenient int()/Decimal() literals, Integer accepts bool, Decimal exponent notation on write. Bounded parts are never counted in obligations/discharged.",
        technique="contracts with symbolic instance parameters on the real singledispatch converters; pyvc VCs + z3; native contract evaluation as the bounded stand-in for decimal arithmetic",
        engine="pyvc"),
    "C11": dict(
        category="proof",
        text="Type level: every unconvert arm is proved to return text in its type's lexical language (Y/N; optional sign and digits; one of the declared tokens; at most `length` characters; [YYYYMMDD]HHMMSS.XXX[(+|-)H[H][.MM][:name]] as decided by an independent scanner) or to refuse the value; decimals: structure proved, plain-notation claim evaluated natively on a sampled grid (bounded) with the exponent/NaN cases as a known finding.",
        design_ref="DESIGN.md 9 (C11)",
        note="Also under contract: Aggregate.to_etree's loop body writes nothing but converter.unconvert(value) into element text (symbolic attribute), the library's unclosed-tag writer escapes & < > and writes data otherwise verbatim (shaped trees); declarations: enumeration tables well-formed, every bounded string declared strict except eleven reviewed warn-only (NagString) declarations. All four body writers against the reference tokenizer, and whole files, are bounded. ET.tostring's escaping is trusted. Known findings KF-C11-decimal-exponent and KF-C11-int-bool are replayed each run. Two defects repaired (year padding, seconds in UTC offsets).",
        technique="output-language postconditions on the real unconvert functions; pyvc VCs + z3",
        engine="pyvc"),
    "C12": dict(
        category="proof",
        text="make_header routes every integer and every decimal text: 1xx gives the flat-text header class, the seven supported 2xx versions the XML class, everything else (including non-numeric text) OFXHeaderError; constructors refuse every field outside its domain (opaque tokens of any length) with OFXHeaderError and no object; __str__ is the exact prescribed text; parse(str(h)) returns a header of the same kind with equal fields and the documented end offset; header texts with an out-of-domain token, an over-long UID, a missing or transposed mandatory field are refused.",
        design_ref="DESIGN.md 9 (C12)",
        note="Round trip proved with one UID of length 1, 2, 17, 35 or 36 (all characters symbolic over [A-Za-z0-9_-]) and the other 'NONE', plus both of length 36; text-level corruption with tokens of 1..4 printable ASCII characters and UIDs of 37/38/40 characters; other lengths only in the sampled native evaluation (bounded). COMPRESSION omission is not demanded to fail (optional by documented intent). Known finding KF-C12-v1-version-range: OFXHeaderV1 accepts any VERSION below 1000. Trusted: pyvc, symbolic regex matcher on the real header regexes, z3.",
        technique="contracts on make_header / constructors / __str__ / parse; pyvc VCs with the symbolic regex matcher; z3",
        engine="pyvc"),
    "C13": dict(
        category="other",
        text="Exhaustive decision over the finite, fully enumerated space of model classes (397 Aggregate subclasses, 390 concrete, 2085 declared children): one obligation per (class, clause) for I1 lookup by tag, I2 list/sub-aggregate attribute naming, I3 groom/ungroom renames, I4 list adjacency (witness round trip), I5 mutex groups in force in every inheriting class and naming optional non-repeated children, I6 ElementList shape, I7 tag naming, I8 acyclic class graph, I11 a tree in declared order is read back whole, I12 no class is a strict subclass of a declared child type (the slot admits by isinstance, the writer uses the instance's class name), I13 the constructor refuses two members of every exclusivity group in force, I9 for every declared child a witness instance is built, written, parsed by the real parser and read back into the same attribute.",
        design_ref="DESIGN.md 5 and 9 (C13)",
        note="Not a deductive proof: a complete evaluation of invariant predicates on every real class object (exhaustive: true), and an existence witness per declared child run through the real pipeline. The statement for all *values* of a child is the C01/C03 obligations, not this check. Known findings: TAX1099INT_V100 list adjacency; mutex groups naming a repeated child in TAX1099DIV/INT/MISC_V100.",
        technique="class invariants as contracts on the class objects, decided by exhaustive enumeration with per-child witnesses",
        engine="xengine"),
    "C04": dict(
        category="proof",
        text="Element-tree route: the real fold step Aggregate._convert.update_args is proved, for a symbolic child of an arbitrary class, to refuse exactly the order and duplicate violations of the spec step and otherwise to extend the accumulator as the spec step does. Keyword route: for each of the 390 classes Aggregate.__init__ (with the class's own validate_args) is executed symbolically over all presence patterns: it returns only if every required child is present and every mutex group declared by any base class holds, stores exactly conv(attr, value) per attribute, and raises only when a declared constraint is violated. List members (_apply_args) and leftover keywords (_apply_residual_kwargs) are proved generically. Enumeration / length / digit limits are the C10 converter contracts used through the abstract converter.",
        design_ref="DESIGN.md 9 (C04, common scheme)",
        note="Trusted: pyvc; L1 abstraction of class-level mappings as uninterpreted index/predicates; abstract converters justified by the C10 contracts; functools.reduce = iterated step. Class-specific validate_args overrides are executed; of their own rules only ACCTINFO's (at least one member, at most one per service wherever it stands) has an independent contract (contracts/validators.py). Failing L1 obligations have no concrete input (abstract arguments): the bounded companion on real classes supplies one where it finds it, otherwise the VIOLATION line says no-failing-input-found. Known finding: mutex groups naming a repeated child can never fire (shared with C13).",
        technique="L1 generic step proofs with symbolic attribute + L2 per-class symbolic execution of the real constructor; pyvc VCs + z3",
        engine="pyvc"),
    "C03": dict(
        category="proof",
        text="Routing: update_args stores each child's text or converted sub-aggregate under its own tag / list position (L1, symbolic child), __init__ stores conv(attr, value) in attribute attr and nothing else (per class, all presence patterns). Values: every convert arm of every element type returns the value the independent OFX type rules assign (C10/C09 contracts re-run here).",
        design_ref="DESIGN.md 9 (C03)",
        note="As C04 and C10/C09. The parser's trimming of element data is C02, not re-proved here. Known findings on lenient integer / decimal literals are shared with C10.",
        technique="L1/L2 aggregate proofs + converter contracts; pyvc VCs + z3",
        engine="pyvc"),
    "C07": dict(
        category="proof",
        text="Top clause on the real fold step (symbolic child of any class): an undefined tag leaves all four accumulator components unchanged, warns exactly once and does not enter the child. The list lemma foldl_skip / foldl_insert (checked by lean every run) lifts this to any number of insertions at any positions. groom (base and the three overrides) is evaluated against the reference on an exhaustively enumerated small scope (bounded).",
        design_ref="DESIGN.md 9 (C07)",
        note="groom/ungroom use ElementTree XPath and deepcopy, outside the symbolic subset: bounded (all roots with <= 3 children over 7 tags, children plain or holding a keyword/vendor grandchild; 4 children in thorough). Rendering of insertions in SGML/XML is the parser's property (C02).",
        technique="postcondition on the real update_args closure (pyvc + z3), Lean list lemma, bounded exhaustive evaluation for groom",
        engine="pyvc"),
    "C16": dict(
        category="proof",
        text="__getattr__: the loop body is proved for a symbolic sub-aggregate - the first definer's stored object is returned, every other case moves on, no exception escapes and nothing is stored on the instance; an exhausted loop raises AttributeError. The statements shortcuts of the six statement message sets are proved equal to the explicit path walk for every member-class sequence up to length 3 with each statement symbolically present or absent (every statement once, in document order, only trnuid/cltcookie stapled); OFX.statements/signon and the alias properties likewise on heap instances.",
        design_ref="DESIGN.md 9 (C16)",
        note="Member sequences longer than 3 are covered by uniformity of the loop body only (stated, not proved by induction). hasattr / copy / deepcopy / pickle are exercised by the bounded companion on random real instances. A-NONEATTR: looked-up names are not NoneType attributes.",
        technique="loop-body contracts with abstract sub-aggregates; symbolic execution of the real properties on heap instances; pyvc + z3",
        engine="pyvc"),
    "C14": dict(
        category="proof",
        text="Control/data-flow contracts on the real OFXClient methods with abstract callees: download sends nothing on a dry run and otherwise performs exactly one post_request to (url or self.url) with the serialized request; post_request builds one POST Request with that body, the three prescribed headers and an opener holding a cookie processor bound to this instance's jar iff cookies persist; request_statements/accounts/tax1099 pass '' on a dry run, self.url with skip_profile and otherwise the single advertised service URL, and hand the caller's password to signon; _request_profile signs on with the anonymous placeholder for user and password; __init__ allocates a fresh jar per instance.",
        design_ref="DESIGN.md 9 (C14)",
        note="Callees are uninterpreted recorders (contracts only). Cookie storage/replay is http.cookiejar (T-EXT); the bounded companion runs all request sequences of length <= 3 over two clients x {post, dry run} x persist_cookies x cookie-setting server on the real urllib opener with a fake transport. The `requests` branch of post_request is unverified code (library absent, USE_REQUESTS False). The url / dry-run / profile-look-up rules are proved with no requests and with requests of every kind in seven orders (the C06 assembly contracts); _get_service_urls is proved to hand back the advertised URL per kind of request as it is; __init__ builds a fresh jar with the standard unrestricted policy.",
        technique="frame/flow contracts over abstract callees (pyvc + z3); bounded run on the real urllib stack",
        engine="pyvc"),
    "C15": dict(
        category="proof",
        text="Per-call contract of the real request_profile over a ghost file system and an abstract parser: the request carries the date of the profile held (none when nothing is cached); 'up to date' returns the cached bytes and leaves the cache untouched; a status-0 response is accepted only if not older than the one held, is written whole and returned; every failing path (transport failure, garbage, error status, 'up to date' with nothing cached, older profile) raises before the cache file is opened for writing and only for one of these reasons; dry runs write nothing; the only files a call writes are the institution's own cache entry or files whose name is derived from it / depends on ORG and FID (per-path ghost file system with os.replace). The induction step over sequential histories (invariant preserved, never back to an older profile, a failing call changes nothing, success returns the profile then held) is machine-checked over a transcription of the contract's clauses.",
        design_ref="DESIGN.md 9 (C15)",
        note="NOT DECIDED by this technique family (no contract within reach, nothing substituted): a crash between open(...,'wb') and the completed write; interleavings of the truncate/write steps of concurrent request_profile calls. Decided of the concurrency clause: a rely/guarantee variant of the per-call contract (every read of the cache file returns unconstrained content) proves that a successful call returns and writes only bytes it has itself parsed as a whole profile. The contract holds for either value of the persist option. Known findings: cache key <org>-<fid> ignores the URL and is not injective. The induction principle itself and the base case are not formalised; a census of ofxtools/Client.py shows that no function of the client module shares an object between its calls (module-level rebinding, memo decorators, objects built once as default arguments); the bounded companion enumerates all histories of length <= 3 (4 thorough) over 8 server behaviours with client restarts on a real cache file.",
        technique="contract with ghost file state and abstract parser (pyvc + z3); bounded enumeration of histories on real files",
        engine="pyvc"),
    "C06": dict(
        category="proof",
        text="Proved on the real code with the model classes really instantiated and converters abstract: signon stores exactly the supplied password and user id, the configured language/appid/appver, FI iff ORG is set, CLIENTUID iff configured and version >= 103 (version symbolic 100..299); each of the five transaction-wrapper builders routes every argument to its own element (INCTRAN absent iff transactions are not asked for investment statements) and sets a transaction id; each wrap_stmtrq arm yields one wrapper per request, in order, carrying that request's fields and the client's bank/broker id; __init__ and serialize refuse close_elements=False for versions >= 200; serialize passes the configured or overridden version to make_header and chooses the body form by close_elements. request_statements' assembly (sort by kind, group, wrap, message sets, OFX) is proved for seven orders of request kinds with every field symbolic and the per-kind wrapping abstract: the OFX handed to download() holds exactly one wrapper per request, in the message set of its kind, requests of one kind in the order given, and the sign-on built from the password. request_accounts hands ACCTINFORQ the caller's date as it is. The wire round trip is covered by a bounded composition run parsed back by the library (statement requests and the account-information request).",
        design_ref="DESIGN.md 9 (C06)",
        note="request_statements' assembly is proved per pattern of request kinds (seven patterns, up to six requests), not for arbitrary lengths; bounded composition run: 11 versions x pretty x close_elements x ORG/FID x CLIENTUID x request multisets with credentials/ids incl. & < > quotes and non-ASCII, dates with offsets, all flags. A-UUID: uuid4 ids are distinct. Known finding KF-C01-unclosed-empty-aggregate shared with C01.",
        technique="contracts on the real builders with heap model instances and abstract converters (pyvc + z3); bounded compose-and-parse-back run",
        engine="pyvc"),
    "C02": dict(
        category="proof",
        text="Shape-bounded, character-unbounded proof on the real TreeBuilder.feed/close with the real regex (symbolic matcher) and a ghost C builder: for every tree structure with <= 3 nodes and the listed rendering choices per node, with all tag, data and whitespace characters symbolic, the builder receives exactly the start/data/end events of the tree. _groomstring trims at both ends only; _start emits a complete child for a data element and pushes for an aggregate. Documents of any size: bounded run of about 440 000 renderings of all trees with <= 4 nodes against a strict reference tokenizer.",
        design_ref="DESIGN.md 9 (C02)",
        note="The induction from token shapes to whole documents is not machine-checked (stated); the C TreeBuilder and re.finditer are mirrored (T-EXT). Data elements without end tag inside a same-named parent are inherently ambiguous and out of scope. Three genuine defects found here were repaired (greedy CDATA, CDATA with line breaks / surrounding whitespace).",
        technique="contracts on feed/_start/_groomstring with a symbolic regex matcher and ghost builder (pyvc + z3); exhaustive bounded enumeration of renderings",
        engine="pyvc"),
    "C08": dict(
        category="proof",
        text="On the ghost builder: an end tag that does not name the innermost open element raises ParseError, text after an end tag raises ParseError, close() raises ParseError while any element is open, a stray end tag on an empty stack reaches the C builder's IndexError, a second top-level element is refused by the C builder. Whole documents: bounded fault enumeration (every truncation point, every single end-tag deletion / renaming / misspelling / duplication / transposition, stray text and end tags, second top-level element) of every rendering of every tree with <= 3 nodes against the strict reference tokenizer.",
        design_ref="DESIGN.md 9 (C08)",
        note="The per-call contracts are proofs; the statement for whole documents rests on the bounded enumeration (stated). The nesting check itself was missing on the pinned tree and was repaired (fix 05cd1d5). Known finding KF-C08-stray-cdata-skipped: a CDATA section that belongs to no element is skipped without a word unless it directly follows a standalone end tag (carved out by position in the fault enumeration, replayed on every run). Chains of up to 130 nested aggregates (260 thorough) are part of the enumeration.",
        technique="contracts on _feedmatch/_start/close over a ghost element stack (pyvc + z3); bounded fault enumeration",
        engine="pyvc"),
    "C05": dict(
        category="proof",
        text="parse_header on an abstract byte stream: for each v1 layout (separators CRLF/LF/CR/none, blanks after the colon, leading blank lines incl. CR-only, gap before the body none/CRLF/2 CRLF/CR, three character sets) with the NEWFILEUID characters and the body bytes symbolic over every byte value, the returned header has equal fields and the returned text is exactly the bytes from '<' to '>' decoded with the codec the CHARSET declares (offset arithmetic, readline splitting, regex groups and codec selection all on the real code); the codec table is proved for every CHARSET x ENCODING.",
        design_ref="DESIGN.md 9 (C05)",
        note="Shape-bounded: 3 body bytes, 2 UID characters, the listed layouts (58+ in quick, the cross product in thorough). v2 files, longer bodies, UTF-8 multi-byte sequences, trailing whitespace: bounded exhaustive run (about 50 000 v1 files, 400 v2 files) against a reference splitter. Four genuine defects found here were repaired. Known finding KF-C12-v1-version-range shared with C12.",
        technique="contracts on parse_header over a symbolic byte stream with the symbolic regex matcher (pyvc + z3); bounded layout enumeration",
        engine="pyvc"),
    "C19": dict(
        category="proof",
        text="request_stmt and request_stmtend are proved to hand OFXClient.request_statements exactly one request per configured account - in account-type order, with that account's type, the given start/end/as-of dates and include flags, none missing, duplicated or of another type - for eight account-list length patterns (0..3 accounts per type) with every account number and flag symbolic; _acctIsActive accepts ACTIVE only whatever the entry's other attributes (SUPTXDL, XFERSRC, XFERDEST) say; parse_bankacctinfos / parse_ccacctinfos / parse_invacctinfos are proved, for 0..3 listed entries with any status text, to return per account type exactly the ACTIVE entries' numbers in the order listed, and the bank / broker id entry iff one is ACTIVE; extractns is proved to keep every option that is not None with its very value (False, 0, '' included) and to drop the None ones. The rest of discovery with --all (reading the response, merging in front of the configuration) runs bounded on the real functions, half of the configured runs through the real argparse -> merge_config route.",
        design_ref="DESIGN.md 9 (C19)",
        note="Callees of the commands (date conversion, password, client) are abstract recorders in the proofs. Lists longer than 3 by uniformity of the comprehensions (stated). Of --all, extract_acctinfos and _merge_acctinfo are bounded only: sampled account-information responses and 184 configured patterns (729 thorough). One defect repaired (crash when no account of a kind is ACTIVE); known finding KF-C19-all-configured-inactive.",
        technique="map/concat postconditions on the real command functions with abstract callees (pyvc + z3); bounded runs of the discovery path",
        engine="pyvc"),
    "C17": dict(
        category="proof",
        text="Frames: every converter function (convert/unconvert of every element type, all date-time layouts) is proved to write no field of the shared descriptor or of any argument on any path, returning or raising; Element.__set__ writes obj.__dict__[name] and nothing else; groom (base, MFINFO, STOCKINFO, MAIL) writes nothing its caller owns, proved over an ownership-tracked element model with symbolic tags; the fold of _convert and the loop body of to_etree leave the element tree / the model unwritten (composition rule stated in props/c17.py). History: a census of every syntactic site that can store state outliving a call (module globals, class attributes, descriptor fields, default arguments, memo decorators, writes through parameters) in the parse/convert/serialize modules must equal the committed allow-list, each admitted site with its reason; the one dispatch-registry re-registration is covered by the proof that unconvert's outcome does not depend on the instance bound. Bounded: real instances of the model classes with broken variants and whole documents, each call twice, three orders with failing items interleaved, 8 threads.",
        design_ref="DESIGN.md 9 (C17)",
        note="Thread schedules are NOT decided by this technique: the contracts are sequential; the threaded run is a bounded smoke test over the schedules the OS happens to produce. ElementTree's Element is modelled (list-of-children record, deepcopy/copy semantics) - trusted. OFXTree._read (whose stream it is, also on failing paths) and OFXTree.convert (the conversion of the current root, nothing kept on the parser) are under contract; the census also treats an item store into a container bound in a class body as class state. The census is syntactic: aliasing through containers or calls it cannot see is not covered; it over-approximates parameters (flow-insensitive).",
        technique="frame obligations on the real functions (pyvc + z3, native replay with before/after snapshots); ownership model for element trees; syntactic state census against an allow-list; bounded history/thread runs",
        engine="pyvc"),
    "C18": dict(
        category="proof",
        text="merge_config / merge_from_ofxhome are proved, for every option of DEFAULTS independently and for all presence patterns and values in each source, to return the value of the highest-ranking source that sets it: command line, then the named server's section, then OFX Home (url, org, fid, brokerid - when an OFX Home id is in effect and the lookup finds it), then the built-in default. Table facts: the password is not a configurable option. mk_server_cfg (the body of --write) is proved per option: the value given on this run is the value in effect on the next run, with the user's server section, the user's [DEFAULT] section and the FI database symbolic (codecs abstract, assumed inverse). read_config is proved per option over an abstract section: an option is returned iff the section has it, whatever its text, through the getter of its declared type. extractns keeps every non-None value. Persistence end to end, nothing on a dry run, one default CLIENTUID: bounded run on the real argparser/configparser with a scratch configuration directory.",
        design_ref="DESIGN.md 9 (C18)",
        note="ChainMap is modelled (first present wins); in the merge_config proof extractns/read_config/ofxhome.lookup are abstract mappings (their own contracts: extractns, read_config; ofxhome.lookup's record parser is bounded only, fed with records as OFX Home serves them). User file over FI database is configparser's read order, arg2config/convert_list codecs: bounded only (sampled option sets; values incl. '%', '&', '=', blanks, lists of 1-3; convert_list for every text of <= 6 characters). Three defects repaired (stale value kept when the new value equals the default; '%' not escaped; a [DEFAULT]-section value surviving --write).",
        technique="precedence postcondition per option over abstract mappings (pyvc + z3); bounded write/read runs on real files",
        engine="pyvc"),
}


def build():
    ids = [json.loads(l)["id"] for l in open(os.path.join(VERIF, "properties.jsonl"))]
    reasons = {}
    try:
        from props import not_applicable
        reasons = not_applicable.REASONS
    except Exception:
        pass
    checks = []
    for i in ids:
        if i not in CLAIMED:
            continue
        c = CLAIMED[i]
        checks.append({
            "property_id": i,
            "quick_cmd": f"./check {i} --tier quick",
            "thorough_cmd": f"./check {i} --tier thorough",
            "evidence_file": f"/verif/evidence/{i}.json",
            "replay_cmd_template": f"./check {i} --replay {{path}}",
            "engine": c.get("engine", "pyvc"),
            "level_claimed": {"category": c["category"], "text": c["text"], "design_ref": c.get("design_ref", "DESIGN.md 9")},
            "level_note": c["note"],
            "technique": c["technique"],
        })
    m = {
        "version": 1,
        "setup_cmd": "./setup.sh",
        "hooks": {
            "guard": "OFXTOOLS_VERIF",
            "enable": "no hooks are needed: contracts are sidecar files under /verif/contracts keyed by module and qualified name; checks read /repo's working tree as it is (guard name reserved, unused)",
            "baseline_off_cmd": "cd /repo && /venv/bin/python -m pytest -ra -q -p no:cacheprovider --timeout=900 --continue-on-collection-errors",
            "source_commits": [],
            "add_only": True,
        },
        "engines": [
            {"name": "pyvc", "path": "/verif/pyvc", "serves_properties": sorted(k for k, v in CLAIMED.items() if v.get("engine", "pyvc").startswith("pyvc")),
             "kind_free_text": "VC generator: mixed concrete/symbolic interpreter over the real AST of /repo functions (re-read every run), sidecar contracts, z3 + cvc5 discharge, native replay of counter-models"},
        ],
        "checks": checks,
        "notes": "Technique family: contract-based deductive verification of the real code. Exit 0 held / 1 violation (VIOLATION line) / 3 machinery failure. Bounded stand-ins are labelled bounded in the evidence and never counted in obligations/discharged. See DESIGN.md.",
        "not_applicable": [{"property_id": i, "reason": reasons.get(i, PENDING)} for i in ids if i not in CLAIMED],
    }
    json.dump(m, open(os.path.join(VERIF, "MANIFEST.json"), "w"), indent=1)
    return m


if __name__ == "__main__":
    m = build()
    import jsonschema
    jsonschema.validate(m, json.load(open("/root/.vp/MANIFEST.schema.json")))
    print("MANIFEST.json written:", len(m["checks"]), "checks,", len(m["not_applicable"]), "not applicable/pending")
