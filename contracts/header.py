"""Sidecar contracts for ofxtools.header (property C12; parse_header is under C05)."""
from pyvc.contract import *
from ofxtools import header as H
from ofxtools.header import OFXHeaderV1, OFXHeaderV2, OFXHeaderError, make_header
from contracts.types_basic import text_sampler

UIDCH = "ABCDEFGHIJKLMNOPQRSTUVWXYZabcdefghijklmnopqrstuvwxyz0123456789_-"
SEC = OptArg(OneOfArg("security", ["NONE", "TYPE1"]))


def uid(name, n=None, lo=1, hi=36):
    if n is not None:
        return StrArg(name, length=n, charset=UIDCH)
    return StrArg(name, minlen=lo, maxlen=hi, charset=UIDCH)


def tok(name):
    return TextArg(name, nonempty=True, sampler=lambda r: r.choice(["NONE", "TYPE1", "OFXSGML", "USASCII", "1252", "XYZ", "none", "UTF-8", "type1", "NONE ", "x" * 40]))


CONTRACTS = []
# ------------------------------------------------------------------ make_header: routing by version
CONTRACTS += [
    # 0: 1xx -> flat text header object with equal fields
    Contract("ofxtools.header:make_header",
             args=[IntArg("version", 100, 199), SEC, OptArg(uid("oldfileuid", 3)), OptArg(uid("newfileuid", 36))],
             ensures=[("kind", "type(result) is spec.header.V1"),
                      ("fields", "result.version == version and result.security == (security or 'NONE') and result.oldfileuid == (oldfileuid or 'NONE') and result.newfileuid == (newfileuid or 'NONE')"),
                      ("fixed", "result.ofxheader == 100 and result.data == 'OFXSGML' and result.encoding == 'USASCII' and result.charset == 'NONE' and result.compression == 'NONE'")],
             props=["C12"]),
    # 1: supported 2xx -> XML header object
    Contract("ofxtools.header:make_header",
             args=[OneOfArg("version", [200, 201, 202, 203, 210, 211, 220]), SEC, OptArg(uid("oldfileuid", 36)), OptArg(uid("newfileuid", 2))],
             ensures=[("kind", "type(result) is spec.header.V2"),
                      ("fields", "result.version == version and result.security == (security or 'NONE') and result.oldfileuid == (oldfileuid or 'NONE') and result.newfileuid == (newfileuid or 'NONE') and result.ofxheader == 200")],
             props=["C12"]),
    # 2: every other integer is refused (neither 1xx nor 2xx, or unsupported 2xx)
    Contract("ofxtools.header:make_header",
             args=[IntArg("version", -100000, 100000), SEC, Const("oldfileuid", None), Const("newfileuid", None)],
             requires=["spec.header.kind_for(version) == 0 or (spec.header.kind_for(version) == 2 and version not in spec.header.V2_VERSIONS)"],
             raises=[(OFXHeaderError, "True", "must")], props=["C12"]),
    # 3: the same, given as decimal text (what the parsers hand over)
    Contract("ofxtools.header:make_header",
             args=[StrArg("version", minlen=1, maxlen=5, charset="0123456789"), SEC, Const("oldfileuid", None), Const("newfileuid", None)],
             requires=["spec.header.kind_for(spec.ofxdt.num(version)) == 0"],
             raises=[(OFXHeaderError, "True", "must")], props=["C12"]),
    # 4: non-numeric version
    Contract("ofxtools.header:make_header",
             args=[TextArg("version", nonempty=True, sampler=lambda r: r.choice(["horses", "1o2", "v102", "10 2x", "abc"])), SEC, Const("oldfileuid", None), Const("newfileuid", None)],
             requires=["not spec.ofxtypes.python_int_accepts(version)"],
             raises=[(OFXHeaderError, "True", "must")], props=["C12"]),
    # 5: over-long UID / unknown security level refused (constructor route through make_header)
    Contract("ofxtools.header:make_header",
             args=[IntArg("version", 100, 199), OptArg(tok("security")), OptArg(TextArg("oldfileuid", nonempty=True, sampler=lambda r: "u" * r.randint(1, 40))),
                   OptArg(TextArg("newfileuid", nonempty=True, sampler=lambda r: "n" * r.randint(1, 40)))],
             requires=["(security is not None and security not in spec.header.SECURITY) or (oldfileuid is not None and len(oldfileuid) > 36) or (newfileuid is not None and len(newfileuid) > 36)"],
             requires_symbolic=["(oldfileuid is None or '&' not in oldfileuid) and (newfileuid is None or '&' not in newfileuid)"],
             raises=[(OFXHeaderError, "True", "must")], props=["C12"],
             notes="UID texts containing '&' are decoded before the length check (String.convert): proved for UIDs without '&'"),
]

# ------------------------------------------------------------------ constructors: every field in its domain or OFXHeaderError
V1F = ["ofxheader", "data", "security", "encoding", "charset", "compression"]
DOMAIN_V1 = {"data": ("OFXSGML",), "security": ("NONE", "TYPE1"), "encoding": ("USASCII", "UNICODE", "UTF-8"),
             "charset": ("ISO-8859-1", "1252", "NONE"), "compression": ("NONE",)}
C1 = len(CONTRACTS)
for fld, dom in DOMAIN_V1.items():
    args = [IntArg("version", 100, 199)] + [Const(f, None) if f != fld else tok(fld) for f in V1F] + [Const("oldfileuid", None), Const("newfileuid", None)]
    CONTRACTS.append(Contract("ofxtools.header:OFXHeaderV1.__init__", args=args,
                              call=lambda it, fn, a: (OFXHeaderV1(*a) if it is None else it.call(OFXHeaderV1, list(a), {})),
                              ensures=[("in-domain", f"{fld} in {dom!r} and result.{fld} == {fld}")],
                              raises=[(OFXHeaderError, f"{fld} not in {dom!r}", "must")],
                              notes=f"v1 field {fld}", props=["C12"]))
# two fields at once: an unusable token in one field is refused whatever the (valid) value of another field is
for other, ovals in (("encoding", ("USASCII", "UNICODE", "UTF-8")), ("security", ("NONE", "TYPE1"))):
    for fld, dom in DOMAIN_V1.items():
        if fld == other:
            continue
        args = [IntArg("version", 100, 199)] + [Const(f, None) if f not in (fld, other) else (tok(fld) if f == fld else OneOfArg(other, list(ovals))) for f in V1F] + [Const("oldfileuid", None), Const("newfileuid", None)]
        CONTRACTS.append(Contract("ofxtools.header:OFXHeaderV1.__init__", args=args,
                                  call=lambda it, fn, a: (OFXHeaderV1(*a) if it is None else it.call(OFXHeaderV1, list(a), {})),
                                  ensures=[("in-domain", f"{fld} in {dom!r} and result.{fld} == {fld} and result.{other} == {other}")],
                                  raises=[(OFXHeaderError, f"{fld} not in {dom!r}", "must")],
                                  notes=f"v1 field {fld} with {other} varied", props=["C12"]))
# OFXHEADER of the wrong kind, version digits
CONTRACTS.append(Contract("ofxtools.header:OFXHeaderV1.__init__",
                          args=[IntArg("version", 100, 199), IntArg("ofxheader", 1, 100000)],
                          call=lambda it, fn, a: (OFXHeaderV1(*a) if it is None else it.call(OFXHeaderV1, list(a), {})),
                          ensures=[("kind", "ofxheader == 100")], raises=[(OFXHeaderError, "ofxheader != 100", "must")], props=["C12"]))
CONTRACTS.append(Contract("ofxtools.header:OFXHeaderV1.__init__",
                          args=[IntArg("version", 1, 100000)],
                          call=lambda it, fn, a: (OFXHeaderV1(*a) if it is None else it.call(OFXHeaderV1, list(a), {})),
                          ensures=[("digits", "version <= 999 and result.version == version")], raises=[(OFXHeaderError, "version >= 1000", "must")],
                          notes="over-long VERSION", props=["C12"]))
CONTRACTS.append(Contract("ofxtools.header:OFXHeaderV2.__init__",
                          args=[IntArg("version", -1000, 100000), IntArg("ofxheader", 1, 100000), OptArg(tok("security"))],
                          call=lambda it, fn, a: (OFXHeaderV2(*a) if it is None else it.call(OFXHeaderV2, list(a), {})),
                          ensures=[("in-domain", "version in spec.header.V2_VERSIONS and ofxheader == 200 and (security is None or security in spec.header.SECURITY)")],
                          raises=[(OFXHeaderError, "version not in spec.header.V2_VERSIONS or ofxheader != 200 or (security is not None and security not in spec.header.SECURITY)", "must")],
                          props=["C12"]))

# version / OFXHEADER given as text that is not a number (constructors are public; parse() hands them regex groups):
# refused with the header's own error, like every other unusable header - not with a bare ValueError
BADNUM = ["2.0", "one", "1e2", "10 2", "", " ", "0x66", "٢٠٣x", "102.0"]
for cls_, good in ((OFXHeaderV1, 102), (OFXHeaderV2, 203)):
    CONTRACTS.append(Contract(f"ofxtools.header:{cls_.__name__}.__init__",
                              args=[OneOfArg("version", [b for b in BADNUM if b.strip()])],
                              call=(lambda c: lambda it, fn, a: (c(*a) if it is None else it.call(c, list(a), {})))(cls_),
                              raises=[(OFXHeaderError, "True", "must")],
                              notes="VERSION that is not a number", props=["C12"], native_only=True, samples=40))
    CONTRACTS.append(Contract(f"ofxtools.header:{cls_.__name__}.__init__",
                              args=[Const("version", good), OneOfArg("ofxheader", [b for b in BADNUM if b.strip()])],
                              call=(lambda c: lambda it, fn, a: (c(*a) if it is None else it.call(c, list(a), {})))(cls_),
                              raises=[(OFXHeaderError, "True", "must")],
                              notes="OFXHEADER that is not a number", props=["C12"], native_only=True, samples=40))

# ------------------------------------------------------------------ __str__: exact text; parse(str(h)): equal fields
S0 = len(CONTRACTS)


def mk_v1(it, fn, a):
    if it is None:
        return str(make_header(*a))
    return it.call(str, [it.call(make_header, list(a), {})], {})


def rt(cls):
    def call(it, fn, a):
        if it is None:
            h = make_header(*a)
            h2, end = cls.parse(str(h))
            return (h, h2, end, str(h))
        h = it.call(make_header, list(a), {})
        text = it.call(str, [h], {})
        r = it.call(it.getattr(cls, "parse"), [text], {})
        h2, end = it.iterate(r)
        return (h, h2, end, text)
    return call


V1_EQ = " and ".join(f"result[1].{f} == result[0].{f}" for f in ["ofxheader", "data", "version", "security", "encoding", "charset", "compression", "oldfileuid", "newfileuid"])
V2_EQ = " and ".join(f"result[1].{f} == result[0].{f}" for f in ["ofxheader", "version", "security", "oldfileuid", "newfileuid"])
for (lo, ln) in [(None, None)] + [(n, None) for n in (1, 2, 17, 35, 36)] + [(None, n) for n in (1, 2, 17, 35, 36)] + [(36, 36)]:
    CONTRACTS.append(Contract("ofxtools.header:OFXHeaderV1.__str__",
                              args=[IntArg("version", 100, 199), SEC, Const("oldfileuid", None) if lo is None else uid("oldfileuid", lo),
                                    Const("newfileuid", None) if ln is None else uid("newfileuid", ln)],
                              call=mk_v1,
                              ensures=[("text", "result == spec.header.v1_text(version, security or 'NONE', oldfileuid or 'NONE', newfileuid or 'NONE')")],
                              notes=f"uid lengths {lo},{ln}", props=["C12"], kind="helper"))
    CONTRACTS.append(Contract("ofxtools.header:OFXHeaderBase.parse",
                              args=[IntArg("version", 100, 199), SEC, Const("oldfileuid", None) if lo is None else uid("oldfileuid", lo),
                                    Const("newfileuid", None) if ln is None else uid("newfileuid", ln)],
                              call=rt(OFXHeaderV1),
                              ensures=[("kind", "type(result[1]) is spec.header.V1"), ("equal-fields", V1_EQ),
                                       ("end", "result[2] == len(result[3]) - 4")],
                              notes=f"v1 round trip, uid lengths {lo},{ln}", props=["C12"], max_paths=400))
    CONTRACTS.append(Contract("ofxtools.header:OFXHeaderBase.parse",
                              args=[OneOfArg("version", [200, 201, 202, 203, 210, 211, 220]), SEC, Const("oldfileuid", None) if lo is None else uid("oldfileuid", lo),
                                    Const("newfileuid", None) if ln is None else uid("newfileuid", ln)],
                              call=rt(OFXHeaderV2),
                              ensures=[("kind", "type(result[1]) is spec.header.V2"), ("equal-fields", V2_EQ),
                                       ("end", "result[2] == len(result[3])")],
                              notes=f"v2 round trip, uid lengths {lo},{ln}", props=["C12"], max_paths=400))

# ------------------------------------------------------------------ parse: refusal of corrupted header texts
P0 = len(CONTRACTS)
PRINTABLE = "".join(chr(c) for c in range(33, 127))


def parse_call(cls):
    def call(it, fn, a):
        text = a[-1] if not callable(a[-1]) else None
        if it is None:
            return cls.parse(a[0])
        return it.call(it.getattr(cls, "parse"), [a[0]], {})
    return call


def text_contract(cls, name, build_expr, args, requires, note, kf=None):
    """header text = build_expr evaluated over the symbolic args; must be refused"""
    def call(it, fn, a):
        env = {x.name: v for x, v in zip(args, a)}
        import contracts.spec as sp
        env["spec"] = sp
        if it is None:
            return cls.parse(eval(build_expr, {}, env))
        text = it.eval_src(build_expr, env)
        return it.call(it.getattr(cls, "parse"), [text], {})
    return Contract(f"ofxtools.header:OFXHeaderBase.parse", args=args, call=call, requires=requires,
                    raises=[(OFXHeaderError, "True", "must")], notes=note, props=["C12"], max_paths=2000, kf=kf)


# over-long UIDs in the text
for n in (37, 38, 40):
    CONTRACTS.append(text_contract(OFXHeaderV1, "v1-old", "spec.header.v1_text(102, 'NONE', u, 'NONE')", [uid("u", n)], [], f"v1 OLDFILEUID of {n} characters"))
    CONTRACTS.append(text_contract(OFXHeaderV1, "v1-new", "spec.header.v1_text(102, 'NONE', 'NONE', u)", [uid("u", n)], [], f"v1 NEWFILEUID of {n} characters"))
    CONTRACTS.append(text_contract(OFXHeaderV1, "v1-new-body", "spec.header.v1_text(102, 'NONE', 'NONE', u)[:-4] + '<OFX></OFX>'", [uid("u", n)], [], f"v1 NEWFILEUID of {n} characters glued to the body"))
    CONTRACTS.append(text_contract(OFXHeaderV2, "v2-old", "spec.header.v2_text(200, 'NONE', u, 'NONE')", [uid("u", n)], [], f"v2 OLDFILEUID of {n} characters"))
    CONTRACTS.append(text_contract(OFXHeaderV2, "v2-new", "spec.header.v2_text(200, 'NONE', 'NONE', u)", [uid("u", n)], [], f"v2 NEWFILEUID of {n} characters"))
# unknown tokens (1..3 printable characters) in each v1 field
V1_TOKEN_FIELDS = {
    "DATA": ("'OFXHEADER:100\\r\\nDATA:' + t + '\\r\\nVERSION:102\\r\\nSECURITY:NONE\\r\\nENCODING:USASCII\\r\\nCHARSET:1252\\r\\nCOMPRESSION:NONE\\r\\nOLDFILEUID:NONE\\r\\nNEWFILEUID:NONE\\r\\n\\r\\n'", "t != 'OFXSGML'"),
    "SECURITY": ("spec.header.v1_text(102, t, 'NONE', 'NONE')", "t not in spec.header.SECURITY"),
    "ENCODING": ("spec.header.v1_text(102, 'NONE', 'NONE', 'NONE', t)", "t not in spec.header.ENCODING"),
    "CHARSET": ("spec.header.v1_text(102, 'NONE', 'NONE', 'NONE', 'USASCII', t)", "t not in spec.header.CHARSET"),
    "COMPRESSION": ("'OFXHEADER:100\\r\\nDATA:OFXSGML\\r\\nVERSION:102\\r\\nSECURITY:NONE\\r\\nENCODING:USASCII\\r\\nCHARSET:1252\\r\\nCOMPRESSION:' + t + '\\r\\nOLDFILEUID:NONE\\r\\nNEWFILEUID:NONE\\r\\n\\r\\n'", "t != 'NONE'"),
    "OFXHEADER": ("'OFXHEADER:' + t + '\\r\\nDATA:OFXSGML\\r\\nVERSION:102\\r\\nSECURITY:NONE\\r\\nENCODING:USASCII\\r\\nCHARSET:1252\\r\\nCOMPRESSION:NONE\\r\\nOLDFILEUID:NONE\\r\\nNEWFILEUID:NONE\\r\\n\\r\\n'", "not (spec.ofxdt.all_digits(t) and spec.ofxdt.num(t) == 100)"),
    "VERSION": ("spec.header.v1_text(t, 'NONE', 'NONE', 'NONE')", "not (spec.ofxdt.all_digits(t) and 100 <= spec.ofxdt.num(t) <= 199)"),
}
for fld, (expr, req) in V1_TOKEN_FIELDS.items():
    for ln in (1, 2, 3, 4):
        CONTRACTS.append(text_contract(OFXHeaderV1, f"v1-{fld}", expr, [StrArg("t", length=ln, charset=PRINTABLE)], [req], f"v1 {fld} token of {ln} characters outside the domain",
                                       kf=[("KF-C12-v1-version-range", "spec.ofxdt.all_digits(t) and spec.ofxdt.num(t) <= 999")] if fld == "VERSION" else None))
V2_TOKEN_FIELDS = {
    "OFXHEADER": ("'<?OFX OFXHEADER=\"' + t + '\" VERSION=\"200\" SECURITY=\"NONE\" OLDFILEUID=\"NONE\" NEWFILEUID=\"NONE\"?>'", "not (spec.ofxdt.all_digits(t) and spec.ofxdt.num(t) == 200)"),
    "VERSION": ("spec.header.v2_text(t, 'NONE', 'NONE', 'NONE')", "not (spec.ofxdt.all_digits(t) and spec.ofxdt.num(t) in spec.header.V2_VERSIONS)"),
    "SECURITY": ("spec.header.v2_text(200, t, 'NONE', 'NONE')", "t not in spec.header.SECURITY"),
}
for fld, (expr, req) in V2_TOKEN_FIELDS.items():
    for ln in (1, 2, 3, 4):
        CONTRACTS.append(text_contract(OFXHeaderV2, f"v2-{fld}", expr, [StrArg("t", length=ln, charset=PRINTABLE)], [req], f"v2 {fld} token of {ln} characters outside the domain"))

# omission / transposition of fields (finite: enumerated), field values symbolic 2-letter tokens where the field is free text
V1_LINES = ["OFXHEADER:100", "DATA:OFXSGML", "VERSION:102", "SECURITY:NONE", "ENCODING:USASCII", "CHARSET:1252", "COMPRESSION:NONE", "OLDFILEUID:NONE", "NEWFILEUID:NONE"]
V2_ATTRS = ['OFXHEADER="200"', 'VERSION="200"', 'SECURITY="NONE"', 'OLDFILEUID="NONE"', 'NEWFILEUID="NONE"']


def v1_variants():
    out = []
    for i in range(len(V1_LINES)):
        if V1_LINES[i].startswith("COMPRESSION"):
            continue            # optional by documented intent of the library
        out.append("\r\n".join(V1_LINES[:i] + V1_LINES[i + 1:]) + "\r\n\r\n")
    for i in range(len(V1_LINES) - 1):
        l = list(V1_LINES); l[i], l[i + 1] = l[i + 1], l[i]
        out.append("\r\n".join(l) + "\r\n\r\n")
    return out


def v2_variants():
    out = []
    for i in range(len(V2_ATTRS)):
        out.append("<?OFX " + " ".join(V2_ATTRS[:i] + V2_ATTRS[i + 1:]) + "?>")
    for i in range(len(V2_ATTRS) - 1):
        l = list(V2_ATTRS); l[i], l[i + 1] = l[i + 1], l[i]
        out.append("<?OFX " + " ".join(l) + "?>")
    return out


CONTRACTS.append(Contract("ofxtools.header:OFXHeaderBase.parse", args=[OneOfArg("text", v1_variants())], call=parse_call(OFXHeaderV1),
                          raises=[(OFXHeaderError, "True", "must")], notes="v1: each mandatory field omitted; each adjacent pair transposed", props=["C12"]))
CONTRACTS.append(Contract("ofxtools.header:OFXHeaderBase.parse", args=[OneOfArg("text", v2_variants())], call=parse_call(OFXHeaderV2),
                          raises=[(OFXHeaderError, "True", "must")], notes="v2: each field omitted; each adjacent pair transposed", props=["C12"]))
