"""C03 - every data element reaches the model with the value its type assigns (proof)."""
from props.common import run_contracts, replay_known_findings
from props.aggclasses import run_class_init
from props.c10 import TRUSTED
from props.c04 import AGG_TRUSTED

LEVEL = "proof"


def run(rep, tier, seed):
    rep.trusted += TRUSTED + AGG_TRUSTED
    rep.assumptions += [
        "routing: update_args stores a child's text (or converted sub-aggregate) under its own lower-cased tag / appends list members in order (L1, symbolic child); __init__ stores conv(attr, value) in attribute attr and nothing else (per class, all presence patterns)",
        "type rules: conv(attr, text) is the declared converter's convert, whose agreement with the independent OFX type rules is the C10/C09 contracts (Y/N, integers, decimals incl. ',' , entity decoding, enumeration tokens, date-time/time to UTC)",
        "the parser hands over element data trimmed at both ends and otherwise untouched: the _groomstring contract (opaque text) is discharged here too; that a whole document's values arrive is exercised by the bounded write-parse-convert run (values with interior whitespace runs, markup characters, non-ASCII)",
    ]
    run_contracts(rep, "contracts.aggregate", tier, seed)
    run_contracts(rep, "contracts.aggregate_native", tier, seed)      # bounded companions on real classes / trees
    for m in ("contracts.types_basic", "contracts.types_decimal"):
        run_contracts(rep, m, tier, seed, select=lambda c: "convert" in c.target and "unconvert" not in c.target, accept_props=["C10"])
    run_contracts(rep, "contracts.types_dt", tier, seed, select=lambda c: "convert" in c.target and "unconvert" not in c.target and c.tier != "thorough", accept_props=["C09"])
    run_class_init(rep, tier, seed)
    # from the wire: what the parser does to element data before the converters see it, and whole documents end to end
    run_contracts(rep, "contracts.parser", tier, seed, select=lambda c: c.target.endswith("._groomstring"), accept_props=["C02"])
    run_contracts(rep, "contracts.parser_native", tier, seed)       # the C03 clause there: CDATA content is literal (bounded)
    run_contracts(rep, "contracts.roundtrip_native", tier, seed, select=lambda c: c.target.endswith("OFXClient.serialize"), accept_props=["C01"])
    from props.tables import run_tables
    run_tables(rep, rep.prop)
    replay_known_findings(rep)
