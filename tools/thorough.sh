#!/bin/sh
# run every claimed check in the thorough tier on the unchanged tree
cd /verif
test -z "$(git -C /repo status --porcelain)" || { echo "/repo not clean"; exit 1; }
for p in ${*:-$(python3 -c "import json; print(' '.join(c['property_id'] for c in json.load(open('MANIFEST.json'))['checks']))")}; do
  /usr/bin/time -f "$p %es rc=%x" timeout 7200 ./check $p --tier thorough 2>&1 | grep -E "^check |ENGINE|VIOLATION|^C[0-9]+ |machinery" | cut -c1-300
done
