"""Security identifier check digits, from the published algorithms.

CUSIP (ANSI X9.6): characters are valued 0-9, A-Z -> 10..35, '*' 36, '@' 37, '#' 38; values at the
2nd, 4th, 6th, 8th position are doubled; the digit sums of all eight numbers are added; the check digit
is the tens complement of the total modulo 10.
SEDOL: values as above (no vowels), weights 1,3,1,7,3,9; check digit is the tens complement of the
weighted sum modulo 10.
ISIN (ISO 6166): letters are expanded to their two-digit values, then the Luhn formula is applied to the
digit string with the (future) check digit in the rightmost, undoubled position.
"""


def char_value(ch):
    """0-9 -> 0..9, A-Z -> 10..35, '*' '@' '#' -> 36 37 38 (ch is a one-character string)"""
    o = ord(ch)
    return 36 if o == 42 else (37 if o == 64 else (38 if o == 35 else (o - 48 if o <= 57 else o - 55)))


def alnum_value(ch):
    o = ord(ch)
    return o - 48 if o <= 57 else o - 55


def digit_sum(n):
    return n // 10 + n % 10


def cusip_check_digit(base):
    total = 0
    for i in range(8):
        v = char_value(base[i])
        if i % 2 == 1:
            v = v * 2
        total = total + digit_sum(v)
    return (10 - total % 10) % 10


def sedol_check_digit(base):
    weights = [1, 3, 1, 7, 3, 9]
    total = 0
    for i in range(6):
        total = total + alnum_value(base[i]) * weights[i]
    return (10 - total % 10) % 10


def luhn_term(d, doubled):
    return digit_sum(2 * d) if doubled else d


def isin_check_digit(base):
    """Luhn over the digit expansion, scanning from the right; the rightmost digit of the base is doubled
    because the check digit will occupy the undoubled last position."""
    total = 0
    doubled = True
    for i in range(10, -1, -1):
        v = alnum_value(base[i])
        two = v >= 10
        lo = v % 10
        hi = v // 10
        total = total + luhn_term(lo, doubled) + (luhn_term(hi, not doubled) if two else 0)
        doubled = doubled if two else (not doubled)
    return (10 - total % 10) % 10


def is_valid_cusip(s):
    return len(s) == 9 and s[8] == str(cusip_check_digit(s[:8]))


def is_valid_isin(s, agencies):
    return len(s) == 12 and s[:2] in agencies and s[11] == str(isin_check_digit(s[:11]))


from ofxtools.lib import NUMBERING_AGENCIES as _NA
ALLKEYS = sorted(_NA)
KEYS2 = sorted(k for k in _NA if len(k) == 2)
