"""Shortcut properties of the model classes (C16): each is proved equal to the explicit path walk, on heap
instances whose member classes are enumerated and whose field values are symbolic."""
import itertools
import z3
from pyvc.contract import *
from pyvc.values import *
import ofxtools.models as m
from contracts.spec import shortcuts as SP

_n = [0]


def opaque(label):
    _n[0] += 1
    return SVal(object, z3.Const(f"{label}_{_n[0]}", V), {"eq": "term"})


def stmt_obj(cls, label):
    return SObj(cls, {"__items__": [], "trnuid": None, "cltcookie": None}, fresh=False, label=label)


class MsgSetArg(Arg):
    """instance of a message-set class whose members are of the given classes; each wrapper's statement child is
    symbolically present or None"""

    def __init__(self, name, cls, member_classes):
        self.name = name; self.cls = cls; self.member_classes = member_classes

    def make(self, it):
        items = []
        for i, mc in enumerate(self.member_classes):
            f = {"__items__": [], "trnuid": opaque("trnuid"), "cltcookie": opaque("cltcookie")}
            a = SP.WRAPPED.get(mc.__name__)
            for attr in mc.spec_no_listaggregates:
                if attr not in f:
                    f[attr] = None
            if a is not None:
                child_cls = mc.spec[a].__type__
                f[a] = SIte(z3.Bool(f"{self.name}_m{i}_absent"), None, stmt_obj(child_cls, f"{self.name}_stmt{i}"))
            items.append(SObj(mc, f, fresh=False, label=f"{self.name}_m{i}"))
        return SObj(self.cls, {"__items__": items}, fresh=False, label=self.name), []


def other_member(cls):
    """a list member class of the message set that is not a statement wrapper"""
    for a, t in cls.listaggregates.items():
        if t.__type__.__name__ not in SP.WRAPPED:
            return t.__type__
    return None


MSGSETS = [m.BANKMSGSRQV1, m.BANKMSGSRSV1, m.CREDITCARDMSGSRQV1, m.CREDITCARDMSGSRSV1, m.INVSTMTMSGSRQV1, m.INVSTMTMSGSRSV1]


def prop(name):
    def call(it, fn, a):
        if it is None:
            return getattr(a[0], name)
        return it.getattr(a[0], name)
    return call


CONTRACTS = []
for cls in MSGSETS:
    wrappers = [t.__type__ for t in cls.listaggregates.values() if t.__type__.__name__ in SP.WRAPPED]
    om = other_member(cls)
    pool = wrappers + ([om] if om is not None else [])
    for k in (0, 1, 2, 3):
        for combo in itertools.product(pool, repeat=k):
            CONTRACTS.append(Contract(
                f"ofxtools.models:{cls.__name__}.statements",
                args=[MsgSetArg("msgs", cls, list(combo))], call=prop("statements"),
                ensures=[("every-statement-once-in-document-order", "spec.shortcuts.same_objects(result, spec.shortcuts.expected_statements(msgs))")],
                modifies=[f"msgs_stmt{i}" for i in range(k)],
                notes=f"{cls.__name__} with members {[c.__name__ for c in combo]}", props=["C16"], symbolic_only=True))


class AliasArg(Arg):
    def __init__(self, name, cls):
        self.name = name; self.cls = cls

    def make(self, it):
        f = {"__items__": []}
        for attr in self.cls.spec_no_listaggregates:
            f[attr] = opaque(attr)
        return SObj(self.cls, f, fresh=False, label=self.name), []


A0 = len(CONTRACTS)
for (cn, pn), attr in SP.ALIASES.items():
    cls = getattr(m, cn)
    CONTRACTS.append(Contract(f"ofxtools.models:{cn}.{pn}", args=[AliasArg("obj", cls)], call=prop(pn),
                              ensures=[("same-object", f"result is obj.{attr}")], notes=f"{cn}.{pn} is {attr}", props=["C16"], symbolic_only=True))


# ------------------------------------------------------------------ OFX.statements / signon / securities
class OfxArg(Arg):
    """an OFX tree: each of the six statement message sets is None or holds two wrappers (first statement wrapper
    class and, where the set has one, the closing-statement wrapper), each statement child symbolically present"""

    def __init__(self, name="ofx", nwrap=2):
        self.name = name; self.nwrap = nwrap

    def make(self, it):
        f = {"__items__": []}
        for attr in m.OFX.spec_no_listaggregates:
            f[attr] = None
        for attr in SP.MSGSET_ORDER:
            cls = m.OFX.spec[attr].__type__
            wrappers = [t.__type__ for t in cls.listaggregates.values() if t.__type__.__name__ in SP.WRAPPED]
            ms, _ = MsgSetArg(f"{self.name}_{attr}", cls, wrappers[:self.nwrap]).make(it)
            f[attr] = SIte(z3.Bool(f"{self.name}_{attr}_absent"), None, ms)
        son = SObj(m.SONRQ, {"__items__": []}, fresh=False, label="sonrq")
        f["signonmsgsrqv1"] = SObj(m.SIGNONMSGSRQV1, {"__items__": [], "sonrq": son}, fresh=False, label="signonmsgsrqv1")
        return SObj(m.OFX, f, fresh=False, label=self.name), []


O0 = len(CONTRACTS)
CONTRACTS += [
    Contract("ofxtools.models:OFX.statements", args=[OfxArg(nwrap=1)], call=prop("statements"),
             ensures=[("all-statements-of-all-message-sets-in-order", "spec.shortcuts.same_objects(result, spec.shortcuts.expected_ofx_statements(ofx))")],
             modifies=[f"ofx_{a}_stmt{i}" for a in SP.MSGSET_ORDER for i in range(2)],
             notes="every combination of present/absent message sets, one wrapper each with the statement present or absent", props=["C16"], symbolic_only=True, max_paths=6000),
    Contract("ofxtools.models:OFX.statements", args=[OfxArg()], call=prop("statements"), tier="thorough",
             ensures=[("all-statements-of-all-message-sets-in-order", "spec.shortcuts.same_objects(result, spec.shortcuts.expected_ofx_statements(ofx))")],
             modifies=[f"ofx_{a}_stmt{i}" for a in SP.MSGSET_ORDER for i in range(2)],
             notes="every combination of present/absent message sets and present/absent statements (2^6 x 2^10 symbolic)", props=["C16"], symbolic_only=True, max_paths=6000),
    Contract("ofxtools.models:OFX.signon", args=[OfxArg()], call=prop("signon"),
             ensures=[("sonrq", "result is ofx.signonmsgsrqv1.sonrq")], props=["C16"], symbolic_only=True),
]


# =============================================================================== currency type / symbol / rate (Origcurrency mixin)
# curtype, cursym, currate read CURRENCY if present, else ORIGCURRENCY, else nothing.  A CURRENCY / ORIGCURRENCY
# instance is an (empty) list subclass and therefore FALSY: "present" must mean "is not None".
from ofxtools.models.i18n import Origcurrency, CURRENCY, ORIGCURRENCY


class CurArg(Arg):
    name = "tx"

    def make(self, it):
        def cur(cls, label):
            return SObj(cls, {"__items__": [], "cursym": opaque(label + "_sym"), "currate": opaque(label + "_rate")}, fresh=False, label=label)
        c, o = cur(CURRENCY, "currency"), cur(ORIGCURRENCY, "origcurrency")
        has_c, has_o = z3.Bool("has_currency"), z3.Bool("has_origcurrency")
        self_ = SObj(m.STMTTRN, {"__items__": [], "currency": SIte(has_c, c, None), "origcurrency": SIte(has_o, o, None)}, fresh=False, label="tx")
        return {"self": self_, "cur": c, "orig": o, "has_c": SBool(has_c), "has_o": SBool(has_o)}, [z3.Not(z3.And(has_c, has_o))]


def cur_prop(name):
    def call(it, fn, a):
        return it.getattr(a[0]["self"], name)
    return call


for nm, want_c, want_o in (("curtype", "'CURRENCY'", "'ORIGCURRENCY'"), ("cursym", "tx['cur'].cursym", "tx['orig'].cursym"), ("currate", "tx['cur'].currate", "tx['orig'].currate")):
    CONTRACTS.append(Contract(f"ofxtools.models.i18n:Origcurrency.{nm}", args=[CurArg()], call=cur_prop(nm),
                              ensures=[("full-path-value", f"(result == {want_c}) if tx['has_c'] else ((result == {want_o}) if tx['has_o'] else result is None)")],
                              notes=f"{nm} on a transaction with CURRENCY, with ORIGCURRENCY, or with neither (presence symbolic; the aggregates are empty lists, i.e. falsy)",
                              props=["C16"], symbolic_only=True))


def cur_native_cases(tier):
    import decimal
    out = []
    for cname in sorted(n for n in dir(m) if isinstance(getattr(m, n), type) and issubclass(getattr(m, n), Origcurrency) and n.isupper()):
        for which in ("currency", "origcurrency", None):
            out.append([cname, which])
    return out


def cur_native(it, fn, a):
    import decimal
    from xengine import aggx
    cname, which = a
    C = getattr(m, cname)
    b = aggx.Builder(aggx.env(), 0)
    try:
        x = b.witness(C, (which,) if which else ())
    except Exception as ex:
        return [f"cannot build {cname} with {which}: {ex}"]
    problems = []
    sub = getattr(x, which) if which else None
    want = (type(sub).__name__, sub.cursym, sub.currate) if sub is not None else (None, None, None)
    got = (x.curtype, x.cursym, x.currate)
    if got != want:
        problems.append(f"{cname} with {which}: (curtype, cursym, currate) = {got!r}, the full path gives {want!r}")
    return problems


class A2_(Arg):
    def __init__(self, name):
        self.name = name


CONTRACTS.append(Contract("ofxtools.models.i18n:Origcurrency.curtype", args=[A2_("cls"), A2_("which")], call=cur_native,
                          ensures=[("full-path-value-on-real-instances", "result == []")], cases=cur_native_cases, native_only=True,
                          notes="every model class using the Origcurrency mixin x {CURRENCY, ORIGCURRENCY, neither}: real instances", props=["C16"]))
