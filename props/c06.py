"""C06 - a composed request says exactly what the caller asked (proof of the builders, sign-on, dispatch arms and
guards; bounded composition through the real serializer and parser)."""
from props.common import run_contracts, replay_known_findings
from props.c10 import TRUSTED
from props.c04 import AGG_TRUSTED

LEVEL = "proof"


def run(rep, tier, seed):
    rep.trusted += TRUSTED + AGG_TRUSTED + [
        "A-UUID: OFXClient.uuid (uuid4) yields distinct transaction ids; dtclient() is abstract",
        "abstract converters (contracts.agghooks): stored value = conv(attr, given value), justified by the C10 contracts",
    ]
    rep.assumptions += [
        "proved: signon (credentials, application identity, FI iff ORG, CLIENTUID iff configured and version >= 103 - version symbolic over 100..299), the five *trnrq builders (every field routed to its own element, INCTRAN absent iff not asked for investment statements), the five wrap_stmtrq arms on two symbolic requests (one wrapper per request, in order, with the client's bank/broker id), the 2xx end-tag guards of __init__ and serialize, header version and body form selection in serialize",
        "request_statements' grouping (sorted/groupby by class name, message-set assembly) is NOT under a symbolic contract: it is covered by the bounded composition run (11 versions x pretty x close_elements x ORG/FID x CLIENTUID x request multisets, dry run parsed back by the library)",
        "'parsed back, contains ...' composes with C01/C02/C05 (wire forms) and C10 (converters)",
        "'in every configuration' includes the configuration after earlier calls: the request_* methods are proved to leave the client's configuration (version, formatting flags, identifiers) unwritten on every path, raising ones included (frame obligations of the C14 contracts, run here too)",
    ]
    run_contracts(rep, "contracts.client_compose", tier, seed)
    run_contracts(rep, "contracts.client", tier, seed, select=lambda c: c.target.endswith((".download", ".signon", "._request_profile", ".request_statements", ".request_accounts", ".request_tax1099", ".request_profile")), accept_props=["C14", "C15"])
    run_contracts(rep, "contracts.client_compose_native", tier, seed)
    replay_known_findings(rep)
