"""Enumeration tables (engine X, exhaustive over every OneOf of every model class): a code table whose tokens all
have one width (ISO 4217 currencies, ISO 639 languages, ISO 3166 countries: three letters) stays of that width, tokens
are unique, non-empty, carry no surrounding blanks.  A slip in the table itself (two adjacent string literals without
the comma between them silently become one token) cannot be seen by the converter contracts, which take the table as
given."""
import time


def run_tables(rep, prop):
    import ofxtools.models as m
    from ofxtools.models.base import Aggregate
    from ofxtools import Types
    seen = {}
    t0 = time.time()
    for n in sorted(dir(m)):
        C = getattr(m, n)
        if not (isinstance(C, type) and issubclass(C, Aggregate) and n.isupper()):
            continue
        for attr, t in C.spec.items():
            t = getattr(t, "converter", t)
            if isinstance(t, Types.OneOf):
                key = tuple(t.valid)
                seen.setdefault(key, f"{n}.{attr}")
    # class-level declarations that every construction iterates over must be containers that can be iterated again and
    # again (a generator or an iterator there would be used up by the first instance)
    for n in sorted(dir(m)):
        C = getattr(m, n)
        if not (isinstance(C, type) and issubclass(C, Aggregate) and n.isupper()):
            continue
        for attr in ("optionalMutexes", "requiredMutexes"):
            for k in C.__mro__:
                if attr in vars(k):
                    v = vars(k)[attr]
                    full = f"{prop}/table:{n}.{attr}/re-iterable"
                    ok = isinstance(v, (list, tuple)) and all(isinstance(g, (list, tuple)) and all(isinstance(x, str) for x in g) for g in v)
                    if ok:
                        rep.ok(full, "enumeration", 0.0, "top", f"ofxtools.models:{n}.{attr}")
                    else:
                        rep.fail(full, "enumeration", f"{k.__name__}.{attr} is a {type(v).__name__}, not a list of lists of names", 0.0, "top", f"ofxtools.models:{n}.{attr}")
                        rep.violation(full, {"class": n, "declared_in": k.__name__, "attribute": attr, "type": type(v).__name__,
                                             "python": f"import sys\nimport ofxtools.models as m\nv = [vars(k)[{attr!r}] for k in m.{n}.__mro__ if {attr!r} in vars(k)][0]\nsys.exit(0 if isinstance(v, (list, tuple)) and all(isinstance(g, (list, tuple)) for g in v) else 17)\n"})
                    break
    rep.extra["enumeration_tables"] = len(seen)
    for toks, where in seen.items():
        full = f"{prop}/table:{where}/tokens-well-formed"
        problems = []
        strs = [x for x in toks if isinstance(x, str)]
        if len(set(toks)) != len(toks):
            problems.append("duplicate tokens")
        if any((not x) or x != x.strip() for x in strs):
            problems.append("empty or blank-padded token")
        if len(strs) >= 20:
            from collections import Counter
            w, cnt = Counter(len(x) for x in strs).most_common(1)[0]
            if cnt >= 0.9 * len(strs) and cnt != len(strs):
                problems.append(f"a table of {w}-character codes holds {[x for x in strs if len(x) != w][:12]}")
        if problems:
            rep.fail(full, "enumeration", "; ".join(problems), 0.0, "top", f"ofxtools.models:{where}")
            rep.violation(full, {"table": where, "problems": problems,
                                 "python": ("import sys\nimport ofxtools.models as m\n"
                                            f"t = m.{where.split('.')[0]}.spec[{where.split('.')[1]!r}]\nt = getattr(t, 'converter', t)\n"
                                            "from collections import Counter\nstrs = [x for x in t.valid if isinstance(x, str)]\n"
                                            "w, cnt = Counter(len(x) for x in strs).most_common(1)[0]\n"
                                            "bad = len(set(t.valid)) != len(t.valid) or any((not x) or x != x.strip() for x in strs) or (len(strs) >= 20 and cnt >= 0.9 * len(strs) and cnt != len(strs))\n"
                                            "print([x for x in strs if len(x) != w][:5])\nsys.exit(17 if bad else 0)\n")})
        else:
            rep.ok(full, "enumeration", (time.time() - t0) / max(1, len(seen)), "top", f"ofxtools.models:{where}")


def run_warn_only_strings(rep, prop):
    """C11 'bounded strings do not exceed their limit': every bounded string of every model class is declared strict
    (Types.String with a length) - except the reviewed list of warn-only declarations (nagstring_allow.json).  The
    converter contracts take a field's declared type as given; this obligation is about the declaration itself."""
    import json, os
    import ofxtools.models as m
    from ofxtools.models.base import Aggregate
    from ofxtools import Types
    allow = set(json.load(open(os.path.join(os.path.dirname(os.path.dirname(os.path.abspath(__file__))), "nagstring_allow.json")))["allowed"])
    seen, stack = set(), [Aggregate]
    while stack:
        c = stack.pop()
        if c in seen:
            continue
        seen.add(c); stack += c.__subclasses__()
    n = 0
    for C in sorted(seen, key=lambda c: (c.__module__, c.__name__)):
        for k, v in vars(C).items():
            if isinstance(v, Types.String) and getattr(v, "length", None) is not None:
                n += 1
                key = f"{C.__module__}:{C.__name__}.{k}:{v.length}"
                full = f"{prop}/table:{C.__name__}.{k}/bounded-string-is-strict"
                if not isinstance(v, Types.NagString) or key in allow:
                    rep.ok(full, "enumeration", 0.0, "top", f"ofxtools.models:{C.__name__}.{k}")
                else:
                    det = (f"{C.__name__}.{k} is declared {type(v).__name__}({v.length}): a value longer than {v.length} characters is kept and written "
                           f"(with a warning) instead of being refused; it is not one of the reviewed warn-only declarations")
                    rep.fail(full, "enumeration", det, 0.0, "top", f"ofxtools.models:{C.__name__}.{k}")
                    rep.violation(full, {"class": C.__name__, "attribute": k, "declared": f"{type(v).__name__}({v.length})", "detail": det,
                                         "python": ("import sys, warnings\nwarnings.simplefilter('ignore')\nimport importlib\nfrom ofxtools import Types\n"
                                                    f"C = getattr(importlib.import_module({C.__module__!r}), {C.__name__!r})\nv = vars(C).get({k!r})\n"
                                                    f"long = 'x' * ({v.length} + 1)\n"
                                                    "try:\n    out = v.unconvert(v.convert(long))\nexcept Exception:\n    sys.exit(0)\n"
                                                    f"sys.exit(17 if isinstance(v, Types.NagString) and len(out) > {v.length} else 0)\n")})
    rep.extra["bounded_strings"] = n
