"""What ofxget's statement commands must ask for (property C19), written from the statement: one request per
configured account, with that account's type, the given dates and include flags."""
from ofxtools.Client import StmtRq, CcStmtRq, InvStmtRq, StmtEndRq, CcStmtEndRq

BANK_TYPES = ("checking", "savings", "moneymrkt", "creditline")


def expected_stmt_requests(args, start, end, asof):
    out = []
    for t in BANK_TYPES:
        for acct in args[t]:
            out.append(StmtRq(acctid=acct, accttype=t.upper(), dtstart=start, dtend=end, inctran=args["inctran"]))
    for acct in args["creditcard"]:
        out.append(CcStmtRq(acctid=acct, dtstart=start, dtend=end, inctran=args["inctran"]))
    for acct in args["investment"]:
        out.append(InvStmtRq(acctid=acct, dtstart=start, dtend=end, dtasof=asof, inctran=args["inctran"], incoo=args["incoo"],
                             incpos=args["incpos"], incbal=args["incbal"]))
    return out


def expected_stmtend_requests(args, start, end):
    out = []
    for t in BANK_TYPES:
        for acct in args[t]:
            out.append(StmtEndRq(acctid=acct, accttype=t.upper(), dtstart=start, dtend=end))
    for acct in args["creditcard"]:
        out.append(CcStmtEndRq(acctid=acct, dtstart=start, dtend=end))
    return out


def same_requests(a, b):
    if len(a) != len(b):
        return False
    r = True
    for i in range(len(a)):
        r = r and type(a[i]) is type(b[i]) and a[i] == b[i]
    return r


def kf_default_not_written(server, first_opts, preexisting):
    """KNOWN FINDING predicate: an option given on the command line with a value equal to the built-in default (e.g.
    --version 203) while the FI database or the existing user file holds a different value for it"""
    from ofxtools.scripts import ofxget as g
    flat = {o[0]: o[1] for o in first_opts if len(o) >= 2}
    if flat.get("--version") == str(g.DEFAULTS["version"]):
        lib = g.read_config(g.LIBCFG, server)
        if lib.get("version", g.DEFAULTS["version"]) != g.DEFAULTS["version"] or "version" in preexisting:
            return True
    return False


def DEFAULTS():
    from ofxtools.scripts import ofxget as g
    return g.DEFAULTS


HOME_OPTS = ("url", "org", "fid", "brokerid")


def effective(o, cli, user, home, found, defaults):
    """the value in effect for option o: command line, then the user's / FI database's section (read only when a server
    is named), then an OFX Home lookup (made when an OFX Home id is in effect and the lookup finds it), then the default"""
    if o in cli:
        return cli[o]
    if "server" in cli and o in user:
        return user[o]
    if o in HOME_OPTS and found and effective("ofxhome", cli, user, home, found, defaults):
        return getattr(home, o)
    return defaults[o]


TYPES = ["checking", "savings", "moneymrkt", "creditline", "creditcard", "investment"]
TYPE_OF = {"CHECKING": "checking", "SAVINGS": "savings", "MONEYMRKT": "moneymrkt", "CREDITLINE": "creditline"}


def configured_type_without_active(infos, userfile):
    """the known finding: the configuration lists accounts of a type for which the server reports no ACTIVE account"""
    active = set()
    for kind, acct, typ, status in infos:
        if status == "ACTIVE" and kind != "bp":
            active.add(TYPE_OF.get(typ) if kind == "bank" else ("creditcard" if kind == "cc" else "investment"))
    return any(t in TYPES and t not in active for t in (userfile or {}))




def list_items(text):
    """a comma-separated list as a configuration file holds it: the items between the commas, blanks around each removed"""
    items = []
    cur = ""
    for ch in text:
        if ch == ",":
            items.append(cur.strip(" "))
            cur = ""
        else:
            cur = cur + ch
    items.append(cur.strip(" "))
    return items
