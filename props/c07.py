"""C07 - unknown and vendor-specific tags never change or break the converted result (proof)."""
from props.common import run_contracts, replay_known_findings
from props.c10 import TRUSTED
from props.c04 import AGG_TRUSTED

LEVEL = "proof"


def run(rep, tier, seed):
    rep.trusted += TRUSTED + AGG_TRUSTED
    rep.assumptions += [
        "top clause (update_args, symbolic child of any class): a child whose tag the class does not define leaves the accumulator unchanged in all four components, warns exactly once and is not entered",
        "fold lemma (List, checked by lean on every run): folding a step function that is the identity on skipped elements over a list equals folding it over the list with those elements removed - so insertions at any position, in any number, do not change the conversion",
        "groom / ungroom (base, MFINFO, STOCKINFO, MAIL): proved over an ownership-tracked element model for 0..3 direct children (4 thorough) with symbolic tags - drops exactly the children whose tag contains '.', renames the keyword tag on the first direct child only, writes nothing the caller owns (contracts.frames); the same on real element trees over an enumerated scope (contracts.groom, bounded)",
    ]
    run_contracts(rep, "contracts.aggregate", tier, seed)
    run_contracts(rep, "contracts.aggregate_native", tier, seed)      # bounded companions on real classes / trees
    run_contracts(rep, "contracts.groom", tier, seed)
    run_contracts(rep, "contracts.frames", tier, seed)
    from props.lean import run_lean
    run_lean(rep, "Fold.lean")
    replay_known_findings(rep)
