"""C01 - serialize-then-parse returns the same model, for every class and wire form."""
from props.common import run_contracts, replay_known_findings
from props.c10 import TRUSTED
from props.c04 import AGG_TRUSTED

LEVEL = "proof"


def run(rep, tier, seed):
    rep.trusted += TRUSTED + AGG_TRUSTED + [
        "xml.etree.ElementTree.tostring(method='html') (standard library) - exercised by the bounded writer check against the reference tokenizer, not proved",
    ]
    rep.assumptions += [
        "composition (stated, not mechanised): model -> tree is the to_etree loop body + _listAppend + ungroom contracts (here); tree -> bytes is the writer check (bounded) + header contracts (C05, C12); bytes -> tree is the parser contract over every rendering (C02); tree -> model is the fold step + per-class constructor proofs (C03, C04, C07 groom); element text <-> value is the write-then-read contract of every element type (here, with the reader contracts of C09/C10)",
        "readers of Bool/String/OneOf/Integer/Decimal (C10 contracts) are run here too; assumed here, discharged by their own checks: reader contracts of DateTime/Time per layout (C09), parser over renderings (C02), header round trip (C05/C12), per-class constructor route (C03/C04)",
        "the end-to-end statement itself - every class x varied values x every wire form x header versions - is decided by the bounded run only (contracts/roundtrip_native.py)",
    ]
    # model <-> tree, generic machinery with a symbolic attribute (L1)
    run_contracts(rep, "contracts.aggregate", tier, seed)
    # ungroom / groom value contracts over the ownership element model
    run_contracts(rep, "contracts.frames", tier, seed, accept_props=["C07"])
    # element text <-> value: writers and write-then-read for every element type
    rt = lambda c: any(i in ("roundtrip", "canonical", "instant", "half-ms", "C11-lexical") for i, _ in c.ensures) or c.target.endswith(".unconvert") or (c.target.endswith(".convert") and any(i in ("value", "identity", "none", "member") for i, _ in c.ensures))
    for m in ("contracts.types_basic", "contracts.types_decimal", "contracts.types_dt"):
        run_contracts(rep, m, tier, seed, select=rt, accept_props=["C09", "C10", "C11"])
    # the library's own writer and pretty-printer (shaped trees, symbolic data, escaping interpreted from the library source)
    run_contracts(rep, "contracts.writers", tier, seed)
    # end to end, and the body writers against the reference tokenizer (bounded)
    run_contracts(rep, "contracts.roundtrip_native", tier, seed)
    replay_known_findings(rep)
