"""Apply a seeded break to /repo, run checks, undo.  usage: seedtest.py <seed dir> <prop> [<prop>...] [--confirm]
--confirm additionally re-verifies the seed itself: suite green with the patch, demo fails with / passes without."""
import json, os, subprocess, sys, time

def sh(cmd, **kw):
    # demos and the patched suite run with a private data / configuration home: a patched library must not leave files in
    # the user's real ~/.local/share/ofxtools (one seeded change did: a zero-byte profile cache that broke a test for everyone)
    import tempfile
    env = dict(os.environ)
    priv = tempfile.mkdtemp(prefix="seedtest-home-")
    env.update(XDG_DATA_HOME=priv + "/data", XDG_CONFIG_HOME=priv + "/config", XDG_CACHE_HOME=priv + "/cache")
    try:
        return subprocess.run(cmd, shell=True, capture_output=True, text=True, env=env, **kw)
    finally:
        import shutil
        shutil.rmtree(priv, ignore_errors=True)

REPO = os.environ.get("VERIF_REPO", "/repo")


def main():
    d = sys.argv[1]; props = [a for a in sys.argv[2:] if not a.startswith("--")]; confirm = "--confirm" in sys.argv
    patch = os.path.join(d, "patch.diff")
    assert sh(f"git -C {REPO} status --porcelain").stdout.strip() == "", f"{REPO} not clean"
    res = {"seed": d, "checks": {}}
    if confirm:
        r = sh(f"PYTHONPATH={REPO} /venv/bin/python {d}/demo.py"); res["demo_clean_rc"] = r.returncode
    # evidence files belong to runs on the unchanged tree: keep them aside while the patched tree is checked
    KEEP = f"/verif/.cache/evidence.keep.{os.getpid()}"
    sh(f"rm -rf {KEEP} && mkdir -p /verif/.cache && cp -r /verif/evidence {KEEP}")
    r = sh(f"git -C {REPO} apply {patch}")
    if r.returncode != 0:
        print("patch does not apply:", r.stderr); sys.exit(2)
    try:
        if confirm:
            r = sh(f"PYTHONPATH={REPO} /venv/bin/python {d}/demo.py"); res["demo_patched_rc"] = r.returncode
            r = sh(f"cd {REPO} && /venv/bin/python -m pytest -q -p no:cacheprovider -x -n 16 tests 2>&1 | tail -1"); res["suite_patched"] = r.stdout.strip()
        for p in props:
            t = time.time()
            r = sh(f"cd /verif && ./check {p} --tier quick")
            viol = [l for l in r.stdout.splitlines() if l.startswith("VIOLATION")]
            res["checks"][p] = {"exit": r.returncode, "violations": len(viol),
                                "by_proof": len([l for l in viol if "bounded" not in l]), "by_bounded_run": len([l for l in viol if "bounded" in l]), "first": viol[:2], "tail": r.stdout.strip().splitlines()[-1:], "wall": round(time.time() - t, 1),
                                "engine_errors": [l for l in r.stdout.splitlines() if l.startswith("ENGINE-ERROR")][:2]}
    finally:
        sh(f"git -C {REPO} checkout -- . && git -C {REPO} clean -fdq ofxtools")
        sh(f"rm -rf /verif/evidence && mv {KEEP} /verif/evidence")
    print(json.dumps(res, indent=1))

main()
