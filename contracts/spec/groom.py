"""What groom/ungroom are for (from the docstrings of ofxtools.models.base and the property C07/C17): on a COPY of the
element, children whose tag carries a vendor prefix (contains '.') are dropped; three classes additionally
rename one *direct* child whose OFX tag is a Python keyword (YIELD<->YLD in MFINFO/STOCKINFO, FROM<->FRM in MAIL)."""
import copy
import xml.etree.ElementTree as ET

RENAMES = {"MFINFO": ("YIELD", "YLD"), "STOCKINFO": ("YIELD", "YLD"), "MAIL": ("FROM", "FRM")}


def canon(e):
    return ET.tostring(e)


def groom_ref(clsname, elem):
    out = copy.deepcopy(elem)
    if clsname in RENAMES:
        a, b = RENAMES[clsname]
        for ch in list(out):
            if ch.tag == a:
                ch.tag = b
                break
    for ch in list(out):
        if "." in ch.tag:
            out.remove(ch)
    return out


def ungroom_ref(clsname, elem):
    out = copy.deepcopy(elem)
    if clsname in RENAMES:
        a, b = RENAMES[clsname]
        for ch in list(out):
            if ch.tag == b:
                ch.tag = a
                break
    return out
