"""decimal.Decimal model: opaque values of sort V with uninterpreted library functions (T-LIB).
What the proofs establish is the *structure* of the converters (which library operation is applied to
what, in which order, under which condition, and which exception escapes); the numeric laws of the
decimal module itself are axioms and are exercised natively (bounded) on every run."""
import decimal
import z3
from .values import *
from . import core as C
from . import models as M

dec_ok = z3.Function("dec_ok", V, z3.BoolSort())         # decimal.Decimal(text) succeeds
dec_of = z3.Function("dec_of", V, V)                     # its value
dec_quant = z3.Function("dec_quant", V, V, V)            # d.quantize(q)
dec_quant_ok = z3.Function("dec_quant_ok", V, V, z3.BoolSort())
dec_same_q = z3.Function("dec_same_q", V, V, z3.BoolSort())
dec_str = z3.Function("dec_str", V, V)                   # str(d)
dec_of_int = z3.Function("dec_of_int", z3.IntSort(), V)


def D(e):
    return SVal(decimal.Decimal, e, {"eq": "term"})


def m_Decimal(it, args, kw):
    if it.all_concrete(args, kw):
        return it.native(decimal.Decimal, args, kw)
    x = it.force(args[0]) if args else 0
    if isinstance(x, SVal) and x.pytype is decimal.Decimal:
        return x
    if isinstance(x, (SStr, str)):
        x = SVal(str, M.text_term(it, x))
    if isinstance(x, SVal) and x.pytype is str:
        if not it.branch(dec_ok(x.e)):
            raise C.Raised(ExcVal(decimal.InvalidOperation, ("conversion syntax",)))
        return D(dec_of(x.e))
    ok, i = M.as_int(x)
    if ok:
        return D(dec_of_int(zint(i)))
    raise C.Raised(ExcVal(TypeError, ("conversion to Decimal",)))


def dm_quantize(it, d, args, kw):
    q = it.force(args[0])
    qe = q.e if isinstance(q, SVal) else lit_dec(it, q)
    if not it.branch(dec_quant_ok(d.e, qe)):
        raise C.Raised(ExcVal(decimal.InvalidOperation, ("quantize",)))
    r = dec_quant(d.e, qe)
    it.assume(dec_same_q(r, qe))
    return D(r)


def dm_same_quantum(it, d, args, kw):
    q = it.force(args[0])
    qe = q.e if isinstance(q, SVal) else lit_dec(it, q)
    return SBool(dec_same_q(d.e, qe))


_lits = {}


def lit_dec(it, d):
    """a z3 constant for a concrete Decimal (distinct representation = distinct constant)"""
    key = (str(d.as_tuple()),)
    if key not in _lits:
        _lits[key] = z3.Const("dec_" + "".join(c if c.isalnum() else "_" for c in repr(d)), V)
    return _lits[key]


def p_str(it, d):
    t = dec_str(d.e)
    it.assume(tlen(t) >= 1)
    return SVal(str, t)


def install(it):
    it.models[decimal.Decimal] = m_Decimal
    it.methods[(decimal.Decimal, "quantize")] = dm_quantize
    it.methods[(decimal.Decimal, "same_quantum")] = dm_same_quantum
