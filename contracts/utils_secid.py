"""Sidecar contracts for ofxtools.utils, security identifiers (property C20).
Top-level postconditions are taken from the property statement; the spec functions are in
contracts/spec/secid.py (published algorithms)."""
from pyvc.contract import *
from ofxtools.lib import NUMBERING_AGENCIES

ALNUM = "0123456789ABCDEFGHIJKLMNOPQRSTUVWXYZ"
CUSIP_ALPHA = ALNUM + "*@#"
SEDOL_ALPHA = "".join(c for c in ALNUM if c not in "AEIO")
KEYS2 = sorted(k for k in NUMBERING_AGENCIES if len(k) == 2)
ALLKEYS = sorted(NUMBERING_AGENCIES)
# printable ASCII without whitespace and underscore: the domain on which the int() model is exact


def _rs(rng, alpha, n):
    return "".join(rng.choice(alpha) for _ in range(n))


def gen_valid_cusip(rng):
    from contracts.spec import secid
    b = _rs(rng, ALNUM, 8)
    return [b + str(secid.cusip_check_digit(b)), rng.choice([None] + KEYS2)]


def gen_valid_sedol(rng):
    from contracts.spec import secid
    b = _rs(rng, SEDOL_ALPHA, 6)
    return [b + str(secid.sedol_check_digit(b)), rng.choice([None] + KEYS2)]


def gen_isin_base(rng):
    return [rng.choice(KEYS2) + _rs(rng, ALNUM, 9)]


def gen_isin(rng):
    from contracts.spec import secid
    b = rng.choice(KEYS2) + _rs(rng, ALNUM, 9)
    d = str(secid.isin_check_digit(b)) if rng.random() < 0.5 else rng.choice(ALNUM)
    return [b + d]


def gen_cusip(rng):
    from contracts.spec import secid
    b = _rs(rng, CUSIP_ALPHA, 8)
    d = str(secid.cusip_check_digit(b)) if rng.random() < 0.5 else rng.choice(CUSIP_ALPHA)
    return [b + d]


ASCII_VISIBLE = "".join(chr(c) for c in range(33, 127) if chr(c) != "_")
ANYCHAR = [(0, 0xD7FF), (0xE000, 0x10FFFF)]       # the check character position: any code point at all
FOREIGN_DIGITS = "".join(chr(base + d) for base in (0x0660, 0x06F0, 0x0966, 0xFF10) for d in range(10))   # decimal digits int() also accepts
ANY_TRAILER = ASCII_VISIBLE + " \n\r\t"        # what may follow a complete identifier in an over-long one

CONTRACTS = [
    # 0
    Contract("ofxtools.utils:cusip_checksum",
             args=[StrArg("base", length=8, charset=CUSIP_ALPHA)],
             ensures=[("digit", "result == str(spec.secid.cusip_check_digit(base))")],
             returns_expr="str(spec.secid.cusip_check_digit(base))",
             props=["C20"]),
    # 1  any length, any visible ASCII: wrong length never validates; right length validates iff the check digit is right
    Contract("ofxtools.utils:validate_cusip",
             args=[StrArg("cusip", minlen=0, maxlen=11, charset=CUSIP_ALPHA, per_pos={8: ANYCHAR, 9: ANY_TRAILER, 10: ANY_TRAILER})],
             ensures=[("iff", "result == spec.secid.is_valid_cusip(cusip)")], gen=lambda rng: (lambda c: [(c[0] if rng.random() < 0.7 else c[0][:8] + rng.choice(FOREIGN_DIGITS + "xX-\u00b2")) + rng.choice(["", "", "\n", " ", "0", "\r\n"])])(gen_cusip(rng)),
             props=["C20"]),
    # 2
    Contract("ofxtools.utils:sedol_checksum",
             args=[StrArg("base", length=6, charset=SEDOL_ALPHA)],
             ensures=[("digit", "result == str(spec.secid.sedol_check_digit(base))")],
             returns_expr="str(spec.secid.sedol_check_digit(base))",
             props=["C20"]),
    # 3 the vowels are refused
    Contract("ofxtools.utils:sedol_checksum",
             args=[StrArg("base", length=6, charset=ALNUM)],
             requires=["'A' in base or 'E' in base or 'I' in base or 'O' in base"],
             raises=[(AssertionError, "True", "must")],
             props=["C20"], kind="helper"),
    # 4
    Contract("ofxtools.utils:isin_checksum",
             args=[StrArg("base", length=11, charset=ALNUM)],
             requires=["base[:2] in spec.secid.KEYS2"],
             ensures=[("digit", "result == str(spec.secid.isin_check_digit(base))")],
             returns_expr="str(spec.secid.isin_check_digit(base))",
             split=["ord(base[%d]) <= 57" % i for i in range(2, 11)], shards=16, gen=gen_isin_base,
             props=["C20"], max_paths=200),
    # 5 unknown prefix is refused
    Contract("ofxtools.utils:isin_checksum",
             args=[StrArg("base", length=11, charset=ALNUM)],
             requires=["base[:2] not in spec.secid.ALLKEYS"],
             raises=[(AssertionError, "True", "must")],
             props=["C20"], kind="helper"),
    # 6 wrong length or unknown prefix never validates; otherwise iff check digit right
    Contract("ofxtools.utils:validate_isin",
             args=[StrArg("isin", minlen=10, maxlen=13, charset=ALNUM, per_pos={11: ANYCHAR, 12: ANY_TRAILER})],
             ensures=[("iff", "result == spec.secid.is_valid_isin(isin, spec.secid.ALLKEYS)")], gen=lambda rng: (lambda c: [(c[0] if rng.random() < 0.7 else c[0][:11] + rng.choice(FOREIGN_DIGITS + "xX-\u00b2")) + rng.choice(["", "", "\n", " ", "0", "\t"])])(gen_isin(rng)),
             props=["C20"], max_paths=400),
    # 7 valid CUSIP + two-letter agency -> valid ISIN embedding the CUSIP
    Contract("ofxtools.utils:cusip2isin",
             args=[StrArg("cusip", length=9, charset=ALNUM), OptArg(OneOfArg("nation", KEYS2))],
             requires=["spec.secid.is_valid_cusip(cusip)"],
             ensures=[("valid", "spec.secid.is_valid_isin(result, spec.secid.ALLKEYS)"),
                      ("embeds", "result[2:11] == cusip and result[:2] == (nation or 'US')")], gen=gen_valid_cusip,
             props=["C20"], max_paths=400),
    # 8 invalid CUSIP refused
    Contract("ofxtools.utils:cusip2isin",
             args=[StrArg("cusip", minlen=8, maxlen=10, charset=CUSIP_ALPHA), Const("nation", None)],
             requires=["not spec.secid.is_valid_cusip(cusip)"],
             raises=[(ValueError, "True", "must")],
             props=["C20"]),
    # 9 valid SEDOL -> valid ISIN embedding it
    Contract("ofxtools.utils:sedol2isin",
             args=[StrArg("sedol", length=7, charset=SEDOL_ALPHA), OptArg(OneOfArg("nation", KEYS2))],
             requires=["sedol[6] == str(spec.secid.sedol_check_digit(sedol[:6]))"],
             ensures=[("valid", "spec.secid.is_valid_isin(result, spec.secid.ALLKEYS)"),
                      ("embeds", "result[4:11] == sedol and result[2:4] == '00' and result[:2] == (nation or 'GB')")], gen=gen_valid_sedol,
             props=["C20"], max_paths=400),
    # 10 a SEDOL whose check character is wrong - any alphanumeric, not only a wrong digit - is refused
    Contract("ofxtools.utils:sedol2isin",
             args=[StrArg("sedol", length=7, charset=SEDOL_ALPHA, per_pos={6: ALNUM}), Const("nation", None)],
             requires=["sedol[6] != str(spec.secid.sedol_check_digit(sedol[:6]))"],
             raises=[(AssertionError, "True", "must"), (ValueError, "True", "must")], gen=lambda rng: [_rs(rng, SEDOL_ALPHA, 6) + rng.choice(ALNUM), None],
             notes="invalid SEDOL (check character over all alphanumerics) never yields an ISIN",
             props=["C20"], max_paths=400),
    # 11 wrong length refused
    Contract("ofxtools.utils:sedol2isin",
             args=[StrArg("sedol", minlen=5, maxlen=9, charset=SEDOL_ALPHA), Const("nation", None)],
             requires=["len(sedol) != 7"],
             raises=[(AssertionError, "True", "must"), (ValueError, "True", "must")],
             props=["C20"], max_paths=400),
]

# lemmas over the contracts' spec functions only (no code): changing the check character invalidates
LEMMAS = [
    ("cusip-check-char-unique",
     [StrArg("c", length=9, charset=CUSIP_ALPHA), StrArg("d", length=1, charset=CUSIP_ALPHA)],
     "not (spec.secid.is_valid_cusip(c) and d != c[8] and spec.secid.is_valid_cusip(c[:8] + d))"),
    ("isin-check-char-unique",
     [StrArg("c", length=12, charset=ALNUM), StrArg("d", length=1, charset=ALNUM)],
     "not (spec.secid.is_valid_isin(c, spec.secid.ALLKEYS) and d != c[11] and spec.secid.is_valid_isin(c[:11] + d, spec.secid.ALLKEYS))"),
    ("cusip-completed-validates",
     [StrArg("b", length=8, charset=CUSIP_ALPHA)],
     "spec.secid.is_valid_cusip(b + str(spec.secid.cusip_check_digit(b)))"),
]


# ---------------------------------------------------------------------------------------------- histories (bounded)
# The contracts above are per call.  A call that FAILS part-way (a character outside the alphabet, a vowel in a SEDOL,
# an unknown prefix, a wrong length) must leave nothing behind that changes what later calls compute: sequences of
# refused and well-formed identifiers through all public functions, every well-formed one checked against the spec.
BAD_CUSIP_CHARS = "- ./_$é"      # (a lower-case letter is not in this list: int(c, 36) values it like its capital)


def _outcome(f, *a):
    try:
        return ("ret", f(*a))
    except Exception as ex:
        return ("exc", type(ex).__name__)


def run_secid_history(it, fn, a):
    import ofxtools.utils as U
    from contracts.spec import secid
    seq = a[0]
    problems = []
    for kind, text in seq:
        if kind == "bad-cusip":
            o = _outcome(U.validate_cusip, text)
            if o == ("ret", True):
                problems.append(f"validate_cusip({text!r}) is True")
            _outcome(U.cusip_checksum, text[:8]); _outcome(U.cusip2isin, text)
        elif kind == "bad-sedol":
            _outcome(U.sedol_checksum, text[:6])
            if _outcome(U.sedol2isin, text)[0] == "ret":
                problems.append(f"sedol2isin({text!r}) returned")
        elif kind == "bad-isin":
            _outcome(U.isin_checksum, text[:11])
            if _outcome(U.validate_isin, text) == ("ret", True):
                problems.append(f"validate_isin({text!r}) is True")
        elif kind == "cusip":
            d = str(secid.cusip_check_digit(text))
            if _outcome(U.cusip_checksum, text) != ("ret", d):
                problems.append(f"after {seq[:seq.index((kind, text))]!r}: cusip_checksum({text!r}) gives {_outcome(U.cusip_checksum, text)}, algorithm {d}")
            if _outcome(U.validate_cusip, text + d) != ("ret", True):
                problems.append(f"validate_cusip({text + d!r}) is not True")
            wrong = str((int(d) + 3) % 10)
            if _outcome(U.validate_cusip, text + wrong) != ("ret", False):
                problems.append(f"validate_cusip({text + wrong!r}) (wrong check digit) is not False")
            if all(c in ALNUM for c in text):
                o = _outcome(U.cusip2isin, text + d)
                if o[0] != "ret" or not secid.is_valid_isin(o[1], secid.ALLKEYS) or o[1][2:11] != text + d:
                    problems.append(f"cusip2isin({text + d!r}) gives {o}")
        elif kind == "sedol":
            d = str(secid.sedol_check_digit(text))
            if _outcome(U.sedol_checksum, text) != ("ret", d):
                problems.append(f"sedol_checksum({text!r}) gives {_outcome(U.sedol_checksum, text)}, algorithm {d}")
            o = _outcome(U.sedol2isin, text + d)
            if o[0] != "ret" or not secid.is_valid_isin(o[1], secid.ALLKEYS) or o[1][4:11] != text + d:
                problems.append(f"sedol2isin({text + d!r}) gives {o}")
        elif kind == "isin":
            d = str(secid.isin_check_digit(text))
            if _outcome(U.isin_checksum, text) != ("ret", d):
                problems.append(f"isin_checksum({text!r}) gives {_outcome(U.isin_checksum, text)}, algorithm {d}")
            if _outcome(U.validate_isin, text + d) != ("ret", True):
                problems.append(f"validate_isin({text + d!r}) is not True")
    return problems


def cases_secid_history(tier):
    import random
    rng = random.Random(20)
    out = []
    goods = [("cusip", "08467010"), ("cusip", "0846701*"), ("cusip", "@8467#1Z"), ("sedol", "B0YBKJ"), ("sedol", "263494"), ("isin", "US084670108"), ("isin", "GB0002634946"[:11])]
    bads = []
    for pos in range(8):
        for ch in BAD_CUSIP_CHARS[:4] if tier != "thorough" else BAD_CUSIP_CHARS:
            b = "08467010"
            bads.append(("bad-cusip", b[:pos] + ch + b[pos + 1:] + "8"))
    bads += [("bad-cusip", "0846701"), ("bad-cusip", "0846701088"), ("bad-cusip", "")]
    for pos in range(6):
        bads.append(("bad-sedol", "B0YBKJ"[:pos] + "A" + "B0YBKJ"[pos + 1:] + "7"))
        bads.append(("bad-sedol", "B0YBKJ"[:pos] + "-" + "B0YBKJ"[pos + 1:] + "7"))
    bads += [("bad-sedol", "B0YBK"), ("bad-sedol", "B0YBKJ77")]
    for pos in range(2, 11):
        bads.append(("bad-isin", "US084670108"[:pos] + "-" + "US084670108"[pos + 1:] + "0"))
    bads += [("bad-isin", "ZZ0846701080"), ("bad-isin", "US08467010"), ("bad-isin", "us0846701086")]
    for b in bads:
        out.append([[b] + goods])
        out.append([[b, b] + goods[:3]])
    for _ in range(40 if tier != "thorough" else 400):
        seq = []
        for _ in range(rng.randint(2, 6)):
            if rng.random() < 0.5:
                seq.append(rng.choice(bads))
            else:
                k = rng.choice(["cusip", "sedol", "isin"])
                seq.append((k, _rs(rng, CUSIP_ALPHA, 8) if k == "cusip" else (_rs(rng, SEDOL_ALPHA, 6) if k == "sedol" else rng.choice(KEYS2) + _rs(rng, ALNUM, 9))))
        out.append([seq])
    return out


class _Seq(Arg):
    def __init__(self, name):
        self.name = name


CONTRACTS.append(
    Contract("ofxtools.utils:validate_cusip", args=[_Seq("seq")], call=run_secid_history,
             ensures=[("a-refused-identifier-leaves-nothing-behind", "result == []")], cases=cases_secid_history, native_only=True, shards=4,
             notes="sequences of refused identifiers (foreign character at every position, vowel, unknown prefix, wrong length) and well-formed ones through all six functions; every well-formed one is checked against the published algorithm",
             props=["C20"]))
