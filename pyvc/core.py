"""pyvc core: a mixed concrete/symbolic interpreter over the real AST of the
functions under contract, with forking by re-execution (decision trail),
expression-level merging, exceptions as outcomes, and SMT discharge.

What is dropped from the interpreted source (stated in DESIGN.md 2.1):
docstrings, annotations, calls on objects named `logger`.
Everything else is interpreted or raises Unsupported (obligation ungenerated).
"""
import ast, builtins, functools, inspect, os, sys, time, types, importlib
import z3
from .values import *

MAX_PATHS = 4000


class Raised(Exception):
    def __init__(self, exc):
        self.exc = exc


class ReturnEx(Exception):
    def __init__(self, v):
        self.v = v


class BreakEx(Exception):
    pass


class ContinueEx(Exception):
    pass


class Infeasible(Exception):
    pass


class Unsupported(Exception):
    """construct outside the interpreted subset, or a model used outside its domain"""


class Closure:
    """function value interpreted from an AST node"""

    def __init__(self, node, env, module, qualname, defaults=None, kwdefaults=None, real=None):
        self.node = node; self.env = env; self.module = module; self.qualname = qualname
        self.defaults = defaults or []; self.kwdefaults = kwdefaults or {}
        self.real = real
        self.__name__ = node.name if hasattr(node, "name") else "<lambda>"

    def __repr__(self):
        return f"<Closure {self.qualname}>"


class BoundMethod:
    def __init__(self, selfv, func):
        self.selfv = selfv; self.func = func


class SymMethod:
    """method of a symbolic value, e.g. SStr.join"""

    def __init__(self, obj, name):
        self.obj = obj; self.name = name


class DispatchMethod:
    """functools.singledispatchmethod bound to an object"""

    def __init__(self, obj, sdm, name):
        self.obj = obj; self.sdm = sdm; self.name = name


class FieldsDict(Abstract):
    """obj.__dict__ of an SObj"""

    def __init__(self, obj):
        self.obj = obj

    def p_getitem(self, it, key):
        key = it.concrete_key(key)
        if key not in self.obj.fields:
            raise Raised(ExcVal(KeyError, (key,)))
        return self.obj.fields[key]

    def p_setitem(self, it, key, value):
        key = it.concrete_key(key)
        it.write_field(self.obj, key, value)

    def p_contains(self, it, item):
        return it.concrete_key(item) in self.obj.fields

    def p_getattr(self, it, name):
        if name == "setdefault":
            def setdefault(k, default=None):
                k = it.concrete_key(k)
                if k not in self.obj.fields:
                    it.write_field(self.obj, k, default)
                return self.obj.fields[k]
            return setdefault
        if name == "get":
            return lambda k, default=None: self.obj.fields.get(it.concrete_key(k), default)
        raise Unsupported(f"__dict__.{name}")


class Path:
    def __init__(self, pc, kind, value, st):
        self.pc = pc; self.kind = kind; self.value = value; self.st = st

    @property
    def returned(self):
        return self.kind == "ret"

    @property
    def raised(self):
        return self.kind == "raise"


class PathState:
    def __init__(self, trail):
        self.trail = list(trail); self.pos = 0; self.pc = []
        self.tmp = []             # temporary guards (merged arms / guarded comprehension elements)
        self.newwork = []
        self.writes = []          # (obj, field)
        self.ghost = {"warnings": [], "registry": [], "calls": [], "files": {}}
        self.havoc = []
        self.callsite_obligations = []   # (name, holds: bool|None, detail)
        self.fresh_counter = 0


class SourceIndex:
    """locates the AST of real function objects from the files on disk (re-read every run)"""

    def __init__(self):
        self.files = {}     # filename -> (tree, {lineno: node}, src)

    def load(self, filename):
        if filename not in self.files:
            src = open(filename).read()
            tree = ast.parse(src, filename)
            bylino = {}
            for n in ast.walk(tree):
                if isinstance(n, (ast.FunctionDef, ast.Lambda, ast.AsyncFunctionDef)):
                    bylino.setdefault(n.lineno, n)
                    for d in getattr(n, "decorator_list", []):
                        bylino.setdefault(d.lineno, n)
            self.files[filename] = (tree, bylino, src)
        return self.files[filename]

    def node_for(self, fn):
        code = getattr(fn, "__code__", None)
        if code is None:
            return None
        try:
            tree, bylino, src = self.load(code.co_filename)
        except (OSError, SyntaxError):
            return None
        n = bylino.get(code.co_firstlineno)
        if n is not None and getattr(n, "name", "<lambda>") == (fn.__name__ if fn.__name__ != "<lambda>" else "<lambda>"):
            return n
        # fall back: search by name near the line
        for cand in ast.walk(tree):
            if isinstance(cand, ast.FunctionDef) and cand.name == fn.__name__ and abs(cand.lineno - code.co_firstlineno) <= len(cand.decorator_list) + 1:
                return cand
        return None

    def find_qual(self, filename, qual):
        """find a def by dotted path inside a file: Class.method.nested"""
        tree, _, src = self.load(filename)
        node = tree
        for part in qual.split("."):
            nxt = None
            for n in ast.walk(node):
                if n is node:
                    continue
                if isinstance(n, (ast.FunctionDef, ast.ClassDef)) and n.name == part:
                    nxt = n
                    break
            if nxt is None:
                return None
            node = nxt
        return node

    def source_of(self, filename, node):
        _, _, src = self.load(filename)
        return ast.get_source_segment(src, node) or ""


INTERPRET_PREFIXES = ("ofxtools", "contracts.spec", "spec")


class Interp:
    def __init__(self, timeout_ms=10000):
        self.index = SourceIndex()
        self.interpret_also = set()      # pure-Python library functions a harness asks to have interpreted from their source
        self.solver = z3.Solver()
        self.timeout_ms = timeout_ms
        self.domains = {}          # z3 Int var -> finite list of values (registered by argument descriptors)
        self.domain_ids = {}       # the same, keyed by z3 ast id
        self.solver.set("timeout", timeout_ms)
        self.nq = 0
        self.solver_time = 0.0
        self.axioms = []
        self.models = {}          # real callable -> model(it, args, kwargs)
        self.methods = {}         # (pytype, name) -> model(it, obj, args, kwargs)
        self.contracts = {}       # real function -> apply(it, args, kwargs)
        self.dispatch_hooks = []  # [(it, DispatchMethod, args, kwargs) -> value | NotImplemented]: abstract callees for singledispatch methods
        self.native_ok = set()    # repo callables executed natively even though they are repo code (class-level computations)
        self.current_target = None
        self.st = None
        self.lits = {}            # str -> z3 const of sort V
        self.counter = 0
        self.call_depth = 0
        from . import models as _m
        _m.install(self)

    # ------------------------------------------------------------------ solver
    def add_axiom(self, ax):
        self.axioms.append(ax)
        self.solver.add(ax)

    def fresh(self, prefix, sort=None):
        self.counter += 1
        name = f"{prefix}!{self.counter}"
        if sort is None or sort == "int":
            return z3.Int(name)
        if sort == "bool":
            return z3.Bool(name)
        if sort == "V":
            return z3.Const(name, V)
        return z3.Const(name, sort)

    def embed(self, value):
        """z3 constant (sort V) standing for a concrete hashable value (equal values share the constant)"""
        if isinstance(value, str):
            return self.lit(value)
        try:
            key = ("obj", type(value).__name__, value)
            hash(key)
        except TypeError:
            key = ("obj", type(value).__name__, repr(value))
        if key not in self.lits:
            c = z3.Const(f"val_{len(self.lits)}_{type(value).__name__}", V)
            for o, oc in self.lits.items():
                self.add_axiom(c != oc)
            self.lits[key] = c
        return self.lits[key]

    def lit(self, s):
        """z3 constant (sort V) standing for the concrete text s"""
        if s not in self.lits:
            c = z3.Const(f"lit_{len(self.lits)}_{''.join(ch if ch.isalnum() else '_' for ch in s[:12])}", V)
            for o, oc in self.lits.items():
                self.add_axiom(c != oc)
            self.add_axiom(tlen(c) == len(s))
            self.lits[s] = c
        return self.lits[s]

    def check(self, extra=()):
        t = time.time()
        self.nq += 1
        self.solver.push()
        for c in self.st.pc:
            if c is not True:
                self.solver.add(c)
        for c in self.st.tmp:
            if c is not True:
                self.solver.add(c)
        for c in extra:
            if c is not True:
                self.solver.add(c)
        r = self.solver.check()
        self.solver.pop()
        self.solver_time += time.time() - t
        return r

    def sat(self, cond):
        if cond is True:
            return True
        if cond is False:
            return False
        return self.check([cond]) != z3.unsat

    def valid(self, cond):
        """pc => cond ?"""
        if cond is True:
            return True
        if cond is False:
            return self.check() == z3.unsat
        return self.check([z3.Not(cond)]) == z3.unsat

    def assume(self, cond):
        if cond is True:
            return
        if cond is False:
            if self.st.tmp:
                self.st.pc.append(z3.Not(zand(*self.st.tmp)))
                return
            raise Infeasible()
        if self.st.tmp:
            cond = z3.Implies(zand(*self.st.tmp), cond)
        self.st.pc.append(cond)

    def under(self, guard, thunk):
        """evaluate thunk() with guard temporarily assumed; forks inside are recorded as implications.
        returns (ok, value): ok False when the guard is infeasible"""
        if guard is True:
            return True, thunk()
        if guard is False:
            return False, None
        self.st.tmp.append(guard)
        try:
            # optimistic: evaluating under an infeasible guard is harmless (the value is never selected);
            # feasibility is only decided when the evaluation raises
            try:
                return True, thunk()
            except (Raised, Unsupported, Infeasible):
                if self.check() == z3.unsat:
                    return False, None
                raise
        finally:
            self.st.tmp.pop()

    def branch(self, cond):
        """decide a symbolic condition; forks by queuing the alternative"""
        if isinstance(cond, SBool):
            cond = cond.e
        if isinstance(cond, bool):
            return cond
        cond = z3.simplify(cond)
        if z3.is_true(cond):
            return True
        if z3.is_false(cond):
            return False
        st = self.st
        if st.pos < len(st.trail):
            d = st.trail[st.pos]
        else:
            t = self.sat(cond)
            if not t:
                d = False
            else:
                f = self.sat(z3.Not(cond))
                if f:
                    st.newwork.append(st.trail[:st.pos] + [False])
                d = True
            st.trail = st.trail[:st.pos] + [d]
        st.pos += 1
        fact = cond if d else z3.Not(cond)
        if st.tmp:
            fact = z3.Implies(zand(*st.tmp), fact)
        st.pc.append(fact)
        return d

    # --------------------------------------------------------------- exploring
    def explore(self, thunk, assumptions=(), max_paths=MAX_PATHS):
        work = [[]]
        paths = []
        while work:
            trail = work.pop()
            self.st = PathState(trail)
            self.call_depth = 0
            try:
                for a in assumptions:
                    self.assume(a)
                if self.check() == z3.unsat:
                    raise Infeasible()
                v = thunk()
                paths.append(Path(list(self.st.pc), "ret", v, self.st))
            except Raised as r:
                paths.append(Path(list(self.st.pc), "raise", r.exc, self.st))
            except Infeasible:
                pass
            except (Unsupported, NotImplementedError) as u:
                paths.append(Path(list(self.st.pc), "unsupported", str(u) or type(u).__name__, self.st))
            except (AttributeError, TypeError, KeyError, IndexError, ValueError, AssertionError, RecursionError, MemoryError) as ex:
                # the interpreter or a model met a construct it does not handle (changed code under contract can do
                # that at any time): that path is not generated - undecided, never a crash of the whole check
                import traceback as _tb
                where = _tb.extract_tb(ex.__traceback__)[-1]
                paths.append(Path(list(self.st.pc), "unsupported", f"engine limit: {type(ex).__name__}: {ex} (at {where.filename.rsplit('/', 1)[-1]}:{where.lineno})", self.st))
            work.extend(self.st.newwork)
            if len(paths) > max_paths:
                paths.append(Path([], "unsupported", "path explosion", self.st))
                break
        return paths

    def prove(self, pc, claim, timeout_ms=None):
        """returns ('discharged'|'discharged-tab'|'discharged-cvc5'|'failed'|'unknown', model|None, seconds)"""
        if isinstance(claim, SBool):
            claim = claim.e
        t = time.time()
        if claim is True:
            return "discharged", None, 0.0
        neg = z3.BoolVal(True) if claim is False else z3.Not(claim)
        pcs = [c for c in pc if c is not True]
        r, m = self._solve(pcs + [neg], timeout_ms or (800 if self.domains else 10000))
        if r == z3.unknown and self.domains:
            # finite-domain tabulation (equivalence-preserving, domain membership re-proved here)
            from .tabulate import refine_domains, tabulate_forms
            doms = {}
            for v, d in refine_domains(self.domains, pcs).items():
                cond = z3.Or(*[v == k for k in d]) if d else z3.BoolVal(False)
                rr, _ = self._solve(pcs + [z3.Not(cond)], 2000)
                if rr == z3.unsat:
                    doms[v] = d
            if doms:
                forms, _ = tabulate_forms(doms, pcs + [neg])
                r, m = self._solve(forms, 15000)
                if r == z3.unsat:
                    dt = time.time() - t
                    self.solver_time += dt
                    return "discharged-tab", None, dt
                if r == z3.unknown:
                    s2 = z3.Solver()
                    for a in self.axioms:
                        s2.add(a)
                    s2.add(*forms)
                    from .smt import cvc5_check
                    if cvc5_check(s2.to_smt2(), 30) == "unsat":
                        return "discharged-cvc5", None, time.time() - t
        elif r == z3.unknown:
            s2 = z3.Solver()
            for a in self.axioms:
                s2.add(a)
            s2.add(*(pcs + [neg]))
            from .smt import cvc5_check
            if cvc5_check(s2.to_smt2(), 30) == "unsat":
                return "discharged-cvc5", None, time.time() - t
        dt = time.time() - t
        self.solver_time += dt
        if r == z3.unsat:
            return "discharged", None, dt
        if r == z3.sat:
            return "failed", m, dt
        return "unknown", None, dt

    def _solve(self, forms, timeout_ms):
        s = self.solver
        s.push()
        s.set("timeout", timeout_ms)
        for c in forms:
            s.add(c)
        r = s.check()
        m = s.model() if r == z3.sat else None
        s.pop()
        s.set("timeout", self.timeout_ms)
        return r, m

    # ----------------------------------------------------------------- helpers
    def concrete_key(self, k):
        if isinstance(k, SStr) and k.concrete():
            return k.pystr()
        if is_sym(k):
            raise Unsupported(f"symbolic key {k!r}")
        return k

    def write_field(self, obj, name, value):
        obj.fields[name] = value
        self.st.writes.append((obj, name))

    def pytype_of(self, v):
        if isinstance(v, SIte):
            v = self.force(v)
        if isinstance(v, Sym):
            return v.pytype
        if isinstance(v, Closure):
            return types.FunctionType
        return type(v)

    def force(self, v):
        while isinstance(v, SIte):
            v = v.a if self.branch(v.c) else v.b
        return v

    def ite(self, c, a, b):
        """merge two values under condition c (z3 Bool)"""
        if isinstance(c, bool):
            return a if c else b
        c = z3.simplify(c)
        if z3.is_true(c):
            return a
        if z3.is_false(c):
            return b
        if a is b:
            return a
        if isinstance(a, (SInt, int)) and isinstance(b, (SInt, int)) and not isinstance(a, bool) and not isinstance(b, bool):
            return SInt(z3.If(c, zint(a), zint(b)))
        if isinstance(a, (SBool, bool)) and isinstance(b, (SBool, bool)):
            return SBool(z3.If(c, zbool(a.e if isinstance(a, SBool) else a), zbool(b.e if isinstance(b, SBool) else b)))
        if isinstance(a, (SStr, str)) and isinstance(b, (SStr, str)):
            a = SStr.lit(a) if isinstance(a, str) else a
            b = SStr.lit(b) if isinstance(b, str) else b
            return SStr([(zand(c, g), x) for g, x in a.items] + [(zand(z3.Not(c), g), x) for g, x in b.items])
        if isinstance(a, SVal) and isinstance(b, SVal) and a.pytype is b.pytype:
            return SVal(a.pytype, z3.If(c, a.e, b.e))
        return SIte(c, a, b)

    def truth(self, v):
        """-> bool or z3 Bool"""
        if isinstance(v, SBool):
            return v.e
        if isinstance(v, z3.BoolRef):
            return v
        if isinstance(v, SInt):
            return v.e != 0
        if isinstance(v, SStr):
            if v.fixed():
                return len(v.items) > 0
            return zor(*[g for g, _ in v.items])
        if isinstance(v, SVal):
            if v.pytype is str:
                return tlen(v.e) != 0
            if v.pytype is bytes:
                return tlen(v.e) != 0
            if v.pytype is object:
                # value of unknown type: its truthiness is an uninterpreted predicate
                return z3.Function("truthy", V, z3.BoolSort())(v.e)
            raise Unsupported(f"truth of opaque {v.pytype.__name__}")
        if isinstance(v, SIte):
            ta, tb = self.truth(v.a), self.truth(v.b)
            return z3.If(v.c, zbool(ta), zbool(tb))
        if isinstance(v, GList):
            return zor(*[g for g, _ in v.items])
        if isinstance(v, SObj):
            if "__len__" in v.fields:
                return self.truth(v.fields["__len__"])
            if "__items__" in v.fields and issubclass(v.cls, list):
                return len(v.fields["__items__"]) > 0
            if issubclass(v.cls, (list, dict, tuple, str)):
                raise Unsupported("truth of symbolic container instance without __len__ ghost")
            return True
        if isinstance(v, Abstract):
            return v.p_truth(self)
        if isinstance(v, (Closure, BoundMethod, SymMethod, DispatchMethod)):
            return True
        if isinstance(v, ExcVal):
            return True
        return bool(v)

    def tobool(self, v):
        t = self.truth(v)
        return t if isinstance(t, bool) else SBool(t)

    # ------------------------------------------------------------------- calls
    def module_of(self, fn):
        return sys.modules.get(getattr(fn, "__module__", None))

    def is_interpretable(self, fn):
        mod = getattr(fn, "__module__", None) or ""
        return isinstance(fn, types.FunctionType) and (mod.startswith(INTERPRET_PREFIXES) or fn in self.interpret_also)

    def call(self, f, args, kwargs=None):
        kwargs = kwargs or {}
        if isinstance(f, SIte):
            f = self.force(f)
        if isinstance(f, Closure):
            return self.call_closure(f, args, kwargs)
        if isinstance(f, BoundMethod):
            return self.call(f.func, [f.selfv] + list(args), kwargs)
        if isinstance(f, SymMethod):
            return self.call_symmethod(f, args, kwargs)
        if isinstance(f, DispatchMethod):
            return self.call_dispatch(f, args, kwargs)
        if isinstance(f, Abstract):
            return f.p_call(self, args, kwargs)
        if isinstance(f, types.MethodType) and f.__name__ == "_asdict" and isinstance(f.__self__, tuple):
            return f()            # namedtuple._asdict: structural, never inspects the field values
        if isinstance(f, types.MethodType):
            fn = f.__func__
            if fn in self.contracts or fn in self.models or self.is_interpretable(fn) or not self.all_concrete(args, kwargs):
                if not (fn in self.native_ok):
                    return self.call(fn, [f.__self__] + list(args), kwargs)
        if f in self.contracts and f is not self.current_target:
            return self.contracts[f](self, list(args), kwargs)
        if f in self.models:
            return self.models[f](self, list(args), kwargs)
        pm = getattr(f, "_pyvc_model", None)
        if pm is not None and (getattr(f, "_pyvc_always", False) or not self.all_concrete(args, kwargs)):
            return pm(self, list(args), kwargs)
        if isinstance(f, types.FunctionType) and hasattr(f, "dispatch") and hasattr(f, "registry") and args:
            a0 = self.force(args[0])
            impl = f.dispatch(self.pytype_of(a0))
            return self.call(impl, [a0] + list(args[1:]), kwargs)
        if isinstance(f, functools.partial):
            return self.call(f.func, list(f.args) + list(args), {**f.keywords, **kwargs})
        if self.is_interpretable(f) and f not in self.native_ok:
            node = self.index.node_for(f)
            if node is None:
                raise Unsupported(f"no source for {f.__qualname__}")
            clo = Closure(node, None, self.module_of(f), f.__qualname__, real=f)
            return self.call_closure(clo, args, kwargs)
        if isinstance(f, types.FunctionType):
            fm = getattr(f, "__module__", "") or ""
            if (fm.startswith("pyvc") or fm.startswith("contracts")) and not fm.startswith("contracts.spec"):
                return self.native(f, args, kwargs)      # a model closure handed out by an abstract object
        if isinstance(f, type):
            return self.instantiate(f, args, kwargs)
        if isinstance(f, types.BuiltinMethodType) and not isinstance(f.__self__, types.ModuleType) and f.__self__ is not None \
                and not isinstance(f.__self__, type):
            if not self.all_concrete(args, kwargs) or not deep_concrete(f.__self__):
                return self.call_symmethod(SymMethod(f.__self__, f.__name__), args, kwargs)
        if self.all_concrete(args, kwargs):
            return self.native(f, args, kwargs)
        raise Unsupported(f"call of {getattr(f, '__qualname__', f)!r} with symbolic arguments (no model)")

    def all_concrete(self, args, kwargs):
        return all(deep_concrete(a) for a in args) and all(deep_concrete(a) for a in kwargs.values())

    def native(self, f, args, kwargs):
        try:
            return f(*args, **kwargs)
        except (Raised, Unsupported, Infeasible, ReturnEx, BreakEx, ContinueEx):
            raise                # interpreter control flow coming out of a model closure
        except Exception as e:   # real exception of a concrete call becomes an outcome
            raise Raised(ExcVal(type(e), e.args))

    def instantiate(self, cls, args, kwargs):
        if cls in self.models:
            return self.models[cls](self, list(args), kwargs)
        if isinstance(cls, type) and issubclass(cls, BaseException):
            return ExcVal(cls, args)
        if isinstance(cls, type) and issubclass(cls, tuple) and hasattr(cls, "_fields"):
            return self.native(cls, args, kwargs)      # NamedTuple: structural, never inspects the field values
        mod = getattr(cls, "__module__", "") or ""
        if mod.startswith(INTERPRET_PREFIXES) and not (cls in self.native_ok):
            # interpret __init__ on a fresh heap object
            obj = SObj(cls, {}, fresh=True)
            if issubclass(cls, list):
                obj.fields["__items__"] = []
            init = inspect.getattr_static(cls, "__init__", None)
            if isinstance(init, types.FunctionType):
                self.call(init, [obj] + list(args), kwargs)
            elif init is list.__init__ or init is object.__init__ or init is None:
                pass
            else:
                raise Unsupported(f"__init__ of {cls.__name__}")
            return obj
        if self.all_concrete(args, kwargs):
            return self.native(cls, args, kwargs)
        raise Unsupported(f"instantiate {cls.__name__} with symbolic arguments (no model)")

    def call_dispatch(self, dm, args, kwargs):
        if not args:
            raise Unsupported("dispatch without args")
        for hook in self.dispatch_hooks:
            r = hook(self, dm, args, kwargs)
            if r is not NotImplemented:
                return r
        a0 = self.force(args[0])
        args = [a0] + list(args[1:])
        t = self.pytype_of(a0)
        # registrations made during this symbolic execution (ghost dispatch registry) take precedence
        reg = self.st.ghost.get("registry_map", {})
        impl = None
        for base in t.__mro__:
            if (id(dm.sdm), base) in reg:
                impl = reg[(id(dm.sdm), base)]
                break
        if impl is not None:
            return self.call(impl, args, kwargs)       # a bound method: bound to the *registering* instance
        impl = dm.sdm.dispatcher.dispatch(t)
        if isinstance(impl, types.MethodType):
            # a bound method left in the real registry by an earlier native call in this process
            return self.call(impl.__func__, [dm.obj] + args, kwargs)
        return self.call(impl, [dm.obj] + args, kwargs)

    def bind_params(self, node, defaults, kwdefaults, args, kwargs, env):
        a = node.args
        params = [p.arg for p in a.posonlyargs + a.args]
        args = list(args)
        akw = kwargs.pop("__akw__", None)
        if akw is not None:
            clash = [p for p in params + [x.arg for x in a.kwonlyargs] if p in akw.keys]
            if clash or not a.kwarg or kwargs:
                raise Unsupported("abstract **kwargs passed to a function with matching named parameters")
        npos = len(params)
        for i, p in enumerate(params):
            if i < len(args):
                env[p] = args[i]
            elif p in kwargs:
                env[p] = kwargs.pop(p)
            else:
                di = i - (npos - len(defaults))
                if di < 0 or di >= len(defaults):
                    raise Raised(ExcVal(TypeError, (f"missing argument {p}",)))
                env[p] = defaults[di]
        extra = args[npos:]
        if a.vararg:
            env[a.vararg.arg] = tuple(extra)
        elif extra:
            raise Raised(ExcVal(TypeError, ("too many positional arguments",)))
        for p in a.kwonlyargs:
            if p.arg in kwargs:
                env[p.arg] = kwargs.pop(p.arg)
            elif p.arg in kwdefaults:
                env[p.arg] = kwdefaults[p.arg]
            else:
                raise Raised(ExcVal(TypeError, (f"missing keyword-only argument {p.arg}",)))
        if a.kwarg and akw is not None:
            env[a.kwarg.arg] = akw
        elif a.kwarg:
            env[a.kwarg.arg] = dict(kwargs)
        elif kwargs:
            raise Raised(ExcVal(TypeError, (f"unexpected keyword arguments {list(kwargs)}",)))

    def call_closure(self, clo, args, kwargs):
        node = clo.node
        kwargs = dict(kwargs)
        env = Env(clo.env, clo.module)
        if clo.real is not None:
            defaults = list(clo.real.__defaults__ or ())
            kwdefaults = dict(clo.real.__kwdefaults__ or {})
            # closure cells of real nested functions
            if clo.real.__closure__:
                for name, cell in zip(clo.real.__code__.co_freevars, clo.real.__closure__):
                    try:
                        env.vars[name] = cell.cell_contents
                    except ValueError:
                        pass
        else:
            defaults, kwdefaults = clo.defaults, clo.kwdefaults
        if clo.real is not None and "." in clo.real.__qualname__:
            # defining class, for zero-argument super()
            o = clo.module
            try:
                for part in clo.real.__qualname__.split(".")[:-1]:
                    o = getattr(o, part)
                if isinstance(o, type):
                    env.vars["__defclass__"] = o
            except AttributeError:
                pass
        self.bind_params(node, defaults, kwdefaults, args, kwargs, env.vars)
        self.call_depth += 1
        if self.call_depth > 60:
            raise Unsupported("call depth")
        try:
            if isinstance(node, ast.Lambda):
                return self.ev(node.body, env)
            for st in node.body:
                self.stmt(st, env)
            return None
        except ReturnEx as r:
            return r.v
        finally:
            self.call_depth -= 1

    def call_symmethod(self, sm, args, kwargs):
        obj = self.force(sm.obj)
        if isinstance(obj, SObj) and "__items__" in obj.fields and sm.name in ("append", "extend", "insert", "__len__"):
            items = obj.fields["__items__"]
            if sm.name == "append":
                items.append(args[0]); self.st.writes.append((obj, "__items__")); return None
            if sm.name == "extend":
                items.extend(self.iterate(args[0])); self.st.writes.append((obj, "__items__")); return None
            if sm.name == "insert":
                items.insert(self.concrete_key(args[0]), args[1]); self.st.writes.append((obj, "__items__")); return None
            return len(items)
        if type(obj) is list and sm.name == "extend" and len(args) == 1:
            # a concrete (function-owned) list extended by the members of a heap sequence
            obj.extend(self.iterate(args[0]))
            return None
        t = self.pytype_of(obj)
        for base in t.__mro__:
            m = self.methods.get((base, sm.name))
            if m:
                return m(self, obj, list(args), kwargs)
        if isinstance(obj, (set, frozenset)) and sm.name in ("difference", "intersection", "union", "issubset", "issuperset", "isdisjoint", "symmetric_difference") and not kwargs:
            # set algebra looks at the ELEMENTS of its arguments only (for a mapping: its keys); concrete elements decide it,
            # whatever the mapping's values are
            others = []
            for a in args:
                a = self.force(a) if isinstance(a, SIte) else a
                if isinstance(a, dict):
                    elems = list(a.keys())
                elif isinstance(a, (list, tuple, set, frozenset)):
                    elems = list(a)
                else:
                    elems = None
                if elems is None or not all(deep_concrete(x) and not isinstance(x, (Sym, Abstract, SObj)) for x in elems):
                    raise Unsupported(f"method {t.__name__}.{sm.name} on symbolic value")
                others.append(set(elems))
            return getattr(obj, sm.name)(*others)
        raise Unsupported(f"method {t.__name__}.{sm.name} on symbolic value")

    # --------------------------------------------------------------- attribute
    def getattr(self, o, name):
        if isinstance(o, SIte):
            o = self.force(o)
        if isinstance(o, SObj):
            return self.getattr_obj(o, name)
        if isinstance(o, Abstract):
            return o.p_getattr(self, name)
        if isinstance(o, ExcVal):
            if name == "args":
                return o.args
            if name == "__class__":
                return o.cls
            raise Unsupported(f"exception attribute {name}")
        if isinstance(o, DispatchMethod):
            if name == "register":
                def register(cls, func=None, **kw):
                    func = kw.get("method", func)
                    self.st.ghost["registry"].append((o.name, getattr(cls, "__name__", str(cls)), getattr(getattr(func, "func", None), "__name__", None)))
                    self.st.ghost.setdefault("registry_map", {})[(id(o.sdm), cls)] = func
                    return func
                return register
            raise Unsupported(f"singledispatchmethod attribute {name}")
        if isinstance(o, Closure):
            if name == "__name__":
                return o.__name__
            raise Unsupported(f"function attribute {name}")
        if isinstance(o, Sym):
            if name == "__class__":
                return o.pytype
            return SymMethod(o, name)
        # concrete object
        if not isinstance(o, type):
            raw = inspect.getattr_static(type(o), name, None)
            if isinstance(raw, functools.singledispatchmethod):
                return DispatchMethod(o, raw, name)
        try:
            return getattr(o, name)
        except AttributeError as e:
            raise Raised(ExcVal(AttributeError, e.args))
        except KeyError as e:
            raise Raised(ExcVal(KeyError, e.args))

    def getattr_obj(self, o, name):
        if name == "__class__":
            return o.cls
        if name == "__dict__":
            return FieldsDict(o)
        sentinel = object()
        raw = inspect.getattr_static(o.cls, name, sentinel)
        if raw is not sentinel:
            if isinstance(raw, property) and type(raw) is property:
                return self.call(raw.fget, [o])
            tr = type(raw)
            if hasattr(tr, "__set__") and not isinstance(raw, property):
                getter = inspect.getattr_static(tr, "__get__", None)
                if isinstance(getter, types.FunctionType):
                    return self.call(getter, [raw, o, o.cls])
            if isinstance(raw, property):     # classproperty and friends
                fget = raw.fget
                fn = getattr(fget, "__func__", None)
                if isinstance(fget, classmethod) and isinstance(fn, types.FunctionType) and fn.__module__ != "ofxtools.models.base" \
                        and (fn in self.models or fn in self.contracts):
                    return self.call(fn, [o.cls], {})
                return getattr(o.cls, name)      # class-level computation, executed natively
        if name in o.fields:
            return o.fields[name]
        if raw is not sentinel:
            if isinstance(raw, types.FunctionType):
                return BoundMethod(o, raw)
            if isinstance(raw, classmethod):
                return BoundMethod(o.cls, raw.__func__)
            if isinstance(raw, staticmethod):
                return raw.__func__
            if isinstance(raw, functools.singledispatchmethod):
                return DispatchMethod(o, raw, name)
            if isinstance(raw, (types.MethodDescriptorType, types.WrapperDescriptorType, types.BuiltinFunctionType)):
                return SymMethod(o, name)
            return raw
        ga = inspect.getattr_static(o.cls, "__getattr__", None)
        if isinstance(ga, types.FunctionType):
            return self.call(ga, [o, name])
        raise Raised(ExcVal(AttributeError, (f"'{o.cls.__name__}' object has no attribute '{name}'",)))

    def setattr(self, o, name, value):
        if isinstance(o, SIte):
            o = self.force(o)
        if isinstance(o, SObj):
            raw = inspect.getattr_static(o.cls, name, None)
            if raw is not None:
                tr = type(raw)
                setter = inspect.getattr_static(tr, "__set__", None)
                if isinstance(setter, types.FunctionType):
                    self.call(setter, [raw, o, value])
                    return
                if isinstance(raw, property):
                    if raw.fset is None:
                        raise Raised(ExcVal(AttributeError, ("can't set attribute",)))
                    self.call(raw.fset, [o, value])
                    return
            self.write_field(o, name, value)
            return
        if isinstance(o, Abstract):
            return o.p_setattr(self, name, value)
        if o is None or isinstance(o, (int, str, bytes, float, tuple, bool)):
            # Python: objects of these types take no attributes
            raise Raised(ExcVal(AttributeError, (f"'{type(o).__name__}' object has no attribute '{name}'",)))
        raise Unsupported(f"setattr on {type(o).__name__}")

    # -------------------------------------------------------------- statements
    def stmt(self, st, env):
        m = getattr(self, "st_" + type(st).__name__, None)
        if m is None:
            raise Unsupported(f"statement {type(st).__name__}")
        return m(st, env)

    def st_Expr(self, st, env):
        if isinstance(st.value, ast.Constant):
            return
        if self.is_logger_call(st.value):
            return
        self.ev(st.value, env)

    def is_logger_call(self, e):
        return (isinstance(e, ast.Call) and isinstance(e.func, ast.Attribute)
                and isinstance(e.func.value, ast.Name) and e.func.value.id == "logger")

    def st_Pass(self, st, env):
        pass

    def st_Assign(self, st, env):
        v = self.ev(st.value, env)
        for t in st.targets:
            self.assign(t, v, env)

    def st_AnnAssign(self, st, env):
        if st.value is not None:
            self.assign(st.target, self.ev(st.value, env), env)

    def st_AugAssign(self, st, env):
        load = ast.copy_location(_as_load(st.target), st.target)
        cur = self.ev(load, env)
        v = self.binop(type(st.op).__name__, cur, self.ev(st.value, env))
        self.assign(st.target, v, env)

    def st_Return(self, st, env):
        raise ReturnEx(self.ev(st.value, env) if st.value is not None else None)

    def st_If(self, st, env):
        body = st.body if self.branch(self.truth(self.ev(st.test, env))) else st.orelse
        for s in body:
            self.stmt(s, env)

    def st_Assert(self, st, env):
        if not self.branch(self.truth(self.ev(st.test, env))):
            raise Raised(ExcVal(AssertionError, ()))

    def st_Raise(self, st, env):
        if st.exc is None:
            cur = env.lookup_opt("__current_exc__")
            if cur is None:
                raise Unsupported("bare raise outside handler")
            raise Raised(cur)
        e = self.ev(st.exc, env)
        if isinstance(e, type) and issubclass(e, BaseException):
            e = ExcVal(e, ())
        if isinstance(e, BaseException):
            e = ExcVal(type(e), e.args)
        if not isinstance(e, ExcVal):
            raise Unsupported(f"raise of {e!r}")
        raise Raised(e)

    def st_FunctionDef(self, st, env):
        defaults = [self.ev(d, env) for d in st.args.defaults]
        kwdefaults = {a.arg: self.ev(d, env) for a, d in zip(st.args.kwonlyargs, st.args.kw_defaults) if d is not None}
        clo = Closure(st, env, env.module, st.name, defaults, kwdefaults)
        if st.decorator_list:
            raise Unsupported("decorated nested function")
        env.vars[st.name] = clo

    def st_For(self, st, env):
        it = self.ev(st.iter, env)
        broke = False
        for x in self.iterate(it):
            self.assign(st.target, x, env)
            try:
                for s in st.body:
                    self.stmt(s, env)
            except BreakEx:
                broke = True
                break
            except ContinueEx:
                continue
        if not broke:
            for s in st.orelse:
                self.stmt(s, env)

    def st_While(self, st, env):
        n = 0
        while self.branch(self.truth(self.ev(st.test, env))):
            n += 1
            if n > 200:
                raise Unsupported("while loop bound")
            try:
                for s in st.body:
                    self.stmt(s, env)
            except BreakEx:
                break
            except ContinueEx:
                continue

    def st_Break(self, st, env):
        raise BreakEx()

    def st_Continue(self, st, env):
        raise ContinueEx()

    def st_Try(self, st, env):
        try:
            try:
                for s in st.body:
                    self.stmt(s, env)
            except Raised as r:
                handled = False
                for h in st.handlers:
                    if self.exc_matches(r.exc, h.type, env):
                        handled = True
                        if h.name:
                            env.vars[h.name] = r.exc
                        prev = env.vars.get("__current_exc__")
                        env.vars["__current_exc__"] = r.exc
                        try:
                            for s in h.body:
                                self.stmt(s, env)
                        finally:
                            env.vars["__current_exc__"] = prev
                        break
                if not handled:
                    raise
            else:
                for s in st.orelse:
                    self.stmt(s, env)
        finally:
            # note: runs also for ReturnEx / Raised propagating, like Python
            if st.finalbody:
                for s in st.finalbody:
                    self.stmt(s, env)

    def exc_matches(self, exc, typ, env):
        if typ is None:
            return True
        t = self.ev(typ, env)
        if isinstance(t, tuple):
            return any(issubclass(exc.cls, x) for x in t)
        return issubclass(exc.cls, t)

    def st_With(self, st, env):
        if len(st.items) != 1:
            raise Unsupported("with (multiple items)")
        item = st.items[0]
        cm = self.ev(item.context_expr, env)
        if isinstance(cm, Abstract) and hasattr(cm, "p_enter"):
            v = cm.p_enter(self)
            if item.optional_vars is not None:
                self.assign(item.optional_vars, v, env)
            try:
                for s in st.body:
                    self.stmt(s, env)
            finally:
                cm.p_exit(self)
            return
        raise Unsupported("with on non-abstract context manager")

    def st_Delete(self, st, env):
        raise Unsupported("del")

    def st_Global(self, st, env):
        raise Unsupported("global")

    def st_Nonlocal(self, st, env):
        raise Unsupported("nonlocal")

    def st_Import(self, st, env):
        for a in st.names:
            env.vars[(a.asname or a.name).split(".")[0]] = importlib.import_module(a.name.split(".")[0] if not a.asname else a.name)

    def st_ImportFrom(self, st, env):
        mod = importlib.import_module(st.module)
        for a in st.names:
            env.vars[a.asname or a.name] = getattr(mod, a.name)

    def assign(self, t, v, env):
        if isinstance(t, ast.Name):
            env.vars[t.id] = v
        elif isinstance(t, (ast.Tuple, ast.List)):
            if isinstance(v, SIte):
                v = self.force(v)
            vs = list(self.iterate(v))
            if any(isinstance(x, ast.Starred) for x in t.elts):
                raise Unsupported("starred assignment")
            if len(vs) != len(t.elts):
                raise Raised(ExcVal(ValueError, ("unpack",)))
            for a, b in zip(t.elts, vs):
                self.assign(a, b, env)
        elif isinstance(t, ast.Attribute):
            self.setattr(self.ev(t.value, env), t.attr, v)
        elif isinstance(t, ast.Subscript):
            o = self.ev(t.value, env)
            k = self.ev(t.slice, env)
            self.setitem(o, k, v)
        else:
            raise Unsupported(f"assign target {type(t).__name__}")

    def setitem(self, o, k, v):
        if isinstance(o, SIte):
            o = self.force(o)
        if isinstance(o, Abstract):
            return o.p_setitem(self, k, v)
        if isinstance(o, (dict, list)):
            k = self.concrete_key(k)
            o[k] = v
            return
        raise Unsupported(f"setitem on {type(o).__name__}")

    def iterate(self, it):
        """-> python list of elements; forks on guards of guarded sequences"""
        if isinstance(it, SIte):
            it = self.force(it)
        if isinstance(it, SStr):
            out = []
            for g, c in it.items:
                if g is True or self.branch(g):
                    out.append(SStr([(True, c)]))
            return out
        if isinstance(it, GList):
            return [x for g, x in it.items if g is True or self.branch(g)]
        if isinstance(it, Abstract):
            return it.p_iter(self)
        if isinstance(it, SObj):
            if "__items__" in it.fields:
                return list(self.iterate(it.fields["__items__"]))
            raise Unsupported(f"iteration over symbolic instance of {it.cls.__name__}")
        if isinstance(it, Sym):
            raise Unsupported(f"iteration over {type(it).__name__}")
        if isinstance(it, str):
            return [c for c in it]
        import itertools as _it
        if isinstance(it, (_it.cycle, _it.count, _it.repeat)):
            raise Unsupported(f"iteration over an unbounded / live iterator object ({type(it).__name__})")
        try:
            if hasattr(it, "__len__"):
                return list(it)
            out = list(_it.islice(it, 200001))
            if len(out) > 200000:
                raise Unsupported("iteration over an iterator of more than 200000 elements")
            return out
        except TypeError as e:
            raise Raised(ExcVal(TypeError, e.args))

    def giterate(self, it):
        """guarded iteration without forking: [(guard, element)]"""
        if isinstance(it, SIte):
            it = self.force(it)
        if isinstance(it, SStr):
            return [(g, SStr([(True, c)])) for g, c in it.items]
        if isinstance(it, GList):
            return list(it.items)
        if isinstance(it, Abstract) and hasattr(it, "p_giter"):
            return list(it.p_giter(self))
        return [(True, x) for x in self.iterate(it)]

    # ------------------------------------------------------------- expressions
    def ev(self, e, env):
        m = getattr(self, "ev_" + type(e).__name__, None)
        if m is None:
            raise Unsupported(f"expression {type(e).__name__}")
        return m(e, env)

    def ev_Constant(self, e, env):
        return e.value

    def ev_Name(self, e, env):
        return env.lookup(e.id)

    def ev_Tuple(self, e, env):
        return tuple(self.ev_elts(e.elts, env))

    def ev_List(self, e, env):
        return list(self.ev_elts(e.elts, env))

    def ev_Set(self, e, env):
        vals = self.ev_elts(e.elts, env)
        if all(deep_concrete(v) for v in vals):
            return set(vals)
        raise Unsupported("set display with symbolic elements")

    def ev_elts(self, elts, env):
        out = []
        for x in elts:
            if isinstance(x, ast.Starred):
                out.extend(self.iterate(self.ev(x.value, env)))
            else:
                out.append(self.ev(x, env))
        return out

    def ev_Dict(self, e, env):
        d = {}
        for k, v in zip(e.keys, e.values):
            if k is None:
                d.update(self.ev(v, env))
            else:
                d[self.concrete_key(self.ev(k, env))] = self.ev(v, env)
        return d

    def ev_NamedExpr(self, e, env):
        v = self.ev(e.value, env)
        env.vars[e.target.id] = v
        return v

    def ev_Lambda(self, e, env):
        defaults = [self.ev(d, env) for d in e.args.defaults]
        return Closure(e, env, env.module, "<lambda>", defaults, {})

    def ev_Attribute(self, e, env):
        return self.getattr(self.ev(e.value, env), e.attr)

    def ev_IfExp(self, e, env):
        c = self.truth(self.ev(e.test, env))
        if isinstance(c, bool):
            return self.ev(e.body if c else e.orelse, env)
        c = z3.simplify(c)
        if z3.is_true(c):
            return self.ev(e.body, env)
        if z3.is_false(c):
            return self.ev(e.orelse, env)
        if _constructs(e.body) or _constructs(e.orelse):
            # an arm that builds an object is run like the if/else statement it abbreviates: one path per arm
            # (merging would carry a guarded heap object through everything that follows)
            return self.ev(e.body, env) if self.branch(c) else self.ev(e.orelse, env)
        return self.merge_arms(c, lambda: self.ev(e.body, env), lambda: self.ev(e.orelse, env))

    def merge_arms(self, c, fa, fb):
        """value of `fa() if c else fb()` merged; falls back to forking when an arm raises"""
        try:
            oka, a = self.under(c, fa)
            okb, b = self.under(z3.Not(c), fb)
        except Raised:
            return fa() if self.branch(c) else fb()
        if oka and not okb:
            self.assume(c)
            return a
        if okb and not oka:
            self.assume(z3.Not(c))
            return b
        if not oka and not okb:
            raise Infeasible()
        return self.ite(c, a, b)

    def ev_BoolOp(self, e, env):
        isand = isinstance(e.op, ast.And)
        return self.boolop(isand, e.values, env)

    def boolop(self, isand, values, env):
        v = self.ev(values[0], env)
        if len(values) == 1:
            return v
        t = self.truth(v)
        if isinstance(t, bool):
            if t == isand:
                return self.boolop(isand, values[1:], env)
            return v
        t = z3.simplify(t)
        if z3.is_true(t) or z3.is_false(t):
            if z3.is_true(t) == isand:
                return self.boolop(isand, values[1:], env)
            return v
        rest = lambda: self.boolop(isand, values[1:], env)
        keep = lambda: v
        if isand:
            return self.merge_arms(t, rest, keep)
        return self.merge_arms(t, keep, rest)

    def ev_UnaryOp(self, e, env):
        v = self.ev(e.operand, env)
        if isinstance(e.op, ast.Not):
            t = self.truth(v)
            return (not t) if isinstance(t, bool) else SBool(z3.Not(t))
        if isinstance(v, SIte):
            v = self.force(v)
        if isinstance(e.op, ast.USub):
            if isinstance(v, SInt):
                return SInt(-v.e)
            if isinstance(v, Abstract):
                return v.p_unary(self, "USub")
            return -v
        if isinstance(e.op, ast.UAdd):
            return v
        raise Unsupported("unary op")

    def ev_BinOp(self, e, env):
        return self.binop(type(e.op).__name__, self.ev(e.left, env), self.ev(e.right, env))

    def binop(self, op, a, b):
        from . import models
        return models.binop(self, op, a, b)

    def ev_Compare(self, e, env):
        left = self.ev(e.left, env)
        res = True
        for op, c in zip(e.ops, e.comparators):
            right = self.ev(c, env)
            r = self.compare(type(op).__name__, left, right)
            if len(e.ops) == 1:
                return r
            rt = self.truth(r)
            res = zand(res, rt) if not (isinstance(res, bool) and isinstance(rt, bool)) else (res and rt)
            left = right
        return res if isinstance(res, bool) else SBool(res)

    def compare(self, op, a, b):
        from . import models
        return models.compare(self, op, a, b)

    def ev_Subscript(self, e, env):
        v = self.ev(e.value, env)
        if isinstance(e.slice, ast.Slice):
            lo = self.ev(e.slice.lower, env) if e.slice.lower else None
            hi = self.ev(e.slice.upper, env) if e.slice.upper else None
            step = self.ev(e.slice.step, env) if e.slice.step else None
            k = slice(lo, hi, step)
        else:
            k = self.ev(e.slice, env)
        from . import models
        return models.getitem(self, v, k)

    def ev_Call(self, e, env):
        if self.is_logger_call(e):
            return None
        f = self.ev(e.func, env)
        args = []
        for a in e.args:
            if isinstance(a, ast.Starred):
                args.extend(self.iterate(self.ev(a.value, env)))
            else:
                args.append(self.ev(a, env))
        kwargs = {}
        for k in e.keywords:
            if k.arg is None:
                d = self.ev(k.value, env)
                if isinstance(d, Abstract):
                    d = d.p_asdict(self)
                kwargs.update(d)
            else:
                kwargs[k.arg] = self.ev(k.value, env)
        if f is builtins.locals and not args:
            d = {}
            chain = []
            x = env
            while x is not None:
                chain.append(x); x = x.parent
            for x in reversed(chain[:1]):
                d.update(x.vars)
            return {k: v for k, v in d.items() if not k.startswith("__")}
        # super() without arguments
        if f is builtins.super and not args:
            return SuperProxy(env.lookup("__class__") if env.lookup_opt("__class__") is not None else None, env)
        return self.call(f, args, kwargs)

    def comp_iter(self, gens, env, body, out):
        g = gens[0]
        it = self.ev(g.iter, env)
        for guard, x in self.giterate(it):
            env2 = Env(env, env.module)

            def one():
                self.assign(g.target, x, env2)
                cond = True
                for c in g.ifs:
                    t = self.truth(self.ev(c, env2))
                    cond = zand(cond, t) if not (isinstance(t, bool) and isinstance(cond, bool)) else (cond and t)
                if cond is False:
                    return []
                if len(gens) > 1:
                    sub = []
                    ok, _ = self.under(cond, lambda: self.comp_iter(gens[1:], env2, body, sub))
                    return [(zand(cond, g2), v) for g2, v in sub] if ok else []
                try:
                    ok, v = self.under(cond, lambda: body(env2))
                except Raised:
                    if cond is True or self.branch(cond):
                        raise
                    return []
                return [(cond, v)] if ok else []
            try:
                ok, res = self.under(guard, one)
            except Raised:
                if guard is True or self.branch(guard):
                    res = one()      # re-evaluate outside the guarded context: raises again where it must
                    ok = True
                else:
                    continue
            if ok:
                for c2, v in res:
                    out.append((zand(guard, c2), v))

    def ev_ListComp(self, e, env):
        out = []
        self.comp_iter(e.generators, env, lambda env2: self.ev(e.elt, env2), out)
        if all(g is True for g, _ in out):
            return [v for _, v in out]
        return GList(out)

    def ev_GeneratorExp(self, e, env):
        return self.ev_ListComp(e, env)

    def ev_SetComp(self, e, env):
        v = self.ev_ListComp(e, env)
        if isinstance(v, list) and all(deep_concrete(x) for x in v):
            return set(v)
        raise Unsupported("set comprehension with symbolic elements")

    def ev_DictComp(self, e, env):
        out = []
        self.comp_iter(e.generators, env, lambda env2: (self.concrete_key(self.ev(e.key, env2)), self.ev(e.value, env2)), out)
        if all(g is True for g, _ in out):
            return {k: v for _, (k, v) in out}
        if len(out) > 12:
            raise Unsupported("dict comprehension with more than 12 guarded entries")
        # an entry that is present under a symbolic condition: decide the condition (fork), a dict has concrete keys
        d = {}
        for g, (k, v) in out:
            if g is True or self.branch(g):
                d[k] = v
        return d

    def ev_JoinedStr(self, e, env):
        from . import models
        return models.joinedstr(self, e, env)

    def ev_FormattedValue(self, e, env):
        from . import models
        return models.joinedstr(self, ast.JoinedStr(values=[e]), env)

    def ev_Starred(self, e, env):
        raise Unsupported("starred")

    # ------------------------------------------------------------- loop bodies
    def find_loop(self, fnode, ordinal):
        """the ordinal-th (1-based, source order) for/while statement directly inside function node fnode
        (nested function definitions are not entered)"""
        found = []

        def walk(stmts):
            for st in stmts:
                if isinstance(st, (ast.For, ast.While)):
                    found.append(st)
                if isinstance(st, (ast.FunctionDef, ast.ClassDef)):
                    continue
                for fld in ("body", "orelse", "finalbody"):
                    sub = getattr(st, fld, None)
                    if isinstance(sub, list):
                        walk(sub)
                for h in getattr(st, "handlers", []) or []:
                    walk(h.body)
        walk(fnode.body)
        if ordinal > len(found):
            raise Unsupported(f"loop #{ordinal} not found")
        return found[ordinal - 1]

    def exec_loop_body(self, fnode, ordinal, env, target_value):
        """one execution of the body of loop #ordinal of fnode with the loop target bound to target_value.
        -> ('next', None) | ('continue', None) | ('break', None) | ('return', value); exceptions propagate as Raised"""
        loop = self.find_loop(fnode, ordinal)
        if not isinstance(loop, ast.For):
            raise Unsupported("while loop body")
        self.assign(loop.target, target_value, env)
        # the locals the body reads but the contract's environment does not provide (a renamed or new local that is set
        # before the loop): that is a harness that no longer fits the code - undecided, not an exception of the code
        provided = set()
        e_ = env
        while e_ is not None:
            provided |= set(e_.vars); e_ = e_.parent
        inside = {id(n) for n in ast.walk(loop)}
        pre = {n.id for n in ast.walk(fnode) if isinstance(n, ast.Name) and isinstance(n.ctx, ast.Store) and id(n) not in inside} | \
              {a.arg for a in fnode.args.args + fnode.args.kwonlyargs}
        for st in loop.body:
            for n in ast.walk(st):
                if isinstance(n, ast.Name) and isinstance(n.ctx, ast.Load) and n.id in pre and n.id not in provided:
                    raise Unsupported(f"loop body reads the local '{n.id}', which the contract's environment does not provide")
        try:
            for st in loop.body:
                self.stmt(st, env)
        except ContinueEx:
            return ("continue", None)
        except BreakEx:
            return ("break", None)
        except ReturnEx as r:
            return ("return", r.v)
        return ("next", None)

    # --------------------------------------------------------- expression text
    def eval_src(self, src, variables, module=None):
        node = ast.parse(src, mode="eval").body
        env = Env(None, module)
        env.vars.update(variables)
        return self.ev(node, env)


class SuperProxy(Abstract):
    """zero-argument super() inside an interpreted method"""

    def __init__(self, cls, env):
        self.env = env
        self.cls = cls

    def p_getattr(self, it, name):
        # find self (first parameter of the enclosing function) and the defining class
        e = self.env
        selfv = None
        defcls = None
        while e is not None:
            if "__defclass__" in e.vars:
                defcls = e.vars["__defclass__"]
            if "self" in e.vars and selfv is None:
                selfv = e.vars["self"]
            if "cls" in e.vars and selfv is None:
                selfv = e.vars["cls"]
            e = e.parent
        if selfv is None:
            raise Unsupported("super() without self")
        objcls = selfv if isinstance(selfv, type) else it.pytype_of(selfv)
        if defcls is None:
            raise Unsupported("super() without defining class")
        mro = objcls.__mro__
        i = mro.index(defcls)
        for base in mro[i + 1:]:
            if name in base.__dict__:
                raw = base.__dict__[name]
                if isinstance(raw, types.FunctionType):
                    return BoundMethod(selfv, raw)
                if isinstance(raw, classmethod):
                    return BoundMethod(objcls, raw.__func__)
                if isinstance(raw, staticmethod):
                    return raw.__func__
                if isinstance(raw, functools.singledispatchmethod):
                    return DispatchMethod(selfv, raw, name)
                if isinstance(raw, (types.WrapperDescriptorType, types.MethodDescriptorType)):
                    return BuiltinBound(selfv, raw, name)
                return raw
        raise Raised(ExcVal(AttributeError, (name,)))


class BuiltinBound(Abstract):
    def __init__(self, selfv, raw, name):
        self.selfv = selfv; self.raw = raw; self.name = name

    def p_call(self, it, args, kwargs):
        if self.name == "__init__":
            return None
        return it.call_symmethod(SymMethod(self.selfv, self.name), args, kwargs)


class Env:
    def __init__(self, parent, module):
        self.parent = parent; self.module = module; self.vars = {}

    def lookup(self, name):
        e = self
        while e is not None:
            if name in e.vars:
                return e.vars[name]
            e = e.parent
        m = self.module
        if m is not None and name in m.__dict__:
            return m.__dict__[name]
        if hasattr(builtins, name):
            return getattr(builtins, name)
        raise Raised(ExcVal(NameError, (name,)))

    def lookup_opt(self, name):
        e = self
        while e is not None:
            if name in e.vars:
                return e.vars[name]
            e = e.parent
        return None


def _as_load(t):
    import copy
    t2 = copy.copy(t)
    t2.ctx = ast.Load()
    return t2


def _constructs(e):
    """syntactic: the expression calls something spelled like a class (Capitalised name)"""
    for n in ast.walk(e):
        if isinstance(n, ast.Call):
            f = n.func
            nm = f.id if isinstance(f, ast.Name) else (f.attr if isinstance(f, ast.Attribute) else "")
            if nm[:1].isupper():
                return True
    return False


def _simple_expr(e):
    """expression without calls to unknown code that could raise/return: safe to evaluate on both arms and merge"""
    for n in ast.walk(e):
        if isinstance(n, (ast.Lambda, ast.NamedExpr, ast.Yield, ast.Await)):
            return False
    return True
