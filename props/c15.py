"""C15 - the cached FI profile: per-call contract and invariant for sequential histories (proof); crash points and
interleavings are not decidable by this technique family (stated, not substituted)."""
from props.common import run_contracts, replay_known_findings
from props.c10 import TRUSTED

LEVEL = "proof"


def run(rep, tier, seed):
    rep.trusted += TRUSTED + [
        "ghost file system: the cache is (present, content); open(path,'wb') truncates, write sets the content; pathlib exists/mkdir abstract",
        "the parser is abstract on byte strings: parse_ok / status code / DTPROFUP are uninterpreted; _request_profile returns arbitrary bytes or raises",
    ]
    rep.assumptions += [
        "NOT DECIDED (no contract within reach): a crash between open(...,'wb') truncating the file and write completing; interleavings of concurrent request_profile calls (ofxget _queue_scans). The per-call contract assumes atomic, sequential calls.",
        "sequential histories: the per-call contract (failing calls never open the cache for writing; success returns the cached profile unchanged or a complete newer one) makes 'cache is absent or one complete accepted profile at least as new as any it held' an invariant, by induction over the history",
    ]
    run_contracts(rep, "contracts.client", tier, seed)
    run_contracts(rep, "contracts.client_history", tier, seed)
    replay_known_findings(rep)
