"""What groom/ungroom are for (from the docstrings of ofxtools.models.base and the property C07/C17): on a COPY of the
element, children whose tag carries a vendor prefix (contains '.') are dropped; three classes additionally
rename one *direct* child whose OFX tag is a Python keyword (YIELD<->YLD in MFINFO/STOCKINFO, FROM<->FRM in MAIL)."""
import copy
import xml.etree.ElementTree as ET

RENAMES = {"MFINFO": ("YIELD", "YLD"), "STOCKINFO": ("YIELD", "YLD"), "MAIL": ("FROM", "FRM")}


def canon(e):
    return ET.tostring(e)


def groom_ref(clsname, elem):
    out = copy.deepcopy(elem)
    if clsname in RENAMES:
        a, b = RENAMES[clsname]
        for ch in list(out):
            if ch.tag == a:
                ch.tag = b
                break
    for ch in list(out):
        if "." in ch.tag:
            out.remove(ch)
    return out


def ungroom_ref(clsname, elem):
    out = copy.deepcopy(elem)
    if clsname in RENAMES:
        a, b = RENAMES[clsname]
        for ch in list(out):
            if ch.tag == b:
                ch.tag = a
                break
    return out


# ---- the same reference over the abstract view used by the proofs: direct children as (tag, identity) pairs
def groomed(clsname, kids):
    out = []
    renamed = False
    for tag, ident in kids:
        if clsname in RENAMES and not renamed and tag == RENAMES[clsname][0]:
            tag = RENAMES[clsname][1]
            renamed = True
        out.append((tag, ident))
    kept = []
    for t, i in out:
        if "." not in t:
            kept.append((t, i))
    return kept


def ungroomed(clsname, kids):
    out = []
    renamed = False
    for tag, ident in kids:
        if clsname in RENAMES and not renamed and tag == RENAMES[clsname][1]:
            tag = RENAMES[clsname][0]
            renamed = True
        out.append((tag, ident))
    return out


def kids_of(elem):
    """direct children as (tag, identity); the harness numbers the children in their text ('t0', 't1', ...)"""
    return [(c.tag, int(c.text[1:])) for c in elem]


def _kids_model(it, a, kw):
    return [(c.tag, int(c.label[1:].rstrip("'^"))) for c in a[0].kids]


kids_of._pyvc_model = _kids_model
kids_of._pyvc_always = True
