"""C01 / C11 - the library's own body writer and pretty-printer under contract.

    utils.tostring_unclosed_elements(elem)  ==  the rendering of the tree in the wire syntax with the choices
                                                 (no end tag on data elements, whitespace = the element's tail)
    utils.indent(elem)                      changes nothing but whitespace-only text/tail slots

The element tree is the ownership model of contracts/oelem.py with *shaped* texts: tags are the concrete tags of
the shape, the data of each data element is a string of 1..2 symbolic code points (any code point - markup
characters, quotes, non-ASCII included), tails are None or whitespace.  xml.sax.saxutils.escape (and html.escape,
should the code use it) are interpreted from their library source, so the escaping actually performed is part
of the proof: the postcondition demands exactly & < > escaped and nothing else - a writer that also rewrites
quotes, or forgets one of the three, fails.  The bound is the shape (<= 2 data elements, depth <= 3) and the data length
(<= 2 per element: escaping is a per-character substitution, so two characters exercise every pair of
neighbours); within it the proof is for all code points at once.

Reading the rendering back is the parser's contract (C02: every rendering of a tree parses to that tree) and the
decoding of entities is String.convert's (C10)."""
import html
import xml.etree.ElementTree as ET
from xml.sax import saxutils
from pyvc.contract import *
from pyvc import core as C
from pyvc import models as M
from pyvc.values import SStr
from contracts import oelem as O
import z3

ESC = {"&": "&amp;", "<": "&lt;", ">": "&gt;"}

# shapes: (tag, None) data element | (tag, [children]) aggregate
SHAPES = [
    ("A", [("B1", None)]),
    ("A", [("B1", None), ("C.D", None)]),
    ("A", [("AG", [("B1", None)]), ("C.D", None)]),
    ("A", [("AG", [("AG2", [("B1", None)])])]),
    ("A", [("B1", None), ("AG", [("C.D", None)])]),
]


class ShapedTreeArg(Arg):
    """element tree of a fixed shape; data of each data element symbolic (1..maxlen code points, no edge whitespace
    is NOT assumed: the writer must be right for any data); tails None (not pretty-printed) or the indentation
    a previous indent() would have left (concrete whitespace)"""

    def __init__(self, name, shape, maxlen=2, tails=False):
        self.name = name; self.shape = shape; self.maxlen = maxlen; self.tails = tails

    def make(self, it):
        self.it = it
        it.shaped_bytes = True
        it.interpret_also |= {saxutils.escape, saxutils.__dict__["__dict_replace"], html.escape}
        O.install(it)
        w = O.World()
        asm = []
        self.slots = []
        counter = [0]

        def build(node, depth):
            tag, kids = node
            i = counter[0]; counter[0] += 1
            if kids is None:
                a = StrArg(f"d{i}", minlen=1, maxlen=self.maxlen)
                v, am = a.make(it)
                asm.extend(am)
                self.slots.append((a, v))
                e = O.OElem(w, "input", f"n{i}", tag, v, [])
            else:
                e = O.OElem(w, "input", f"n{i}", tag, None, [build(k, depth + 1) for k in kids])
            e.tail = ("\n" + "  " * depth) if self.tails else None
            return e
        return build(self.shape, 0), asm

    def native(self, datas, it=None):
        it_ = iter(datas)

        def build(node, depth):
            tag, kids = node
            e = ET.Element(tag)
            if kids is None:
                e.text = next(it_)
            else:
                for k in kids:
                    e.append(build(k, depth + 1))
            e.tail = ("\n" + "  " * depth) if self.tails else None
            return e
        return build(self.shape, 0)

    def nleaves(self):
        def n(node):
            return 1 if node[1] is None else sum(n(k) for k in node[1])
        return n(self.shape)

    def samples(self, rng, n):
        alpha = "ab&<>\"' é€\n;#"
        return [self.native(["".join(rng.choice(alpha) for _ in range(rng.randint(1, self.maxlen))) for _ in range(self.nleaves())]) for _ in range(max(n, 8))]

    def concretize(self, model, value):
        datas = [a.concretize(model, v) for a, v in self.slots]
        return self.native(datas)


from contracts.spec.render import view_of as view


def call_unclosed(it, fn, a):
    from ofxtools import utils
    if it is None:
        return utils.tostring_unclosed_elements(a[0])
    return it.call(utils.tostring_unclosed_elements, [a[0]], {})


def call_indent(it, fn, a):
    from ofxtools import utils
    if it is None:
        e = a[0]
        before = view(e)
        utils.indent(e)
        return {"before": before, "after": view(e)}
    before = view._pyvc_model(it, [a[0]], {})
    it.call(utils.indent, [a[0]], {})
    return {"before": before, "after": view._pyvc_model(it, [a[0]], {})}


CONTRACTS = []
for si, shape in enumerate(SHAPES):
    for tails in (False, True):
        CONTRACTS.append(Contract("ofxtools.utils:tostring_unclosed_elements",
                                  args=[ShapedTreeArg("elem", shape, tails=tails)], call=call_unclosed,
                                  ensures=[("C01-is-the-rendering-without-end-tags", "result.decode('utf_8') == spec.render.unclosed(spec.render.view_of(elem))")],
                                  modifies=[],
                                  notes=f"shape {si} ({'after indent' if tails else 'no pretty-printing'}): output == <TAG>escape(data)tail for data elements, <TAG>tail children </TAG>tail for aggregates; data 1..2 arbitrary code points per element",
                                  props=["C01", "C11"], samples=60, tier="quick"))
    CONTRACTS.append(Contract("ofxtools.utils:indent",
                              args=[ShapedTreeArg("elem", shape, maxlen=2)], call=call_indent, modifies=["elem"],
                              ensures=[("C01-only-whitespace-slots-change", "spec.render.same_but_whitespace(result['after'], result['before'])")],
                              notes=f"shape {si}: indent leaves every tag, every data text and the structure alone; it fills only empty/whitespace text of aggregates and tails with whitespace",
                              props=["C01"], samples=60, tier="quick"))
