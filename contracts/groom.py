"""groom / ungroom (C07, C17): evaluated natively against the reference over an exhaustively enumerated small
scope (bounded stand-in, engine R): ElementTree's XPath find() and deepcopy are outside the symbolic subset."""
import itertools
import xml.etree.ElementTree as ET
from pyvc.contract import *
import ofxtools.models as models
from ofxtools.models.base import Aggregate

TAGS = ["A", "YIELD", "YLD", "FROM", "FRM", "INTU.BID", "X.YIELD"]


def trees(tier):
    """all roots with 0..3 children over TAGS (4 in the thorough tier), each child either a data element or an aggregate
    holding one grandchild tagged YIELD / FROM / Q.Z (so nested keyword tags and nested vendor tags occur)"""
    n = 4 if tier == "thorough" else 3
    kids = []
    for t in TAGS:
        kids.append((t, None))
        for g in ("YIELD", "FROM", "Q.Z"):
            kids.append((t, g))
    out = []
    for k in range(0, n + 1):
        for combo in itertools.product(range(len(kids)), repeat=k):
            if k == n and len(set(combo)) < 2 and k > 1:
                continue
            out.append([kids[i] for i in combo])
    return out


def build(desc):
    root = ET.Element("ROOT")
    for t, g in desc:
        c = ET.SubElement(root, t)
        if g is None:
            c.text = "v"
        else:
            ET.SubElement(c, g).text = "w"
    return root


class ElemArgN(Arg):
    def __init__(self, name="elem"):
        self.name = name


def cases_for(tier):
    return [[build(d)] for d in trees(tier)]


def call_with_frame(fnname, clsname):
    def call(it, fn, a):
        import copy
        cls = getattr(models, clsname) if clsname != "Aggregate" else Aggregate
        before = ET.tostring(a[0])
        r = getattr(cls, fnname)(a[0])
        return (r, ET.tostring(a[0]) == before, r is a[0])
    return call


CONTRACTS = []
for clsname in ["Aggregate", "MFINFO", "STOCKINFO", "MAIL"]:
    CONTRACTS.append(Contract(f"ofxtools.models.base:Aggregate.groom", args=[ElemArgN()], call=call_with_frame("groom", clsname),
                              ensures=[("C07-result", f"spec.groom.canon(result[0]) == spec.groom.canon(spec.groom.groom_ref({clsname!r}, elem))"),
                                       ("C17-input-untouched", "result[1]")],
                              cases=cases_for, native_only=True, shards=4,
                              notes=f"{clsname}.groom on every root with <= 3 children (4 in thorough) over 7 tags incl. vendor-prefixed and keyword tags, children plain or holding a keyword/vendor grandchild",
                              props=["C07", "C17"]))
    CONTRACTS.append(Contract(f"ofxtools.models.base:Aggregate.ungroom", args=[ElemArgN()], call=call_with_frame("ungroom", clsname),
                              ensures=[("result", f"spec.groom.canon(result[0]) == spec.groom.canon(spec.groom.ungroom_ref({clsname!r}, elem))")],
                              cases=cases_for, native_only=True, shards=4,
                              notes=f"{clsname}.ungroom on the same scope (the tree handed to ungroom is to_etree's own: writing it in place would be harmless, so no frame is claimed)", props=["C07", "C01"], modifies=["elem"]))
