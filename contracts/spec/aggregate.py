"""Spec functions for the generic aggregate machinery (ofxtools/models/base.py), written from the
property statements C03/C04/C07 and the OFX rule that an aggregate's children come in the order the
specification lists them, repeated members being exempt among themselves.

They are plain Python over (spec list, predicates, accumulator, element) and are evaluated natively on
real classes/elements (reference for the bounded runs) and symbolically on the abstract objects of the
proof harness (contracts/aggregate.py)."""


def attr_of(tag):
    return tag.lower()


def is_unknown(spec, tag):
    """a child whose (lower-cased) tag the enclosing aggregate does not define"""
    return attr_of(tag) not in spec


def step_error(spec, listnames, accum, tag):
    """known child `tag` arriving after the children folded into accum = (args, kwargs, prev_index, prev_is_list):
    refused iff it does not come strictly later in the spec than the previous known child (two members of
    repeated children are exempt), or it is a non-repeatable child seen before"""
    a = attr_of(tag)
    i = spec.index(a)
    isl = a in listnames
    return (i <= accum[2] and not (isl and accum[3])) or ((not isl) and a in accum[1])


def child_value(unsupported, a, text, aggregate_value):
    """value a child contributes: nothing for unsupported children, its text for a data element,
    the converted sub-aggregate otherwise"""
    return None if a in unsupported else (text if text else aggregate_value)


def step_result(spec, listnames, unsupported, accum, tag, text, aggregate_value):
    a = attr_of(tag)
    i = spec.index(a)
    isl = a in listnames
    v = child_value(unsupported, a, text, aggregate_value)
    if isl:
        return (accum[0] + [v], accum[1], i, True)
    return (accum[0], with_key(accum[1], a, v), i, False)


def with_key(d, k, v):
    r = dict(d)
    r[k] = v
    return r


def _with_key_model(it, a, kw):
    return a[0].store(it, a[1], a[2])


with_key._pyvc_model = _with_key_model


def needs_subaggregate(unsupported, a, text):
    return (a not in unsupported) and not text


# -------------------------------------------------------------------------------- native reference fold
def fold(cls, children):
    """reference for Aggregate._convert on an arbitrary child sequence (after groom): ('ok', args, kwargs) | ('error',)
    sub-aggregates are left as elements"""
    spec = list(cls.spec)
    listnames = set(cls.listaggregates) | set(cls.listelements)
    accum = ([], {}, -1, False)
    for e in children:
        if is_unknown(spec, e.tag):
            continue
        if step_error(spec, listnames, accum, e.tag):
            return ("error",)
        accum = step_result(spec, listnames, cls.unsupported, accum, e.tag, e.text, e)
    return ("ok", accum[0], accum[1])


def abstract_value(elem):
    """(proof harness only) the value the recursive conversion of `elem` returns"""
    raise NotImplementedError("symbolic only")


def _abstract_value_model(it, a, kw):
    from contracts.aggregate import agg_val, Aggregate
    from pyvc.values import SVal
    return SVal(Aggregate, agg_val(a[0].e))


abstract_value._pyvc_model = _abstract_value_model


def same_accum(x, y):
    return x[0] == y[0] and x[1] == y[1] and x[2] == y[2] and x[3] == y[3]


def member_name(member):
    """the attribute a list member belongs to: its class name, lower-cased"""
    return member.__class__.__name__.lower()


# ---- proof-harness-only observers (symbolic models; no native form)
def _sym_only(name):
    def f(*a):
        raise NotImplementedError(name + ": symbolic only")
    f._pyvc_always = True
    return f


is_tree_of = _sym_only("is_tree_of")
is_leaf = _sym_only("is_leaf")
unconverted = _sym_only("unconverted")
unconvert_accepts = _sym_only("unconvert_accepts")


def _is_tree_of_model(it, a, kw):
    from contracts.aggregate import tree_of
    from pyvc.values import SBool
    rec, member = a
    return SBool(rec.tree == tree_of(member.e)) if rec.kind == "tree" else False


def _is_leaf_model(it, a, kw):
    from contracts.aggregate import toV
    from pyvc.values import SBool
    import z3
    from pyvc import models as M
    rec, tag, text = a
    if rec.kind != "leaf":
        return False
    return SBool(z3.And(rec.tag == toV(it, tag), rec.text == toV(it, text)))


def _unconverted_model(it, a, kw):
    from contracts.aggregate import unconv, toV
    from pyvc.values import SVal
    return SVal(str, unconv(it.lit(a[0]), toV(it, a[1])))


def _unconvert_accepts_model(it, a, kw):
    from contracts.aggregate import unconv_ok, toV
    from pyvc.values import SBool
    return SBool(unconv_ok(it.lit(a[0]), toV(it, a[1])))


is_tree_of._pyvc_model = _is_tree_of_model
is_leaf._pyvc_model = _is_leaf_model
unconverted._pyvc_model = _unconverted_model
unconvert_accepts._pyvc_model = _unconvert_accepts_model


list_kind = _sym_only("list_kind")
is_leaf_for = _sym_only("is_leaf_for")
unconvert_accepts_attr = _sym_only("unconvert_accepts_attr")


def _list_kind_model(it, a, kw):
    from contracts.aggregate import is_list_type
    from pyvc.values import SBool
    return SBool(is_list_type(a[0].e))


def _is_leaf_for_model(it, a, kw):
    from contracts.aggregate import toV, unconv
    from pyvc.values import SBool
    from pyvc import models as M
    import z3
    rec, attr, value = a
    if rec.kind != "leaf":
        return False
    at = toV(it, attr)
    return SBool(z3.And(rec.tag == M.upper_f(at), rec.text == unconv(at, toV(it, value))))


def _unconvert_accepts_attr_model(it, a, kw):
    from contracts.aggregate import toV, unconv_ok
    from pyvc.values import SBool
    return SBool(unconv_ok(toV(it, a[0]), toV(it, a[1])))


list_kind._pyvc_model = _list_kind_model
is_leaf_for._pyvc_model = _is_leaf_for_model
unconvert_accepts_attr._pyvc_model = _unconvert_accepts_attr_model


def all_converted(appended, attr):
    raise RuntimeError("symbolic only")


def _all_converted_model(it, a, kw):
    """every appended value is an application of the list converter (the uninterpreted list_conv of the harness)"""
    import z3
    ok = True
    for v in a[0]:
        e = getattr(v, "e", None)
        ok = ok and e is not None and z3.is_app(e) and e.decl().name() == "list_conv"
    return ok


all_converted._pyvc_model = _all_converted_model
all_converted._pyvc_always = True


def instance_violations(inst):
    """C04's consequence, checked on an instance that exists: every required child is there, every exclusivity
    group declared anywhere in the MRO holds.  The declarations are read from the class bodies along the MRO, not
    from the class's own derived mappings."""
    from props.aggclasses import declared_spec, declared_mutexes
    cls = type(inst)
    out = []
    spec = declared_spec(cls, lists=False)
    for a, t in spec.items():
        if getattr(t, "required", False) and inst.__dict__.get(a) is None:
            out.append(f"required {a} is missing")
    opt, req = declared_mutexes(cls)
    for g in opt:
        n = sum(1 for m in g if m in spec and inst.__dict__.get(m) is not None)
        if n > 1:
            out.append(f"at most one of {g}: {n} present")
    for g in req:
        if not all(m in spec for m in g):
            continue
        n = sum(1 for m in g if inst.__dict__.get(m) is not None)
        if n != 1:
            out.append(f"exactly one of {g}: {n} present")
    return out


def same_value(a, b):
    """None is None; anything else: the very value"""
    if a is None or b is None:
        return a is None and b is None
    return a == b
