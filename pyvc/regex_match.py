"""Symbolic backtracking regex matcher following CPython's priority rules (greedy/lazy repeats,
alternation order, optional groups, back-references) over a string of fixed length whose characters
may be symbolic code points.  The pattern is taken from the *real* compiled object (pattern text and
flags) and parsed with re._parser, the parser CPython itself uses.  Every class test on a symbolic
character is a z3 formula decided under the path condition, forking when both answers are possible.
Exact for strings of fixed shape; differential-tested against `re` by pyvc.selftest."""
import json, os, re
import z3
try:
    import re._parser as sp
    import re._constants as sc
except ImportError:          # pragma: no cover
    import sre_parse as sp
    import sre_constants as sc
from .values import *
from . import core as C
from . import models as M

_cat_cache = {}
CAT = {"CATEGORY_DIGIT": r"\d", "CATEGORY_WORD": r"\w", "CATEGORY_SPACE": r"\s",
       "CATEGORY_NOT_DIGIT": r"\D", "CATEGORY_NOT_WORD": r"\W", "CATEGORY_NOT_SPACE": r"\S"}
CACHE_FILE = os.path.join(os.path.dirname(os.path.dirname(os.path.abspath(__file__))), ".cache", "unicode_categories.json")


def cat_ranges(pat):
    """exact code-point ranges of \\d \\w \\s computed with the real `re` engine (cached on disk)"""
    if not _cat_cache and os.path.exists(CACHE_FILE):
        try:
            _cat_cache.update({k: [tuple(r) for r in v] for k, v in json.load(open(CACHE_FILE)).items()})
        except Exception:
            pass
    if pat in _cat_cache:
        return _cat_cache[pat]
    rx = re.compile(pat)
    rs = []
    start = prev = None
    for i in range(0x110000):
        if 0xD800 <= i <= 0xDFFF:
            continue
        if rx.fullmatch(chr(i)):
            if start is None:
                start = i
            elif i != prev + 1:
                rs.append((start, prev)); start = i
            prev = i
    if start is not None:
        rs.append((start, prev))
    _cat_cache[pat] = rs
    try:
        os.makedirs(os.path.dirname(CACHE_FILE), exist_ok=True)
        json.dump(_cat_cache, open(CACHE_FILE, "w"))
    except Exception:
        pass
    return rs


def in_ranges(c, rs):
    if isinstance(c, int):
        return any(a <= c <= b for a, b in rs)
    return z3.Or(*[(c == a) if a == b else z3.And(c >= a, c <= b) for a, b in rs]) if rs else False


def atom_cond(op, av, c, flags=0):
    """condition under which code point c matches the single-character atom"""
    o = str(op)
    conc = isinstance(c, int)
    if o == "LITERAL":
        return (c == av)
    if o == "NOT_LITERAL":
        return (c != av)
    if o == "ANY":
        if flags & re.DOTALL:
            return True
        return (c != 10)
    if o == "IN":
        neg = False
        parts = []
        for iop, iav in av:
            io = str(iop)
            if io == "NEGATE":
                neg = True
            elif io == "LITERAL":
                parts.append(c == iav)
            elif io == "RANGE":
                parts.append((iav[0] <= c <= iav[1]) if conc else z3.And(c >= iav[0], c <= iav[1]))
            elif io == "CATEGORY":
                parts.append(in_ranges(c, cat_ranges(CAT[str(iav)])))
            else:
                raise C.Unsupported(f"regex class item {io}")
        if conc:
            r = any(parts)
            return (not r) if neg else r
        r = zor(*parts)
        return znot(r) if neg else r
    raise C.Unsupported(f"regex atom {o}")


class Matcher:
    def __init__(self, it, rx, chars):
        self.it = it
        self.chars = chars
        self.n = len(chars)
        self.rx = rx
        self.flags = rx.flags
        if rx.flags & (re.IGNORECASE | re.MULTILINE):
            raise C.Unsupported("regex flags IGNORECASE/MULTILINE")
        self.tree = sp.parse(rx.pattern, rx.flags)
        self.steps = 0
        self.atom_flags = {}
        self.annotate(self.tree, self.flags)

    def annotate(self, items, flags):
        """effective flags of every single-character atom (scoped inline flags such as (?s:...))"""
        for item in items:
            op, av = item
            o = str(op)
            if o in ("LITERAL", "NOT_LITERAL", "IN", "ANY"):
                self.atom_flags[id(item)] = flags
            elif o == "SUBPATTERN":
                gid, add_flags, del_flags, sub = av
                self.annotate(sub, (flags | add_flags) & ~del_flags)
            elif o == "BRANCH":
                for alt in av[1]:
                    self.annotate(alt, flags)
            elif o in ("MAX_REPEAT", "MIN_REPEAT"):
                self.annotate(av[2], flags)
            elif o in ("ASSERT", "ASSERT_NOT"):
                self.annotate(av[1], flags)

    def test(self, op, av, pos, flags=None):
        if pos >= self.n:
            return False
        flags = self.flags if flags is None else flags
        c = self.chars[pos]
        if not isinstance(c, int):
            dom = self.it.domain_ids.get(c.get_id())
            if dom is not None:
                # finite registered domain: decide the class test by evaluation when it is uniform over the domain
                res = [bool(atom_cond(op, av, d, flags)) for d in dom]
                if all(res):
                    return True
                if not any(res):
                    return False
        cond = atom_cond(op, av, c, flags)
        if isinstance(cond, bool):
            return cond
        return self.it.branch(cond)

    def eq_char(self, a, b):
        if isinstance(a, int) and isinstance(b, int):
            return a == b
        return self.it.branch(zint(a) == zint(b))

    def m(self, items, i, pos, groups, k):
        self.steps += 1
        if self.steps > 200000:
            raise C.Unsupported("regex matcher step bound")
        if i == len(items):
            return k(pos, groups)
        op, av = items[i]
        o = str(op)
        rest = lambda p, g: self.m(items, i + 1, p, g, k)
        if o in ("LITERAL", "NOT_LITERAL", "IN", "ANY"):
            return rest(pos + 1, groups) if self.test(op, av, pos, self.atom_flags.get(id(items[i]))) else None
        if o == "AT":
            a = str(av)
            if a in ("AT_BEGINNING", "AT_BEGINNING_STRING"):
                return rest(pos, groups) if pos == 0 else None
            if a == "AT_END":
                if pos == self.n:
                    return rest(pos, groups)
                if pos == self.n - 1:
                    c = self.chars[pos]
                    isnl = (c == 10) if isinstance(c, int) else self.it.branch(c == 10)
                    if isnl:
                        return rest(pos, groups)
                return None
            if a == "AT_END_STRING":
                return rest(pos, groups) if pos == self.n else None
            raise C.Unsupported(f"regex anchor {a}")
        if o == "SUBPATTERN":
            gid, add_flags, del_flags, sub = av
            if (add_flags | del_flags) & ~re.DOTALL:
                raise C.Unsupported("regex inline flags other than (?s:...)")

            def after(p, g):
                if gid is not None:
                    g = dict(g); g[gid] = (pos, p)
                return rest(p, g)
            return self.m(list(sub), 0, pos, groups, after)
        if o == "BRANCH":
            for alt in av[1]:
                r = self.m(list(alt), 0, pos, groups, rest)
                if r is not None:
                    return r
            return None
        if o in ("MAX_REPEAT", "MIN_REPEAT"):
            lo, hi, sub = av
            sub = list(sub)

            def rep(count, p, g):
                more = (hi == sc.MAXREPEAT or count < hi)
                if o == "MAX_REPEAT":
                    if more:
                        r = self.m(sub, 0, p, g, lambda p2, g2: rep(count + 1, p2, g2) if (p2 > p or count < lo) else None)
                        if r is not None:
                            return r
                    return rest(p, g) if count >= lo else None
                else:
                    if count >= lo:
                        r = rest(p, g)
                        if r is not None:
                            return r
                    if more:
                        return self.m(sub, 0, p, g, lambda p2, g2: rep(count + 1, p2, g2) if (p2 > p or count < lo) else None)
                    return None
            return rep(0, pos, groups)
        if o in ("ASSERT", "ASSERT_NOT"):
            direction, sub = av
            if direction != 1:
                raise C.Unsupported("regex lookbehind")
            # every character test on the way forks the path, so within one path the look-ahead is simply decided
            r = self.m(list(sub), 0, pos, groups, lambda p, g: (p, g))
            if (r is not None) == (o == "ASSERT"):
                return rest(pos, groups if r is None or o == "ASSERT_NOT" else r[1])
            return None
        if o == "GROUPREF":
            if av not in groups:
                return None
            s, e = groups[av]
            ln = e - s
            if pos + ln > self.n:
                return None
            for j in range(ln):
                if not self.eq_char(self.chars[s + j], self.chars[pos + j]):
                    return None
            return rest(pos + ln, groups)
        if o == "NOT_LITERAL":
            return rest(pos + 1, groups) if self.test(op, av, pos) else None
        raise C.Unsupported(f"regex op {o}")

    def match_at(self, start):
        r = self.m(list(self.tree), 0, start, {}, lambda p, g: (p, g))
        if r is None:
            return None
        p, g = r
        return start, p, g


class AMatch(Abstract):
    pytype = re.Match

    def __init__(self, rx, s, start, end, groups):
        self.rx = rx; self.s = s; self.start_ = start; self.end_ = end; self.groups = groups

    def span_text(self, gid):
        if gid == 0:
            a, b = self.start_, self.end_
        elif gid in self.groups:
            a, b = self.groups[gid]
        else:
            return None
        items = self.s.items[a:b]
        if all(isinstance(c, int) for _, c in items):
            return "".join(chr(c) for _, c in items)
        return SStr(items)

    def gid(self, key):
        if isinstance(key, int):
            return key
        if isinstance(key, SStr):
            key = key.pystr()
        return self.rx.groupindex[key]

    def p_getattr(self, it, name):
        if name == "groupdict":
            return lambda: {k: self.span_text(v) for k, v in self.rx.groupindex.items()}
        if name == "group":
            return lambda *keys: self.span_text(self.gid(keys[0] if keys else 0)) if len(keys) <= 1 else tuple(self.span_text(self.gid(k)) for k in keys)
        if name == "end":
            return lambda *k: self.end_ if not k or k[0] == 0 else self.groups.get(self.gid(k[0]), (-1, -1))[1]
        if name == "start":
            return lambda *k: self.start_ if not k or k[0] == 0 else self.groups.get(self.gid(k[0]), (-1, -1))[0]
        if name == "span":
            return lambda *k: (self.start_, self.end_)
        if name == "string":
            return self.s
        raise C.Unsupported(f"match attribute {name}")

    def p_truth(self, it):
        return True

    def p_getitem(self, it, key):
        return self.span_text(self.gid(key))


def _chars(it, s):
    s = it.force(s)
    if isinstance(s, str):
        s = SStr.lit(s)
    if isinstance(s, SVal):
        raise C.Unsupported("regex on opaque text")
    s = M.resolve(it, s)
    return s, [c for _, c in s.items]


def rx_match(it, rx, args, kw):
    s, chars = _chars(it, args[0])
    r = Matcher(it, rx, chars).match_at(0)
    if r is None:
        return None
    return AMatch(rx, s, r[0], r[1], r[2])


def rx_search(it, rx, args, kw):
    s, chars = _chars(it, args[0])
    for start in range(len(chars) + 1):
        r = Matcher(it, rx, chars).match_at(start)
        if r is not None:
            return AMatch(rx, s, r[0], r[1], r[2])
    return None


def rx_finditer(it, rx, args, kw):
    s, chars = _chars(it, args[0])
    out = []
    pos = 0
    n = len(chars)
    while pos <= n:
        found = None
        for start in range(pos, n + 1):
            r = Matcher(it, rx, chars).match_at(start)
            if r is not None:
                found = r
                break
        if found is None:
            break
        out.append(AMatch(rx, s, found[0], found[1], found[2]))
        pos = found[1] if found[1] > found[0] else found[1] + 1
    return out


def install(it):
    it.methods[(re.Pattern, "match")] = lambda it_, rx, a, k: rx_match(it_, rx, a, k)
    it.methods[(re.Pattern, "search")] = lambda it_, rx, a, k: rx_search(it_, rx, a, k)
    it.methods[(re.Pattern, "finditer")] = lambda it_, rx, a, k: rx_finditer(it_, rx, a, k)
