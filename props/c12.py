"""C12 - headers round-trip for every supported version; invalid headers are refused (proof)."""
from props.common import run_contracts, replay_known_findings
from props.c10 import TRUSTED

LEVEL = "proof"


def run(rep, tier, seed):
    rep.trusted += TRUSTED
    rep.assumptions += [
        "round trip parse(str(make_header(...))) proved for all 1xx versions (symbolic 100..199), the seven supported 2xx versions, both security levels, UIDs over [A-Za-z0-9_-] with one UID of length 1, 2, 17, 35 or 36 (all characters symbolic) and the other 'NONE', plus both of length 36; other length combinations are covered by the sampled native evaluation only (bounded)",
        "refusal proved at constructor level for every field with opaque tokens of any length (UIDs free of '&'), and at text level for tokens of 1..4 printable ASCII characters per field, UIDs of 37, 38 and 40 characters, every single mandatory-field omission and adjacent transposition; COMPRESSION is optional by documented intent and its omission is not demanded to fail",
    ]
    run_contracts(rep, "contracts.header", tier, seed)
    # the same round trip as a file goes: header text + body through parse_header (the C05 companion: layouts x field values, bounded)
    run_contracts(rep, "contracts.header_native", tier, seed, accept_props=["C05"])
    replay_known_findings(rep)
