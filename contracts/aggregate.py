"""L1 contracts for the generic aggregate machinery in ofxtools/models/base.py (properties C03, C04, C07,
C16, C01, C11): each generic function / loop body is proved against a spec function with a *symbolic*
attribute, so one proof covers every present and future model class.

The class-level mappings (spec, listaggregates, listelements, unsupported, subaggregates) are abstract:
`spec.index(a)` is an uninterpreted index defined exactly when `a in spec`, the others are uninterpreted
predicates.  Converters and the sub-aggregate recursion are abstract callees."""
import ast, types
import z3
from pyvc.contract import *
from pyvc.values import *
from pyvc import core as C
from pyvc import models as M
from ofxtools.models import base as B
from ofxtools.models.base import Aggregate, OFXSpecError, UnknownTagWarning

in_spec = z3.Function("in_spec", V, z3.BoolSort())
spec_idx = z3.Function("spec_idx", V, z3.IntSort())
is_la = z3.Function("is_listaggregate", V, z3.BoolSort())
is_le = z3.Function("is_listelement", V, z3.BoolSort())
is_uns = z3.Function("is_unsupported", V, z3.BoolSort())
agg_ok = z3.Function("from_etree_returns", V, z3.BoolSort())
agg_val = z3.Function("from_etree_value", V, V)
NoneV = z3.Const("NoneV", V)


def toV(it, v):
    """embed a value into sort V (None, texts, opaque values)"""
    if v is None:
        return NoneV
    if isinstance(v, SVal):
        return v.e
    if isinstance(v, (str, SStr)):
        return M.text_term(it, v)
    if isinstance(v, SIte):
        return z3.If(v.c, toV(it, v.a), toV(it, v.b))
    raise C.Unsupported(f"toV {type(v).__name__}")


class ASpec(Abstract):
    """the spec (ordered attribute names) of an arbitrary class"""
    pytype = list

    def p_getattr(self, it, name):
        if name == "index":
            def index(a):
                e = toV(it, a)
                if not it.branch(in_spec(e)):
                    raise C.Raised(ExcVal(ValueError, ("not in list",)))
                it.assume(spec_idx(e) >= 0)
                return SInt(spec_idx(e))
            return index
        raise C.Unsupported(f"spec.{name}")

    def p_contains(self, it, item):
        return in_spec(toV(it, item))

    def p_getitem(self, it, k):
        return M.fresh_text(it, "specname")


class APred(Abstract):
    """a mapping of which only membership is used (listaggregates, listelements, unsupported)"""
    pytype = dict

    def __init__(self, *preds):
        self.preds = preds

    def p_contains(self, it, item):
        e = toV(it, item)
        return zor(*[p(e) for p in self.preds])


class ACls(Abstract):
    pytype = type

    def p_getattr(self, it, name):
        if name == "unsupported":
            return APred(is_uns)
        if name == "__name__":
            return M.fresh_text(it, "clsname")
        raise C.Unsupported(f"cls.{name}")


class AElem(Abstract):
    """an arbitrary child element: tag, text (None, '' or data), sub-aggregate conversion abstract"""

    def __init__(self, name):
        self.e = z3.Const(name, V)
        self.tagv = z3.Const(name + "_tag", V)
        self.textv = z3.Const(name + "_text", V)
        self.text_none = z3.Bool(name + "_text_is_none")

    def p_getattr(self, it, name):
        if name == "tag":
            return SVal(str, self.tagv)
        if name == "text":
            it.assume(tlen(self.textv) >= 0)
            return SIte(self.text_none, None, SVal(str, self.textv))
        raise C.Unsupported(f"elem.{name}")

    def p_setattr(self, it, name, value):
        # frame (C17): the child element belongs to the caller's tree - any store is logged and fails the clause
        it.st.ghost.setdefault("input_writes", []).append(("elem", name))


class AArgs(Abstract):
    """list of positional values: symbolic base + appended items"""
    pytype = list

    def __init__(self, base, items=()):
        self.base = base; self.items = list(items)

    def p_getattr(self, it, name):
        if name == "append":
            def append(v):
                self.items.append(toV(it, v))
            return append
        raise C.Unsupported(f"args.{name}")

    def p_binop(self, it, op, other, reflected):
        if op == "Add" and isinstance(other, list) and not reflected:
            return AArgs(self.base, self.items + [toV(it, x) for x in other])
        return NotImplemented

    def p_eq(self, it, other):
        if not isinstance(other, AArgs) or other.base is not self.base or len(other.items) != len(self.items):
            return False
        return zand(*[a == b for a, b in zip(self.items, other.items)])

    def snapshot(self):
        return AArgs(self.base, self.items)


class AKwargs(Abstract):
    """dict with symbolic text keys: (present, value) arrays"""
    pytype = dict

    def __init__(self, pres, val):
        self.pres = pres; self.val = val

    def p_contains(self, it, item):
        return z3.Select(self.pres, toV(it, item))

    def p_setitem(self, it, k, v):
        e = toV(it, k)
        self.pres = z3.Store(self.pres, e, True)
        self.val = z3.Store(self.val, e, toV(it, v))

    def store(self, it, k, v):
        e = toV(it, k)
        return AKwargs(z3.Store(self.pres, e, True), z3.Store(self.val, e, toV(it, v)))

    def p_eq(self, it, other):
        if not isinstance(other, AKwargs):
            return False
        return z3.And(self.pres == other.pres, self.val == other.val)

    def snapshot(self):
        return AKwargs(self.pres, self.val)


class AccumArg(Arg):
    name = "accum"

    def __init__(self, name="accum"):
        self.name = name

    def make(self, it):
        base = z3.Const("args0", z3.SeqSort(V))
        a = AArgs(base)
        k = AKwargs(z3.Array("kw_present0", V, z3.BoolSort()), z3.Array("kw_value0", V, V))
        prev = z3.Int("prev_index0")
        return (a, k, SInt(prev), SBool(z3.Bool("prev_is_listmember0"))), [prev >= -1]


class ElemArg(Arg):
    def __init__(self, name="elem"):
        self.name = name

    def make(self, it):
        return AElem(self.name), []


def update_args_closure(it):
    """the real nested function Aggregate._convert.update_args, taken from the source file on disk, closed over
    abstract class-level values"""
    fn = B.Aggregate._convert.__func__
    filename = fn.__code__.co_filename
    node = it.index.find_qual(filename, "Aggregate._convert.update_args")
    if node is None:
        raise C.Unsupported("Aggregate._convert.update_args not found")
    env = C.Env(None, B)
    env.vars.update({"spec": ASpec(), "listaggregates": APred(is_la), "listelements": APred(is_le),
                     "cls": ACls(), "clsnm": M.fresh_text(it, "clsnm")})
    return C.Closure(node, env, B, "Aggregate._convert.update_args")


def m_from_etree(it, args, kw):
    """abstract callee: the recursive conversion of a child aggregate returns a value or raises"""
    el = args[-1]
    if not isinstance(el, AElem):
        raise C.Unsupported("from_etree on a non-abstract element")
    it.st.ghost["calls"].append(("from_etree", el))
    if not it.branch(agg_ok(el.e)):
        raise C.Raised(ExcVal(OFXSpecError, ("sub-aggregate refused",)))
    return SVal(Aggregate, agg_val(el.e))


def call_update_args(it, fn, a):
    if it is None:
        raise RuntimeError("no native form")
    it.models[Aggregate.from_etree.__func__] = m_from_etree
    accum = a[0]
    # the accumulator handed to the closure is a snapshot, so the frame condition "accum's list/dict objects
    # are only extended, never replaced" is visible in the result
    clo = update_args_closure(it)
    pre = (accum[0].snapshot(), accum[1].snapshot(), accum[2], accum[3])
    return it.call(clo, [pre, a[1]], {})


SPEC_ARGS = "spec.aggregate"
ENV = {"SPEC": ASpec(), "LISTNAMES": APred(is_la, is_le), "UNSUPPORTED": APred(is_uns)}


class EnvArg(Arg):
    """constant abstract objects made available to the clauses"""

    def __init__(self, name, value):
        self.name = name; self.value = value

    def make(self, it):
        return self.value, []

    def check(self, it, v):
        return True


HARNESS_ARGS = [AccumArg(), ElemArg(), EnvArg("SPEC", ENV["SPEC"]), EnvArg("LISTNAMES", ENV["LISTNAMES"]), EnvArg("UNSUPPORTED", ENV["UNSUPPORTED"])]
AGGV = "spec.aggregate.abstract_value(elem)"

CONTRACTS = [
    # 0  C07 (top): a child the aggregate does not define changes nothing, warns once, is not entered
    Contract("ofxtools.models.base:Aggregate._convert",
             args=HARNESS_ARGS, call=call_update_args,
             requires=["spec.aggregate.is_unknown(SPEC, elem.tag)"],
             ensures=[("accumulator-unchanged", "result[0] == accum[0] and result[1] == accum[1] and result[2] == accum[2] and result[3] == accum[3]"),
                      ("one-warning", "len(ghost['warnings']) == 1"),
                      ("not-entered", "len([c for c in ghost['calls'] if c[0] == 'from_etree']) == 0"),
                      ("aux-child-element-not-written", "len(ghost.get('input_writes', [])) == 0")],
             notes="update_args (closure of Aggregate._convert): unknown tag", props=["C07", "C04", "C03", "C17"], symbolic_only=True, aux=["aux-child-element-not-written"]),
    # 1  C04 (top): order / duplicate violations are refused
    Contract("ofxtools.models.base:Aggregate._convert",
             args=HARNESS_ARGS, call=call_update_args,
             requires=["not spec.aggregate.is_unknown(SPEC, elem.tag)"],
             raises=[(OFXSpecError, "spec.aggregate.step_error(SPEC, LISTNAMES, accum, elem.tag)", "must"),
                     (OFXSpecError, "spec.aggregate.needs_subaggregate(UNSUPPORTED, spec.aggregate.attr_of(elem.tag), elem.text)", "may")],
             ensures=[("C03-value-routed", "spec.aggregate.same_accum(result, spec.aggregate.step_result(SPEC, LISTNAMES, UNSUPPORTED, accum, elem.tag, elem.text, " + AGGV + "))"),
                      ("no-warning", "len(ghost['warnings']) == 0"),
                      ("aux-child-element-not-written", "len(ghost.get('input_writes', [])) == 0")],
             notes="update_args: known tag - refines the spec fold step (order check, duplicate check, value routing); the child element is only read",
             props=["C04", "C03", "C07", "C01", "C17"], symbolic_only=True, aux=["aux-child-element-not-written"]),
]


# =============================================================================== _apply_args / _apply_residual_kwargs
member_cls_lower = z3.Function("member_classname_lower", V, V)


class AClassName(Abstract):
    def __init__(self, e):
        self.e = e

    def p_getattr(self, it, name):
        if name == "__name__":
            return ANameText(self.e)
        raise C.Unsupported(f"member.__class__.{name}")


class ANameText(Abstract):
    pytype = str

    def __init__(self, e):
        self.e = e

    def p_getattr(self, it, name):
        if name == "lower":
            return lambda: SVal(str, member_cls_lower(self.e))
        raise C.Unsupported(f"str.{name}")


class AAggMember(Abstract):
    """an instance of an arbitrary Aggregate subclass"""
    pytype = Aggregate

    def __init__(self, name):
        self.e = z3.Const(name, V)

    def p_isinstance(self, it, t):
        return issubclass(Aggregate, t) if isinstance(t, type) else any(issubclass(Aggregate, x) for x in t)

    def p_getattr(self, it, name):
        if name == "__class__":
            return AClassName(self.e)
        raise C.Unsupported(f"member.{name}")

    def p_str(self, it):
        return M.fresh_text(it, "memberstr")


class ASelf(Abstract):
    """an instance of an arbitrary aggregate class: class-level mappings abstract, list content a ghost list"""
    pytype = Aggregate

    def __init__(self, listagg_pred=None):
        self.appended = []
        self.listagg_pred = listagg_pred or APred(is_la)

    def p_getattr(self, it, name):
        if name == "__class__":
            return ACls()
        if name == "listaggregates":
            return self.listagg_pred
        if name == "listelements":
            return APred(is_le)
        if name == "spec":
            return ASpecMap()
        if name == "append":
            return lambda m: self.appended.append(m)
        raise C.Unsupported(f"self.{name}")


class ASpecMap(ASpec):
    """self.spec as a mapping: membership and keys()"""

    def p_getattr(self, it, name):
        if name == "keys":
            return lambda: ASpecKeys()
        return super().p_getattr(it, name)


class ASpecKeys(Abstract):
    def p_iter(self, it):
        raise C.Unsupported("iteration over the abstract spec")

    def p_tolist(self, it):
        return AOpaqueList()


class AOpaqueList(Abstract):
    """a list of which nothing is known; it can only be rendered into a message"""
    pytype = list

    def p_str(self, it):
        return M.fresh_text(it, "liststr")


class SelfArg(Arg):
    name = "self"

    def __init__(self, name="self"):
        self.name = name

    def make(self, it):
        return ASelf(), []


class AggMemberArg(Arg):
    def __init__(self, name="member"):
        self.name = name

    def make(self, it):
        return AAggMember(self.name), []


def call_apply_args(it, fn, a):
    f = B.Aggregate._apply_args
    it.call(f, [a[0], a[1]], {})
    return a[0].appended


def call_residual(key):
    def call(it, fn, a):
        f = B.Aggregate._apply_residual_kwargs
        return it.call(f, [a[0]], {key: a[1]} if key else {})
    return call


A0 = len(CONTRACTS)
CONTRACTS += [
    # 2 C04 (top): an aggregate list member is admitted iff its lower-cased class name is a list attribute
    Contract("ofxtools.models.base:Aggregate._apply_args",
             args=[SelfArg(), AggMemberArg(), EnvArg("LISTAGGS", APred(is_la))], call=call_apply_args,
             ensures=[("admitted", "spec.aggregate.member_name(member) in LISTAGGS"),
                      ("appended-exactly", "len(result) == 1 and result[0] is member")],
             raises=[(TypeError, "spec.aggregate.member_name(member) not in LISTAGGS", "must")],
             notes="loop body with a symbolic aggregate member", props=["C04", "C13"], symbolic_only=True),
    # 3 non-aggregate members must be str
    Contract("ofxtools.models.base:Aggregate._apply_args",
             args=[SelfArg(), TextArg("member"), EnvArg("LISTAGGS", APred(is_la))], call=call_apply_args,
             ensures=[("appended-exactly", "len(result) == 1 and result[0] is member")],
             notes="loop body with a str member", props=["C04"], symbolic_only=True),
    Contract("ofxtools.models.base:Aggregate._apply_args",
             args=[SelfArg(), OneOfArg("member", [3, 2.5, None, b"x", ("a",)]), EnvArg("LISTAGGS", APred(is_la))], call=call_apply_args,
             raises=[(TypeError, "True", "must")],
             notes="loop body with a member of another type", props=["C04"], symbolic_only=True),
    # 5 leftover keyword arguments are refused
    Contract("ofxtools.models.base:Aggregate._apply_residual_kwargs",
             args=[SelfArg(), OptArg(TextArg("value"))], call=call_residual("leftover"),
             raises=[(SyntaxError, "True", "may"), (OFXSpecError, "True", "may")],
             notes="any leftover kwarg raises (SyntaxError for list names, OFXSpecError otherwise)", props=["C04"], symbolic_only=True),
    Contract("ofxtools.models.base:Aggregate._apply_residual_kwargs",
             args=[SelfArg(), Const("value", None)], call=call_residual(None),
             ensures=[("returns", "result is None")], notes="no leftover kwargs", props=["C04"], symbolic_only=True),
]


# =============================================================================== __getattr__ (C16)
class ASub(Abstract):
    """an arbitrary sub-aggregate value: looking a name up on it finds a value, or fails with AttributeError,
    or with KeyError (an Element descriptor whose value was never stored)"""
    pytype = Aggregate

    def __init__(self, j, value):
        self.j = j; self.value = value

    def p_getattr_sym(self, it, name):
        if it.branch(self.j == 0):
            return self.value
        if it.branch(self.j == 1):
            raise C.Raised(ExcVal(AttributeError, ("no such attribute",)))
        raise C.Raised(ExcVal(KeyError, ("never assigned",)))


class ASelfGA(Abstract):
    """self in __getattr__: reading the sub-aggregate attribute named by the loop variable yields None, a
    sub-aggregate, or KeyError (a ListAggregate attribute: declared, never stored on the instance)"""
    pytype = Aggregate

    def __init__(self, k, sub):
        self.k = k; self.sub = sub; self.writes = []

    def p_getattr_sym(self, it, name):
        if it.branch(self.k == 0):
            return None
        if it.branch(self.k == 1):
            return self.sub
        raise C.Raised(ExcVal(KeyError, ("list attribute never assigned",)))

    def p_getattr(self, it, name):
        if name == "__class__":
            return ACls()
        if name == "__dict__":
            return ARecDict(self.writes)
        raise C.Unsupported(f"self.{name}")

    def p_setattr(self, it, name, value):
        self.writes.append((name, value))


class ARecDict(Abstract):
    """instance __dict__ of the abstract self: every store is recorded (frame condition: a lookup stores nothing)"""
    pytype = dict

    def __init__(self, writes):
        self.writes = writes

    def p_setitem(self, it, k, v):
        self.writes.append((k, v))

    def p_getitem(self, it, k):
        raise C.Raised(ExcVal(KeyError, ("not stored",)))

    def p_contains(self, it, item):
        return False


class GAArgs(Arg):
    name = "ga"

    def make(self, it):
        k, j = z3.Int("K"), z3.Int("J")
        # the stored value may be None (an optional element that was not set): still the value of that attribute
        val = SIte(z3.Bool("stored_value_is_none"), None, SVal(object, z3.Const("stored_value", V), {"eq": "term"}))
        self.k = k; self.j = j
        return {"K": SInt(k), "J": SInt(j), "VALUE": val, "self": ASelfGA(k, ASub(j, val))}, [k >= 0, k <= 2, j >= 0, j <= 2]


def call_getattr_body(it, fn, a):
    ga = a[0]
    f = B.Aggregate.__getattr__
    node = it.index.node_for(f)
    env = C.Env(None, B)
    env.vars.update({"self": ga["self"], "attr": SVal(str, z3.Const("attr_name", V))})
    out = it.exec_loop_body(node, 1, env, SVal(str, z3.Const("subaggregate_name", V)))
    return (out[0], out[1], len(ga["self"].writes))


def call_getattr_nosub(it, fn, a):
    class NoSubs(Abstract):
        pytype = Aggregate

        def p_getattr(self, it_, name):
            if name == "subaggregates":
                return []
            if name == "__class__":
                return ACls()
            raise C.Unsupported(name)
    return it.call(B.Aggregate.__getattr__, [NoSubs(), SVal(str, z3.Const("attr_name", V))], {})


G0 = len(CONTRACTS)
CONTRACTS += [
    Contract("ofxtools.models.base:Aggregate.__getattr__",
             args=[GAArgs()], call=call_getattr_body,
             ensures=[("first-definer-wins", "(ga['K'] == 1 and ga['J'] == 0 and result[0] == 'return' and spec.aggregate.same_value(result[1], ga['VALUE'])) or "
                                             "(not (ga['K'] == 1 and ga['J'] == 0) and result[0] in ('continue', 'next'))"),
                      ("C17-lookup-stores-nothing", "result[2] == 0")],
             notes="loop body of __getattr__ with a symbolic sub-aggregate: a definer returns the very value stored; anything else moves on; no exception escapes (raises: none allowed)",
             props=["C16", "C17"], symbolic_only=True),
    Contract("ofxtools.models.base:Aggregate.__getattr__",
             args=[Const("x", None)], call=call_getattr_nosub,
             raises=[(AttributeError, "True", "must")],
             notes="loop exhausted: AttributeError and nothing else", props=["C16"], symbolic_only=True),
]


# =============================================================================== to_etree / _listAppend (C01, C11)
import xml.etree.ElementTree as ET
from ofxtools import Types as T_
tree_of = z3.Function("to_etree_of", V, V)             # value.to_etree() of a sub-aggregate / member
unconv = z3.Function("unconvert_of", V, V, V)           # converter.unconvert(value) (converter identified by attribute name)
unconv_ok = z3.Function("unconvert_returns", V, V, z3.BoolSort())
upper_of = M.upper_f


class AChild:
    """a child appended to the root under construction"""

    def __init__(self, kind, tag=None, text=None, tree=None):
        self.kind = kind; self.tag = tag; self.text = text; self.tree = tree

    def key(self, it):
        if self.kind == "tree":
            return ("tree", self.tree)
        return ("leaf", self.tag, self.text)


class ARoot(Abstract):
    """the ET.Element being built: a ghost child list"""
    pytype = ET.Element

    def __init__(self):
        self.children = []

    def p_getattr(self, it, name):
        if name == "append":
            def append(child):
                if isinstance(child, SVal):
                    self.children.append(AChild("tree", tree=child.e))
                elif isinstance(child, ALeaf):
                    self.children.append(child.rec)
                else:
                    raise C.Unsupported("append of a non-abstract child")
            return append
        if name == "insert":
            raise C.Unsupported("root.insert")
        raise C.Unsupported(f"root.{name}")


class ALeaf(Abstract):
    pytype = ET.Element

    def __init__(self, rec):
        self.rec = rec

    def p_setattr(self, it, name, value):
        if name == "text":
            self.rec.text = toV(it, value)
            return
        raise C.Unsupported(f"leaf.{name} = ...")


def m_SubElement(it, args, kw):
    root, tag = args[0], args[1]
    if not isinstance(root, ARoot):
        if it.all_concrete(args, kw):
            return it.native(ET.SubElement, args, kw)
        raise C.Unsupported("SubElement on a concrete root with symbolic tag")
    rec = AChild("leaf", tag=toV(it, tag), text=NoneV)
    root.children.append(rec)
    return ALeaf(rec)


class AMemberTE(Abstract):
    """a list member when writing: an aggregate (to_etree abstract) """
    pytype = Aggregate

    def __init__(self, name):
        self.e = z3.Const(name, V)

    def p_getattr(self, it, name):
        if name == "to_etree":
            return lambda: SVal(ET.Element, tree_of(self.e))
        raise C.Unsupported(f"member.{name}")


class AConverter(Abstract):
    def __init__(self, ident):
        self.ident = ident

    def p_getattr(self, it, name):
        if name == "unconvert":
            def unconvert(value):
                v = toV(it, value)
                if not it.branch(unconv_ok(self.ident, v)):
                    raise C.Raised(ExcVal(ValueError, ("refused by the converter",)))
                return SVal(str, unconv(self.ident, v))
            return unconvert
        if name == "convert":
            def convert(value):
                value = it.force(value) if isinstance(value, SIte) else value
                try:
                    v = toV(it, value)
                except C.Unsupported:
                    try:
                        v = it.embed(value if not isinstance(value, SInt) else it.concrete_key(value))
                    except Exception:
                        v = it.fresh("member", "V")
                it.st.ghost.setdefault("converted", []).append(v)
                if not it.branch(conv_ok_l(self.ident, v)):
                    raise C.Raised(ExcVal(ValueError, ("refused by the converter",)))
                return SVal(object, conv_l(self.ident, v), {"eq": "term"})
            return convert
        raise C.Unsupported(f"converter.{name}")


conv_l = z3.Function("list_conv", V, V, V)
conv_ok_l = z3.Function("list_conv_accepts", V, V, z3.BoolSort())


class ASelfList(Abstract):
    """self for ElementList._listAppend: exactly one list attribute with an abstract converter"""
    pytype = B.ElementList

    def __init__(self):
        self.appended = []

    def p_getattr(self, it, name):
        if name == "listaggregates":
            return {"attrx": AConverter(it.lit("attrx"))}
        if name == "append":
            return lambda m: self.appended.append(m)
        raise C.Unsupported(f"self.{name}")


def call_listappend_agg(it, fn, a):
    it.models[ET.SubElement] = m_SubElement
    root = ARoot()
    it.call(B.Aggregate._listAppend, [ASelf(), root, a[0]], {})
    return root.children


def call_listappend_elem(it, fn, a):
    it.models[ET.SubElement] = m_SubElement
    root = ARoot()
    it.call(B.ElementList._listAppend, [ASelfList(), root, a[0]], {})
    return root.children


class MemberTEArg(Arg):
    def __init__(self, name="member"):
        self.name = name

    def make(self, it):
        return AMemberTE(self.name), []


def call_el_apply(it, fn, a):
    self_ = ASelfList()
    it.call(B.ElementList._apply_args, [self_] + list(a), {})
    return {"appended": self_.appended, "converted": it.st.ghost.get("converted", [])}


CONTRACTS += [
    Contract("ofxtools.models.base:ElementList._apply_args",
             args=[OneOfArg("m0", ["text", 3, 2.5, b"x", ("t",), True]), TextArg("m1")], call=call_el_apply,
             ensures=[("C04-every-member-goes-through-the-declared-converter", "len(result['converted']) == 2 and len(result['appended']) == 2"),
                      ("C03-what-the-converter-returns-is-stored", "spec.aggregate.all_converted(result['appended'], 'attrx')")],
             raises=[(ValueError, "True", "may")],
             notes="two positional members, the first of any Python type (text, int, float, bytes, tuple, bool), the second an arbitrary text: each is handed to the list element's converter - which may refuse it - and what it returns is what is appended",
             props=["C04", "C03"], symbolic_only=True),
]

L0 = len(CONTRACTS)
CONTRACTS += [
    Contract("ofxtools.models.base:Aggregate._listAppend",
             args=[MemberTEArg()], call=call_listappend_agg,
             ensures=[("appends-member-tree", "len(result) == 1 and spec.aggregate.is_tree_of(result[0], member)")],
             notes="exactly one child, the member's own tree, at the end", props=["C01", "C13"], symbolic_only=True),
    Contract("ofxtools.models.base:ElementList._listAppend",
             args=[TextArg("member")], call=call_listappend_elem,
             ensures=[("C11-text-is-unconvert", "len(result) == 1 and spec.aggregate.is_leaf(result[0], 'ATTRX', spec.aggregate.unconverted('attrx', member))")],
             raises=[(ValueError, "not spec.aggregate.unconvert_accepts('attrx', member)", "must")],
             notes="the element text is what the declared converter's unconvert returns for the member - and a member the converter refuses is refused",
             props=["C11", "C01"], symbolic_only=True),
]


# =============================================================================== to_etree outer loop body (C01, C11)
is_list_type = z3.Function("is_list_type", V, z3.BoolSort())


class AType(Abstract):
    """the value of the pair (attr, type_) that spec.items() yields: for a non-list attribute it IS the attribute's converter
    (cls._superdict[attr] is the same object), so converting through it is converting through that converter"""

    def __init__(self, e, attr=None):
        self.e = e; self.attr = attr

    def p_getattr(self, it, name):
        if name in ("unconvert", "convert") and self.attr is not None:
            return it.getattr(AConverter(toV(it, self.attr)), name)
        raise C.Unsupported(f"AType.{name}")

    def p_isinstance(self, it, t):
        if isinstance(t, tuple) and set(t) == {T_.ListAggregate, T_.ListElement}:
            return is_list_type(self.e)
        raise C.Unsupported(f"isinstance(type_, {t})")


class AAggValue(AMemberTE):
    def p_isinstance(self, it, t):
        return issubclass(Aggregate, t) if isinstance(t, type) else any(issubclass(Aggregate, x) for x in t)


class ASelfTE(Abstract):
    pytype = Aggregate

    def __init__(self, vk, aggv, otherv, members):
        self.vk = vk; self.aggv = aggv; self.otherv = otherv; self.members = members

    def p_getattr_sym(self, it, name):
        if it.branch(self.vk == 0):
            return None
        if it.branch(self.vk == 1):
            return self.aggv
        return self.otherv

    def p_iter(self, it):
        return list(self.members)

    def p_setattr(self, it, name, value):
        # frame (C17): writing a model must not change it
        it.st.ghost.setdefault("input_writes", []).append(("self", name))

    def p_getattr(self, it, name):
        if name == "_listAppend":
            # callee contract (proved separately above): exactly one child, the member's tree, appended at the end
            def la(root, member):
                root.children.append(AChild("tree", tree=tree_of(member.e)))
            return la
        if name == "__class__":
            return AClsTE()
        raise C.Unsupported(f"self.{name}")


class AClsTE(Abstract):
    pytype = type

    def p_getattr(self, it, name):
        if name == "_superdict":
            return AConvMap()
        if name == "__name__":
            return M.fresh_text(it, "clsname")
        raise C.Unsupported(f"cls.{name}")


class AConvMap(Abstract):
    def p_getitem(self, it, k):
        return AConverter(toV(it, k))


class TEArgs(Arg):
    name = "te"

    def make(self, it):
        vk = z3.Int("VK")
        aggv = AAggValue("agg_value")
        otherv = SVal(object, z3.Const("elem_value", V), {"eq": "term"})
        m0, m1 = AMemberTE("member0"), AMemberTE("member1")
        d = {"VK": SInt(vk), "AGG": aggv, "OTHER": otherv, "M0": m0, "M1": m1,
             "DO_LIST": SBool(z3.Bool("do_list0")), "ATTR": SVal(str, z3.Const("attr_name", V)),
             "TYPE": AType(z3.Const("type_", V), SVal(str, z3.Const("attr_name", V))),
             "self": ASelfTE(vk, aggv, otherv, [m0, m1])}
        return d, [vk >= 0, vk <= 2]


def call_to_etree_body(it, fn, a):
    te = a[0]
    it.models[ET.SubElement] = m_SubElement
    node = it.index.node_for(B.Aggregate.to_etree)
    root = ARoot()
    env = C.Env(None, B)
    env.vars.update({"self": te["self"], "cls": AClsTE(), "root": root, "do_list": te["DO_LIST"]})
    out = it.exec_loop_body(node, 1, env, (te["ATTR"], te["TYPE"]))
    return (out[0], root.children, env.vars["do_list"])


E0 = len(CONTRACTS)
CONTRACTS += [
    Contract("ofxtools.models.base:Aggregate.to_etree",
             args=[TEArgs()], call=call_to_etree_body,
             ensures=[
                 ("list-attribute", "not spec.aggregate.list_kind(te['TYPE']) or (result[2] == False and (len(result[1]) == (2 if te['DO_LIST'] else 0)) and (not te['DO_LIST'] or (spec.aggregate.is_tree_of(result[1][0], te['M0']) and spec.aggregate.is_tree_of(result[1][1], te['M1']))))"),
                 ("absent-child", "spec.aggregate.list_kind(te['TYPE']) or te['VK'] != 0 or (len(result[1]) == 0 and result[2] == te['DO_LIST'])"),
                 ("sub-aggregate", "spec.aggregate.list_kind(te['TYPE']) or te['VK'] != 1 or (len(result[1]) == 1 and spec.aggregate.is_tree_of(result[1][0], te['AGG']) and result[2] == te['DO_LIST'])"),
                 ("C11-element-text-is-unconvert", "spec.aggregate.list_kind(te['TYPE']) or te['VK'] != 2 or (len(result[1]) == 1 and spec.aggregate.is_leaf_for(result[1][0], te['ATTR'], te['OTHER']) and result[2] == te['DO_LIST'])"),
                 ("C17-model-not-written", "len(ghost.get('input_writes', [])) == 0"),
             ],
             raises=[(ValueError, "not spec.aggregate.list_kind(te['TYPE']) and te['VK'] == 2 and not spec.aggregate.unconvert_accepts_attr(te['ATTR'], te['OTHER'])", "must")],
             notes="body of the loop over spec.items() with a symbolic attribute: list attributes emit all members once (first list attribute only), absent children emit nothing, sub-aggregates emit their tree, elements emit <ATTR>converter.unconvert(value) - nothing else is written; two abstract members stand for the member sequence (the per-member step is Aggregate._listAppend's contract)",
             props=["C01", "C11", "C13", "C17"], symbolic_only=True),
]
