"""C11 - everything the serializer writes is lexically valid for its declared type (type level; wire level is added by props.c11 wire checks)."""
from props.common import run_contracts, replay_known_findings

LEVEL = "proof"
MODULES = ["contracts.types_basic", "contracts.types_decimal", "contracts.types_dt"]
TRUSTED = [
    "T-LIB: singledispatch resolution is executed by the real functools dispatcher on the symbolic argument's Python type",
    "T-LIB/unescape: saxutils.unescape(v, table) is an uninterpreted function per entity table; assumed: identity on texts without '&', never longer than its input, non-empty stays non-empty; the sequential replace chain equals the single-pass OFX entity decoding (cross-checked natively)",
    "T-LIB/int: int(text) on opaque texts is an uninterpreted partial function (is_intlit/str2int); every OFX integer text is accepted by it; str(int) is sign+digits and reads back",
    "T-LIB/decimal: decimal.Decimal(text), quantize, same_quantum, str are uninterpreted (structure proved, numeric laws evaluated natively on a sampled grid: bounded)",
    "T-LIB/datetime: exact integer model of datetime/timedelta/time in microseconds; ordinal of a date is the uninterpreted ymd2ord shared with the spec (cross-checked natively); strftime %Y%m%d%H%M%S for years 1000..9999",
    "T-LIB/re: symbolic backtracking matcher over the real compiled patterns (parsed by re._parser), exact for fixed-shape strings",
]


def run(rep, tier, seed):
    rep.trusted += TRUSTED
    rep.assumptions += [
        "proved domains: String/NagString/OneOf/Integer parameters symbolic (length 1..64 / None, required, 3-token enumeration with opaque tokens); texts are opaque (any length, any characters)",
        "String write-then-read is proved for values without '&'; values with '&' that is not an entity are covered by the bounded native evaluation only; values holding an entity: known finding",
        "Decimal numeric laws: bounded (native evaluation on sampled grid), never counted in obligations/discharged",
    ]
    for m in MODULES:
        run_contracts(rep, m, tier, seed)
    # to_etree writes nothing but converter.unconvert(value) into element text (L1, symbolic attribute), same for ElementList members
    run_contracts(rep, "contracts.aggregate", tier, seed)
    # the library's own body writer: data is written escaped for & < > and otherwise verbatim (shaped trees, symbolic data)
    run_contracts(rep, "contracts.writers", tier, seed)
    # ... and all four body writers against the strict reference tokenizer on enumerated trees (bounded)
    run_contracts(rep, "contracts.roundtrip_native", tier, seed, accept_props=["C01"])      # incl. whole files: data on the wire holds no raw & or <
    from props.tables import run_tables
    run_tables(rep, rep.prop)        # a token written is a token of the table: the tables themselves are well-formed
    from props.tables import run_warn_only_strings
    run_warn_only_strings(rep, rep.prop)      # a bounded string is declared strict, the reviewed warn-only declarations excepted
    replay_known_findings(rep)
