"""lean back end for the generic list lemmas (lemmas/*.lean, core Lean, no Mathlib)."""
import os, re, subprocess, time
from vlib.common import VERIF


def run_lean(rep, filename):
    path = os.path.join(VERIF, "lemmas", filename)
    src = open(path).read()
    names = re.findall(r"^theorem\s+(\w+)", src, flags=re.M)
    t = time.time()
    try:
        r = subprocess.run(["lean", path], capture_output=True, text=True, timeout=300)
        ok = r.returncode == 0 and "error" not in (r.stdout + r.stderr).lower() and "sorry" not in src
        out = (r.stdout + r.stderr).strip()
    except Exception as e:
        ok = False
        out = repr(e)
    dt = time.time() - t
    for n in names:
        full = f"{rep.prop}/lemma:{filename}:{n}"
        if ok:
            rep.ok(full, "lean", dt / max(1, len(names)), "lemma", f"lemmas/{filename}")
        else:
            rep.fail(full, "lean", out[-500:], dt, "lemma", f"lemmas/{filename}")
            rep.engine_error(f"lean rejected lemmas/{filename}: {out[-300:]}")
    rep.sample({"lean_file": filename, "theorems": names, "seconds": round(dt, 2)})
