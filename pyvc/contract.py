"""Contracts on real functions: one text, three consumers (symbolic proof, native
replay, run-time/bounded evaluation).

A Contract names a real function, describes the symbolic shape of its inputs
(which *is* its precondition domain, together with `requires`), and states
`ensures` / `raises` clauses as Python expressions over the parameters,
`result` and the spec functions (`spec.<module>.<fn>`), evaluated by the same
interpreter symbolically and by CPython natively.
"""
import ast, importlib, inspect, random, sys, time, traceback, types
import z3
from .values import *
from . import core as C
from . import models as M

UNICODE_RANGES = [(0, 0xD7FF), (0xE000, 0x10FFFF)]


class NotConcretizable(Exception):
    pass


# ------------------------------------------------------------------ arguments
class Arg:
    name = "?"

    def make(self, it):
        """-> (value, [assumptions])"""
        raise NotImplementedError

    def concretize(self, model, value):
        raise NotConcretizable(self.name)

    def samples(self, rng, n):
        return []

    def check(self, it, v):
        """condition (bool | z3 Bool) under which the actual value v lies in this descriptor's domain"""
        raise C.Unsupported(f"domain check for {type(self).__name__}")


class Const(Arg):
    def check(self, it, v):
        return M.equal(it, v, self.value)

    def __init__(self, name, value):
        self.name = name; self.value = value

    def make(self, it):
        return self.value, []

    def concretize(self, model, value):
        return self.value

    def samples(self, rng, n):
        return [self.value]


def charset_cond(c, charset):
    """charset: str of allowed chars | list of (lo, hi) code ranges"""
    if isinstance(charset, str):
        codes = sorted(set(ord(x) for x in charset))
        # compress to ranges
        ranges = []
        for k in codes:
            if ranges and ranges[-1][1] == k - 1:
                ranges[-1][1] = k
            else:
                ranges.append([k, k])
        charset = [tuple(r) for r in ranges]
    return z3.Or(*[(c == lo) if lo == hi else z3.And(c >= lo, c <= hi) for lo, hi in charset])


# code points that str methods / int() / float() treat specially although they are not ASCII digits or letters:
# decimal digits of other scripts (str.isdigit and int() take them), superscripts and fractions (isdigit / isnumeric only),
# separators and white space
AWKWARD_CODEPOINTS = [0x0660 + d for d in range(10)] + [0x06F0 + d for d in range(10)] + [0x0966 + d for d in range(10)] + [0xFF10 + d for d in range(10)] + \
                     [0xB2, 0xB3, 0xB9, 0xBD, 0x2070, 0x2460, 0x0A, 0x0D, 0x09, 0x20, 0xA0, 0x2028, 0x3000, 0x5F, 0x2D, 0x2B, 0x2E, 0x2C, 0x3A, 0x5B, 0x5D, 0x41, 0x7A, 0x30, 0x39]


def charset_sample(rng, charset):
    if isinstance(charset, str):
        return rng.choice(charset)
    if rng.random() < 0.3:
        inside = [c for c in AWKWARD_CODEPOINTS if any(lo <= c <= hi for lo, hi in charset)]
        if inside:
            return chr(rng.choice(inside))
    lo, hi = rng.choice(charset)
    edge = rng.random() < 0.4
    return chr(rng.choice([lo, hi]) if edge else rng.randint(lo, hi))


class StrArg(Arg):
    """string of symbolic characters; fixed length or minlen..maxlen (guarded slots)"""

    def __init__(self, name, length=None, minlen=None, maxlen=None, charset=None, per_pos=None):
        self.name = name
        self.minlen = length if length is not None else minlen
        self.maxlen = length if length is not None else maxlen
        self.charset = charset or UNICODE_RANGES
        self.per_pos = per_pos or {}      # position -> charset override

    def make(self, it):
        cs = [z3.Int(f"{self.name}_{i}") for i in range(self.maxlen)]
        assume = [charset_cond(c, self.per_pos.get(i, self.charset)) for i, c in enumerate(cs)]
        for i, c in enumerate(cs):
            cset = self.per_pos.get(i, self.charset)
            if isinstance(cset, str) and len(set(cset)) <= 96:
                it.domains[c] = sorted(set(ord(x) for x in cset))
                it.domain_ids[c.get_id()] = it.domains[c]
        if self.minlen == self.maxlen:
            return SStr([(True, c) for c in cs]), assume
        n = z3.Int(f"{self.name}_len")
        assume.append(z3.And(n >= self.minlen, n <= self.maxlen))
        return SStr([(True if i < self.minlen else n > i, c) for i, c in enumerate(cs)]), assume

    def check(self, it, v):
        if isinstance(v, SIte):
            return z3.If(v.c, zbool(self.check(it, v.a)), zbool(self.check(it, v.b)))
        if isinstance(v, str):
            v = SStr.lit(v)
        if not isinstance(v, SStr):
            return False
        n = M.slen(it, v)
        conds = [zint(n) >= self.minlen, zint(n) <= self.maxlen] if not isinstance(n, int) else [self.minlen <= n <= self.maxlen]
        if self.per_pos:
            v = M.resolve(it, v)
        for i, (g, c) in enumerate(v.items):
            cc = charset_cond(zint(c), self.per_pos.get(i, self.charset))
            conds.append(cc if g is True else z3.Implies(g, cc))
        r = zand(*[z3.simplify(zbool(x)) if not isinstance(x, bool) else x for x in conds])
        return r

    def concretize(self, model, value):
        out = []
        for g, c in value.items:
            if g is True or z3.is_true(model.eval(g, model_completion=True)):
                out.append(chr(model.eval(c, model_completion=True).as_long()))
        return "".join(out)

    def samples(self, rng, n):
        out = []
        for _ in range(n):
            ln = rng.randint(self.minlen, self.maxlen)
            out.append("".join(charset_sample(rng, self.per_pos.get(i, self.charset)) for i in range(ln)))
        return out


class IntArg(Arg):
    def __init__(self, name, lo=None, hi=None):
        self.name = name; self.lo = lo; self.hi = hi

    def make(self, it):
        x = z3.Int(self.name)
        a = []
        if self.lo is not None:
            a.append(x >= self.lo)
        if self.hi is not None:
            a.append(x <= self.hi)
        return SInt(x), a

    def check(self, it, v):
        ok, i = M.as_int(v)
        if not ok or isinstance(v, (bool, SBool)):
            return False
        conds = []
        if self.lo is not None:
            conds.append(zint(i) >= self.lo)
        if self.hi is not None:
            conds.append(zint(i) <= self.hi)
        return zand(*conds)

    def concretize(self, model, value):
        return model.eval(value.e, model_completion=True).as_long()

    def samples(self, rng, n):
        lo = self.lo if self.lo is not None else -10 ** 12
        hi = self.hi if self.hi is not None else 10 ** 12
        edges = [lo, hi, min(max(0, lo), hi), min(max(1, lo), hi), min(max(-1, lo), hi)]
        # every power of ten in range, with its neighbours, both signs: where digit counts change
        for k in range(0, 19):
            for sgn in (1, -1):
                for d in (-1, 0, 1):
                    v = sgn * (10 ** k + d)
                    if lo <= v <= hi and v not in edges:
                        edges.append(v)
        return edges + [rng.randint(lo, hi) for _ in range(max(0, n - len(edges)))]


class BoolArg(Arg):
    def __init__(self, name):
        self.name = name

    def check(self, it, v):
        return isinstance(v, (bool, SBool))

    def make(self, it):
        return SBool(z3.Bool(self.name)), []

    def concretize(self, model, value):
        return z3.is_true(model.eval(value.e, model_completion=True))

    def samples(self, rng, n):
        return [True, False]


class OptArg(Arg):
    """None or the inner argument"""

    def __init__(self, inner):
        self.inner = inner; self.name = inner.name

    def make(self, it):
        v, a = self.inner.make(it)
        isnone = z3.Bool(f"{self.name}_isnone")
        self._inner_v = v
        return SIte(isnone, None, v), a

    def check(self, it, v):
        if isinstance(v, SIte):
            return z3.If(v.c, zbool(self.check(it, v.a)), zbool(self.check(it, v.b)))
        if v is None:
            return True
        return self.inner.check(it, v)

    def concretize(self, model, value):
        if z3.is_true(model.eval(value.c, model_completion=True)):
            return None
        return self.inner.concretize(model, value.b)

    def samples(self, rng, n):
        return [None] + self.inner.samples(rng, n)


class OneOfArg(Arg):
    """one of finitely many concrete values (forked symbolically as an If-chain for ints/strs of equal shape, else enumerated)"""

    def __init__(self, name, values):
        self.name = name; self.values = list(values)

    def make(self, it):
        k = z3.Int(f"{self.name}_choice")
        v = self.values[-1]
        for i in range(len(self.values) - 2, -1, -1):
            v = SIte(k == i, self.values[i], v)
        return v, [k >= 0, k < len(self.values)]

    def check(self, it, v):
        return zor(*[M.equal(it, v, x) for x in self.values])

    def concretize(self, model, value):
        k = model.eval(z3.Int(f"{self.name}_choice"), model_completion=True).as_long()
        return self.values[min(max(k, 0), len(self.values) - 1)]

    def samples(self, rng, n):
        return list(self.values)


class TextArg(Arg):
    """opaque text of unknown shape"""

    def __init__(self, name, sampler=None, nonempty=False):
        self.name = name; self.sampler = sampler; self.nonempty = nonempty

    def make(self, it):
        t = z3.Const(self.name, V)
        return SVal(str, t), [tlen(t) >= (1 if self.nonempty else 0)]

    def check(self, it, v):
        return it.pytype_of(v) is str

    def samples(self, rng, n):
        if self.sampler:
            # the sampler's whole pool of awkward values first (the sweep uses every one of them), then random draws
            out = list(getattr(self.sampler, "pool", [])) + [self.sampler(rng) for _ in range(n * 2)]
            if self.nonempty:
                out = [x for x in out if x != ""] or ["x"]
            return out
        alpha = "aZ09 &<>;\"'é€\n\t."
        return ["" if not self.nonempty else "x"] + ["".join(rng.choice(alpha) for _ in range(rng.randint(1, 8))) for _ in range(n)]


class InstArg(Arg):
    """instance of a concrete repo class with (possibly symbolic) fields; pre-existing object (fresh=False)"""

    def __init__(self, name, cls, fields, build):
        self.name = name; self.cls = cls; self.fields = fields; self.build = build

    def make(self, it):
        vals = {}
        asm = []
        for k, a in self.fields.items():
            if isinstance(a, Arg):
                v, am = a.make(it)
                vals[k] = v; asm += am
            else:
                vals[k] = a
        return SObj(self.cls, vals, fresh=False, label=self.name), asm

    def concretize(self, model, value):
        kw = {}
        for k, a in self.fields.items():
            kw[k] = a.concretize(model, value.fields[k]) if isinstance(a, Arg) else a
        return self.build(**kw)

    def samples(self, rng, n):
        out = []
        for _ in range(max(4, n)):
            kw = {k: (rng.choice(a.samples(rng, 6)) if isinstance(a, Arg) else a) for k, a in self.fields.items()}
            try:
                out.append(self.build(**kw))
            except Exception:
                pass
        return out

    def check(self, it, v):
        return isinstance(v, SObj) and v.cls is self.cls or isinstance(v, self.cls)


class TupleArg(Arg):
    def __init__(self, name, items):
        self.name = name; self.items = items

    def make(self, it):
        vs = []; asm = []
        for a in self.items:
            v, am = a.make(it); vs.append(v); asm += am
        return tuple(vs), asm

    def concretize(self, model, value):
        return tuple(a.concretize(model, v) for a, v in zip(self.items, value))

    def samples(self, rng, n):
        return [tuple(rng.choice(a.samples(rng, 4)) for a in self.items) for _ in range(n)]


# ------------------------------------------------------------------- contract
class Contract:
    def __init__(self, target, args, requires=(), ensures=(), raises=(), props=(), kind="top",
                 modifies=(), call=None, notes="", native_only=False, setup=None, max_paths=None,
                 samples=200, kf=None, result_filter=None, split=(), shards=1, returns_expr=None, gen=None, requires_symbolic=(), tier="quick", symbolic_only=False, cases=None, aux=(), on_raise=()):
        """target: 'module:Qual.name'
        args: [Arg]  (positional parameters of the function, in order; self first for methods)
        requires: [expr]                      extra preconditions over the parameter names
        ensures: [(id, expr)]                 must hold on every normal return
        raises:  [(ExcClass, cond_expr, 'must'|'may')]
        call: optional callable(it, fn, argvalues) -> value, to invoke the target differently
        kf: [(id, expr)] known-finding carve-outs: inputs satisfying expr are excluded from the proof
            and replayed natively instead
        """
        self.target = target; self.args = list(args); self.requires = list(requires)
        self.ensures = list(ensures); self.raises = list(raises); self.props = list(props)
        self.kind = kind; self.modifies = list(modifies); self.call = call; self.notes = notes
        self.native_only = native_only; self.setup = setup; self.max_paths = max_paths
        self.nsamples = samples; self.kf = list(kf or [])
        self.split = list(split); self.shards = shards; self.returns_expr = returns_expr; self.gen = gen
        self.cases = cases          # callable(tier) -> list of argument lists: exhaustive enumeration of a stated small scope (engine R)
        self.symbolic_only = symbolic_only   # abstract harness: no native form, no native sampling
        self.on_raise = list(on_raise)   # [(id, expr)] must hold on every path that ends in an exception (over exc, ghost, the arguments)
        self.aux = list(aux)      # ids of ensures clauses that are *facts for a composition*, not claims: a failing one is recorded
        #                           (report.extra['aux']) and decided by the property's composition rule, never reported by itself
        self.frames_only = False  # derived contract: only the frame condition is generated (C17)
        self.tier = tier          # 'thorough': generated and discharged only in the thorough tier
        self.requires_symbolic = list(requires_symbolic)   # narrows the *proved* domain only (stated in notes); native evaluation ignores it

    def resolve(self):
        mod, qual = self.target.split(":")
        m = importlib.import_module(mod)
        o = m
        for part in qual.split("."):
            if isinstance(o, type):
                o = inspect.getattr_static(o, part)
            else:
                o = getattr(o, part)
        if isinstance(o, (staticmethod, classmethod)):
            o = o.__func__
        import functools as _ft
        if isinstance(o, _ft.singledispatchmethod):
            o = o.func
        if isinstance(o, property):
            o = o.fget
        return m, o


def meth(name):
    """call hook: invoke method `name` on the first argument (dispatch resolved like Python does)"""
    def call(it, fn, args):
        if it is None:
            return getattr(args[0], name)(*args[1:])
        return it.call(it.getattr(args[0], name), list(args[1:]), {})
    return call


def spec_namespace():
    import contracts.spec as sp
    return sp


def clause_env(contract, argvalues):
    env = {a.name: v for a, v in zip(contract.args, argvalues)}
    env["spec"] = spec_namespace()
    return env


def native_eval(expr, env):
    return eval(expr, {"__builtins__": __builtins__}, dict(env))


def frame_snapshot(v, depth=0, seen=None):
    """observable state of an argument (frame conditions, natively): element trees by their serialization, heap
    objects of the library by their instance dictionaries, containers by their items; None for immutable scalars.
    The position of a stream is not part of it (reading consumes; the bytes are what must not change)."""
    import io
    import xml.etree.ElementTree as _ET
    seen = seen if seen is not None else set()
    if v is None or isinstance(v, (int, float, str, bytes, bool, type, frozenset)) or depth > 6:
        return None
    if id(v) in seen:
        return ("cycle",)
    seen = seen | {id(v)}
    if isinstance(v, _ET.Element):
        return ("element", _ET.tostring(v))
    if isinstance(v, io.BytesIO):
        return ("bytes", v.getvalue())
    if isinstance(v, (list, tuple)):
        own = None
        if type(v) not in (list, tuple) and hasattr(v, "__dict__"):
            own = sorted((k, _snap_leaf(x, depth + 1, seen)) for k, x in vars(v).items())
        return ("seq", type(v).__name__, [_snap_leaf(x, depth + 1, seen) for x in v], own)
    if isinstance(v, set):
        return ("set", sorted(repr(_snap_leaf(x, depth + 1, seen)) for x in v))
    if isinstance(v, dict):
        return ("map", sorted((repr(k), _snap_leaf(x, depth + 1, seen)) for k, x in v.items()))
    mod = getattr(type(v), "__module__", "") or ""
    if mod.startswith("ofxtools") and hasattr(v, "__dict__"):
        return ("obj", type(v).__name__, sorted((k, _snap_leaf(x, depth + 1, seen)) for k, x in vars(v).items()))
    return None


def _snap_leaf(x, depth, seen):
    s = frame_snapshot(x, depth, seen)
    if s is None:
        try:
            return ("val", type(x).__name__, repr(x) if not callable(x) else getattr(x, "__qualname__", "callable"))
        except Exception:
            return ("val", type(x).__name__)
    return s


def native_check(contract, fn, concrete_args, frames_only=False, again=None):
    """run the real function natively on concrete args and evaluate the contract.
    -> (verdict, detail) verdict in ok | violated | pre-false | kf
    A contract holds for EVERY call: unless the contract is a scenario harness of its own (native_only), the very same
    call is made a second time on the same (unmodified: frames are checked) arguments and must satisfy the contract again
    - a result, an exception or a warning that depends on what was computed before shows here."""
    v, d = _native_check_once(contract, fn, concrete_args, frames_only)
    if again is None:
        again = not getattr(contract, "native_only", False) and getattr(contract, "repeat", True)
    if again and v == "ok":
        lit = getattr(native_check, "last_literal", None)
        v2, d2 = _native_check_once(contract, fn, concrete_args, frames_only)
        native_check.last_literal = lit
        if v2 == "violated":
            return "violated", f"the same call made a second time: {d2} (the first call: {d})"
    return v, d


def _native_check_once(contract, fn, concrete_args, frames_only=False):
    env = clause_env(contract, concrete_args)
    frames_only = frames_only or getattr(contract, "frames_only", False)
    try:
        for r in contract.requires:
            if not native_eval(r, env):
                return "pre-false", r
        for kid, kexpr in contract.kf:
            if native_eval(kexpr, env):
                return "kf", kid
    except (NameError, SyntaxError) as e:
        raise RuntimeError(f"contract clause cannot be evaluated: {e!r}")       # a broken contract, not a false precondition
    except Exception as e:
        return "pre-false", f"requires raised {e!r}"
    import copy, warnings
    before = [None if a.name in contract.modifies else frame_snapshot(v) for a, v in zip(contract.args, concrete_args)]
    # arguments with mutable state: their source form is taken BEFORE the call, so that a replay starts from the same state
    native_check.last_literal = arg_literal(list(concrete_args)) if any(b is not None for b in before) else None

    def frame_broken():
        for a, v, b in zip(contract.args, concrete_args, before):
            if b is not None and a.name not in contract.modifies:
                now = frame_snapshot(v)
                if now != b:
                    return f"frame: argument '{a.name}' was modified by the call (not in modifies): before={b!r:.300} after={now!r:.300}"
        return None
    try:
        with warnings.catch_warnings(record=True) as w:
            warnings.simplefilter("always")
            if contract.call:
                result = contract.call(None, fn, list(concrete_args))
            else:
                result = fn(*concrete_args)
        env["warnings_"] = [x.category for x in w]
        env["ghost"] = {"warnings": [(x.category, str(x.message)) for x in w]}
    except Exception as e:
        fb = frame_broken()
        if fb:
            return "violated", fb + f" (the call raised {type(e).__name__})"
        if frames_only:
            return "ok", f"raised {type(e).__name__}"
        env["exc"] = e
        allowed = False
        for cls, cond, mode in contract.raises:
            if isinstance(e, cls):
                try:
                    if native_eval(cond, env):
                        allowed = True
                except Exception as e2:
                    return "violated", f"raises-condition {cond!r} raised {e2!r}"
        if not allowed:
            return "violated", f"raised {type(e).__name__}: {e} outside the allowed conditions"
        return "ok", f"raised {type(e).__name__}"
    env["result"] = result
    fb = frame_broken()
    if fb:
        return "violated", fb
    if frames_only:
        return "ok", "returned"
    for cls, cond, mode in contract.raises:
        if mode == "must":
            try:
                if native_eval(cond, env):
                    return "violated", f"returned {result!r} although {cls.__name__} is required when {cond}"
            except Exception as e2:
                return "violated", f"raises-condition {cond!r} raised {e2!r}"
    for eid, expr in contract.ensures:
        if eid in getattr(contract, "aux", ()):
            continue
        try:
            if not native_eval(expr, env):
                return "violated", f"ensures[{eid}] false: {expr}; result={result!r}"
        except Exception as e2:
            return "violated", f"ensures[{eid}] raised {e2!r}; result={result!r}"
    return "ok", "returned"


def arg_literal(v):
    """source text that rebuilds a concrete argument in the replay snippet: literals as they are, element trees
    from their serialization, anything else (converter instances, datetimes, decimals, models) from its pickle"""
    import ast, pickle
    import xml.etree.ElementTree as _ET
    if isinstance(v, _ET.Element):
        return f"ET.fromstring({_ET.tostring(v)!r})"
    try:
        ast.literal_eval(repr(v))
        return repr(v)
    except Exception:
        pass
    if type(v) is list:
        return "[" + ", ".join(arg_literal(x) for x in v) + "]"
    if type(v) is tuple:
        return "(" + "".join(arg_literal(x) + ", " for x in v) + ")"
    if type(v) is dict:
        return "{" + ", ".join(f"{arg_literal(k)}: {arg_literal(x)}" for k, x in v.items()) + "}"
    try:
        return f"pickle.loads({pickle.dumps(v, protocol=4)!r})"
    except Exception:
        return repr(v)


class ArgList(list):
    """failing arguments together with their source form as it was before the call"""
    literal = None


def keep_args(args):
    r = ArgList(args)
    r.literal = getattr(native_check, "last_literal", None)
    return r


def replay_snippet(contract_module, contract_index, concrete_args):
    literal = getattr(concrete_args, "literal", None) or arg_literal(list(concrete_args))
    return (
        "import sys, json\n"
        "try:\n    import z3\nexcept ImportError:\n    sys.path.append('/opt/veriftools/pyvenv/lib/python3.11/site-packages')\n"
        f"import {contract_module} as cm\n"
        "from pyvc.contract import native_check\n"
        f"c = cm.CONTRACTS[{contract_index}]\n"
        "m, fn = c.resolve()\n"
        "import pickle\nimport xml.etree.ElementTree as ET\n"
        + "# args: " + repr(concrete_args).replace("\n", " ") + "\n"
        f"args = {literal}\n"
        "v, d = native_check(c, fn, args)\n"
        "print('REPLAY', v, d)\n"
        "sys.exit(17 if v == 'violated' else 0)\n"
    )


def clone_value(v, memo):
    """per-path copy of the mutable heap reachable from an argument (heap objects, harness objects, containers);
    symbolic scalars and z3 terms are immutable and shared"""
    import copy as _copy
    if isinstance(v, (SInt, SBool, SVal, SStr)) or v is None or isinstance(v, (int, str, bytes, float, bool, type)):
        return v
    k = id(v)
    if k in memo:
        return memo[k]
    if isinstance(v, SIte):
        r = SIte(v.c, None, None)
        memo[k] = r
        r.a = clone_value(v.a, memo); r.b = clone_value(v.b, memo)
        return r
    if isinstance(v, list):
        r = []
        memo[k] = r
        r.extend(clone_value(x, memo) for x in v)
        return r
    if isinstance(v, tuple) and type(v) is tuple:
        return tuple(clone_value(x, memo) for x in v)
    if isinstance(v, dict) and type(v) is dict:
        r = {}
        memo[k] = r
        for kk, x in v.items():
            r[kk] = clone_value(x, memo)
        return r
    if isinstance(v, Sym) and getattr(v, "_immutable", False):
        return v
    if isinstance(v, Sym) and hasattr(v, "__dict__"):
        r = _copy.copy(v)
        memo[k] = r
        for kk, x in list(v.__dict__.items()):
            if isinstance(x, (list, dict, tuple, Sym)):
                r.__dict__[kk] = clone_value(x, memo)
        return r
    return v


# ---------------------------------------------------------------- verification
class Verifier:
    def __init__(self, report, prop, contract_module, seed=0):
        self.report = report; self.prop = prop; self.cmod = contract_module; self.seed = seed
        self.it = C.Interp()

    def invoke(self, it, contract, fn, argvalues):
        # every explored path runs on its own copy of the argument heap; the clauses of that path see the same copy
        memo = {}
        args = [clone_value(v, memo) for v in argvalues]
        it.st.ghost["__args__"] = args
        if contract.call:
            return contract.call(it, fn, args)
        return it.call(fn, args, {})

    def verify(self, contract, index, shard=(0, 1)):
        rep = self.report
        it = self.it
        mod, fn = contract.resolve()
        fname = contract.target
        node = it.index.node_for(fn) if isinstance(fn, types.FunctionType) else None
        if node is not None:
            rep.note_function(fname, fn.__code__.co_filename, node.lineno, it.index.source_of(fn.__code__.co_filename, node))
        rng = random.Random(self.seed * 7919 + index)
        t0 = time.time()
        # ---- native cross-check on samples (bounded engine R; also the CPython cross-check of the models)
        self._shard = shard
        native_bad = self.native_samples(contract, fn, rng) if (shard[0] == 0 or contract.cases is not None) else []
        if contract.native_only:
            if native_bad:
                args, d = native_bad[0]
                full = f"{self.prop}/{fname}#{index}/bounded:native-contract-evaluation" + (f".shard{shard[0]}" if shard[1] > 1 else "")
                rep.violation(full, {"contract": fname, "clause": "native contract evaluation (bounded stand-in)", "args": repr(args), "native": d,
                                     "python": replay_snippet(self.cmod, index, args)})
            return
        self.install_callsite_contracts(contract, fn)
        # ---- symbolic
        it.current_target = fn
        self._used_callsite = False
        self._confirmed = False
        argvalues = []
        assumptions = []
        for a in contract.args:
            v, asm = a.make(it)
            argvalues.append(v); assumptions += asm
        paths0 = it.explore(lambda: self._pre(it, contract, argvalues), assumptions)
        # each path of the precondition evaluation gives a set of assumptions
        npaths = 0
        nob = 0
        failed = []
        unsupported = []
        canary_refuted = False
        canary_total = 0
        for p0i, p0 in enumerate(paths0):
            if p0i % shard[1] != shard[0]:
                continue
            if p0.kind == "unsupported":
                unsupported.append("requires: " + p0.value)
                continue
            if p0.kind == "raise" or p0.value is False:
                continue
            pre_pc = p0.pc if p0.value is True else p0.pc + [p0.value]
            paths = it.explore(lambda: self.invoke(it, contract, fn, argvalues), pre_pc,
                               max_paths=contract.max_paths or C.MAX_PATHS)
            for pi, p in enumerate(paths):
                npaths += 1
                if any(c[0] == "contract" for c in p.st.ghost.get("calls", [])):
                    self._used_callsite = True
                if p.kind == "unsupported":
                    unsupported.append(p.value)
                    continue
                obs = self.path_obligations(contract, argvalues, p)
                for oname, pc, claim, okind in obs:
                    nob += 1
                    full = f"{self.prop}/{fname}#{index}/{oname}/path{p0i}.{pi}"
                    if okind == "unsupported":
                        unsupported.append(f"{oname}: {claim}")
                        continue
                    if getattr(self, "_confirmed", False):
                        # a violation of this contract is already confirmed with a replayed input: the remaining
                        # obligations are not attempted (they are reported as not discharged, never as proved)
                        failed.append((full, oname, pc, claim, "not attempted after a confirmed violation of this contract", None, 0.0))
                        continue
                    status, model, dt = it.prove(pc, claim)
                    if status == "unknown":
                        # a solver time-out is not a verdict: one retry with a generous budget (a loaded machine must not
                        # flip a result), and if that is undecided too the obligation is reported as undecided - never
                        # as a violation
                        status, model, dt2 = it.prove(pc, claim, timeout_ms=120000)
                        dt += dt2
                        if status == "unknown":
                            rep.downgraded.append({"function": fname, "reason": [f"solver undecided within its budget ({dt:.0f} s): {oname}"],
                                                   "downgraded": "proof->undecided (solver budget)"})
                            nob -= 1
                            continue
                    if not status.startswith("discharged") and model is not None:
                        try:
                            conc = [a.concretize(model, v) for a, v in zip(contract.args, argvalues)]
                            if native_check(contract, fn, conc)[0] == "violated":
                                self._confirmed = True
                        except Exception:
                            pass
                    auxid = oname.split(":", 1)[1].split(".")[0] if oname.startswith("ensures:") else None
                    if auxid in contract.aux:
                        a = rep.extra.setdefault("aux", {}).setdefault(auxid, {"ok": 0, "failed": 0, "where": []})
                        if status.startswith("discharged"):
                            a["ok"] += 1
                        else:
                            a["failed"] += 1
                            if len(a["where"]) < 5:
                                a["where"].append(full)
                        continue
                    if status.startswith("discharged"):
                        rep.ok(full, {"discharged": "z3", "discharged-tab": "z3+tabulation", "discharged-cvc5": "cvc5"}[status], dt, contract.kind, fname)
                    else:
                        failed.append((full, oname, pc, claim, status, model, dt))
                    # canary: the negated clause must be refutable on at least one path
                    if okind == "ensures" and not canary_refuted:
                        canary_total += 1
                        s2, m2, _ = it.prove(pc, z3.Not(claim) if not isinstance(claim, bool) else (not claim))
                        if s2 == "failed":
                            canary_refuted = True
        it.current_target = None
        if contract.ensures and not contract.frames_only:
            rep.canaries[1] += 1
            if canary_refuted:
                rep.canaries[0] += 1
            elif not unsupported and not failed and shard[1] == 1:
                if canary_total == 0 and npaths > 0:
                    # the function never returns normally under its precondition although the contract expects results
                    full = f"{self.prop}/{fname}#{index}/vacuity:no-returning-path"
                    rep.fail(full, "z3", "every path under the precondition raises; the ensures clauses were never reached", 0.0, contract.kind, fname)
                    rep.violation(full, {"contract": fname, "clause": "no returning path", "note": "all paths raise"}, no_input=True)
                else:
                    rep.engine_error(f"canary verified for {fname}: negated ensures never refuted (vacuous proof?)")
        if npaths == 0 and not unsupported and shard[1] == 1:
            rep.engine_error(f"{fname}: precondition infeasible, zero paths")
        rep.sample({"function": fname, "paths": npaths, "obligations": nob,
                    "requires": contract.requires, "ensures": [e for _, e in contract.ensures],
                    "raises": [(c.__name__, cond, m) for c, cond, m in contract.raises]})
        # ---- failures (at most 3 reported per contract; the rest are recorded as failed obligations only)
        reported = 0
        for full, oname, pc, claim, status, model, dt in failed:
            if reported >= 3 or status.startswith("not attempted"):
                rep.fail(full, "z3", f"{status} (not triaged: earlier failures of this contract already reported)", dt, contract.kind, fname)
                continue
            self.handle_failure(contract, index, fn, argvalues, full, oname, status, model, dt, rng)
            reported += 1
        if native_bad and not failed:
            # the bounded native evaluation found a failing input that no failed obligation accounts for
            args, d = native_bad[0]
            full = f"{self.prop}/{fname}#{index}/bounded:native-contract-evaluation"
            payload = {"contract": fname, "clause": "native contract evaluation (bounded stand-in)", "args": repr(args), "native": d,
                       "python": replay_snippet(self.cmod, index, args)}
            rep.violation(full, payload)
            rep.extra.setdefault("bounded_violations", []).append(full)
            if not unsupported and npaths > 0 and not getattr(self, "_used_callsite", False):
                rep.extra.setdefault("warnings", []).append(
                    f"{fname}#{index}: all generated obligations discharged but the contract fails natively on {args!r} ({d}): engine or model library unsound for this function")
                rep.engine_error(f"{fname}#{index}: proof discharged but native evaluation of the same contract fails on {args!r}")
        if unsupported:
            # obligation could not be generated: downgrade to the bounded check already run above
            rep.downgraded.append({"function": fname, "reason": sorted(set(unsupported))[:5],
                                   "downgraded": "proof->bounded (unsupported construct or model domain)"})
            if not native_bad:
                # deeper bounded search
                bad = self.native_samples(contract, fn, rng, n=contract.nsamples * 10, label="fallback")
        return

    def install_callsite_contracts(self, current, current_fn):
        """other contracts of the same sidecar module that carry a functional result (returns_expr) are applied at
        call sites instead of the callee's body (modular verification); where no contract's precondition
        holds the body is interpreted"""
        import importlib
        it = self.it
        it.contracts.clear()
        cmod = importlib.import_module(self.cmod)
        by_fn = {}
        for c in cmod.CONTRACTS:
            if c.returns_expr is None and not (c.raises and not c.ensures):
                continue
            if c.native_only:
                continue
            try:
                _, f = c.resolve()
            except Exception:
                continue
            if f is current_fn:
                continue
            by_fn.setdefault(f, []).append(c)
        for f, cs in by_fn.items():
            it.contracts[f] = self.make_callsite(f, cs)

    def make_callsite(self, fn, cs):
        def apply(it, args, kwargs):
            if kwargs:
                raise C.Unsupported("keyword arguments at a contract call site")
            for c in cs:
                if len(args) != len(c.args):
                    continue
                try:
                    cond = zand(*[zbool(a.check(it, v)) if not isinstance(a.check(it, v), bool) else a.check(it, v) for a, v in zip(c.args, args)])
                    env = clause_env(c, list(args))
                    for r in c.requires:
                        t = it.truth(it.eval_src(r, env))
                        cond = zand(cond, t)
                except (C.Unsupported, C.Raised):
                    continue          # precondition not evaluable on these arguments: contract not applicable
                if cond is False:
                    continue
                if cond is True or it.branch(cond):
                    it.st.ghost["calls"].append(("contract", c.target))
                    for cls, rc, mode in c.raises:
                        t = it.truth(it.eval_src(rc, env))
                        if mode == "must":
                            if t is True or (t is not False and it.branch(t)):
                                raise C.Raised(ExcVal(cls, ("contract",)))
                    if c.returns_expr is None:
                        raise C.Unsupported("contract without functional result applied where it returns")
                    return it.eval_src(c.returns_expr, env)
            # no contract applies: interpret the body
            saved = it.contracts.pop(fn)
            try:
                return it.call(fn, list(args), {})
            finally:
                it.contracts[fn] = saved
        return apply

    def _pre(self, it, contract, argvalues):
        env = clause_env(contract, argvalues)
        cond = True
        for r in contract.requires + contract.requires_symbolic:
            t = it.truth(it.eval_src(r, env))
            cond = zand(cond, t) if not (isinstance(cond, bool) and isinstance(t, bool)) else (cond and t)
        for kid, kexpr in contract.kf:
            t = it.truth(it.eval_src(kexpr, env))
            cond = zand(cond, znot(t))
        if cond is not True and cond is not False:
            it.assume(cond)
            cond = True
        for sx in contract.split:          # case split: fork the proof on these conditions
            it.branch(it.truth(it.eval_src(sx, env)))
        return cond

    def path_obligations(self, contract, argvalues, p):
        """-> [(name, pc, claim, kind)]"""
        it = self.it
        env = clause_env(contract, p.st.ghost.get("__args__", argvalues))
        env["ghost"] = p.st.ghost
        out = []

        def eval_clause(name, expr, kind, negate=False):
            sub = it.explore(lambda: it.truth(it.eval_src(expr, env)), p.pc)
            for i, sp in enumerate(sub):
                nm = name if len(sub) == 1 else f"{name}.{i}"
                if sp.kind == "ret":
                    v = sp.value
                    if negate:
                        v = znot(v)
                    out.append((nm, sp.pc, v, kind))
                elif sp.kind == "raise":
                    out.append((nm, sp.pc, False, kind))
                else:
                    out.append((nm, sp.pc, sp.value, "unsupported"))
        # frame: every write of the path (normal return or exception) goes to an object allocated by the call
        # or named in modifies
        nframe = 0
        for obj, field in p.st.writes:
            if not obj.fresh and (obj.label, field) not in contract.modifies and obj.label not in contract.modifies:
                out.append((f"modifies:{obj.label}.{field}", p.pc, False, "frame")); nframe += 1
        if getattr(contract, "frames_only", False):
            if not nframe:
                out.append(("frame:no-write-outside-modifies", p.pc, True, "frame"))
            return out
        if p.kind == "ret":
            env["result"] = p.value
            for cls, cond, mode in contract.raises:
                if mode == "must":
                    eval_clause(f"must-raise:{cls.__name__}", cond, "raises", negate=True)
            for eid, expr in contract.ensures:
                eval_clause(f"ensures:{eid}", expr, "ensures")
        else:
            exc = p.value
            env["exc"] = exc
            for eid, expr in contract.on_raise:
                eval_clause(f"on-raise:{eid}", expr, "ensures")
            conds = [cond for cls, cond, mode in contract.raises if issubclass(exc.cls, cls)]
            if not conds:
                out.append((f"raises:{exc.cls.__name__}", p.pc, False, "raises"))
            else:
                expr = " or ".join(f"({c})" for c in conds)
                eval_clause(f"raises:{exc.cls.__name__}", expr, "raises")
        return out

    def native_samples(self, contract, fn, rng, n=None, label="samples"):
        rep = self.report
        n = n or contract.nsamples
        if contract.symbolic_only:
            return []
        if contract.cases is not None:
            bad = []
            evals = 0
            allcases = contract.cases(getattr(self.report, "tier", "quick"))
            sh = getattr(self, "_shard", (0, 1))
            for args in allcases[sh[0]::sh[1]]:
                v, d = native_check(contract, fn, args)
                if v == "pre-false":
                    continue
                evals += 1
                if v == "violated":
                    bad.append((keep_args(args), d))
            rep.add_bounded(contract.target, "R(native contract evaluation, exhaustive over the stated scope)", contract.notes or "enumerated scope", evals, len(bad))
            rep.crosscheck["samples"] += evals
            self._native_bad = getattr(self, "_native_bad", {})
            self._native_bad[contract.target] = bad
            return bad
        per = [a.samples(rng, max(4, n // 8)) for a in contract.args]
        if any(len(p) == 0 for p in per):
            rep.add_bounded(contract.target, "R(native contract evaluation)", "no sampler for an argument", 0, 0)
            return []
        bad = []
        evals = 0
        kf_hits = 0
        # every sample value of every argument is used at least once (edges are listed first by the samplers), then
        # random combinations
        sweep = []
        if contract.gen is None:
            for ai, pool in enumerate(per):
                for val in pool[:64]:
                    combo = [rng.choice(p) for p in per]
                    combo[ai] = val
                    sweep.append(combo)
        for i in range(n + len(sweep)):
            if i < len(sweep):
                args = sweep[i]
            else:
                args = [rng.choice(p) for p in per]
                if contract.gen is not None and (i % 4 != 3 or any(x is None for x in args)):
                    args = contract.gen(rng)
            v, d = native_check(contract, fn, args)
            if v == "pre-false":
                continue
            evals += 1
            if v == "kf":
                kf_hits += 1
            if v == "violated":
                bad.append((keep_args(args), d))
        rep.add_bounded(contract.target, "R(native contract evaluation)", f"{n} sampled inputs ({label}), seed {self.seed}", evals, len(bad),
                        note=(f"{kf_hits} inputs fell into known-finding carve-outs" if kf_hits else ""))
        rep.crosscheck["samples"] += evals
        self._native_bad = getattr(self, "_native_bad", {})
        self._native_bad[contract.target] = bad
        return bad

    def handle_failure(self, contract, index, fn, argvalues, full, oname, status, model, dt, rng):
        rep = self.report
        fname = contract.target
        detail = f"{status}"
        concrete = None
        if model is not None:
            try:
                concrete = [a.concretize(model, v) for a, v in zip(contract.args, argvalues)]
            except NotConcretizable:
                concrete = None
            except Exception as e:
                concrete = None
                detail += f"; concretize error {e!r}"
        verdict = None
        if concrete is not None:
            shown = repr(concrete)
            verdict, d = native_check(contract, fn, concrete)
            concrete = keep_args(concrete)
            detail += f"; model args={shown}; native: {verdict} ({d})"
        if verdict == "violated":
            rep.fail(full, "z3", detail, dt, contract.kind, fname, cex=concrete)
            payload = {"contract": fname, "clause": oname, "args": repr(concrete), "native": detail,
                       "python": replay_snippet(self.cmod, index, concrete),
                       "how": "run the 'python' snippet with PYTHONPATH=/repo:/verif under /venv/bin/python"}
            rep.violation(full, payload)
            return
        # no replayable counterexample from the model: look for a failing input with the bounded search
        bad = getattr(self, "_native_bad", {}).get(fname) or []
        searched = getattr(self, "_searched", set())
        self._searched = searched
        if not bad and (fname, index) not in searched:
            searched.add((fname, index))
            bad = self.native_samples(contract, fn, rng, n=contract.nsamples * 10, label="search after failed obligation")
        if bad:
            args, d = bad[0]
            rep.fail(full, "z3", detail + f"; failing input found by bounded search: {args!r} ({d})", dt, contract.kind, fname, cex=args)
            payload = {"contract": fname, "clause": oname, "args": repr(args), "native": d,
                       "python": replay_snippet(self.cmod, index, args), "solver": detail}
            rep.violation(full, payload)
            return
        if verdict in ("ok", "pre-false") and status == "failed":
            # the solver's model does not reproduce natively: the engine disagrees with CPython
            rep.fail(full, "z3", detail, dt, contract.kind, fname)
            rep.engine_error(f"{full}: counter-model does not replay natively ({detail}) - model library or engine is wrong for this function")
            return
        rep.fail(full, "z3", detail, dt, contract.kind, fname)
        payload = {"contract": fname, "clause": oname, "solver": detail,
                   "note": "obligation is no longer discharged; no failing input was found by the bounded search"}
        if model is not None:
            try:
                # the verifier's counter-model over the harness's symbolic constants (abstract arguments have no native form)
                payload["counter_model"] = {str(d): str(model[d])[:120] for d in sorted(model.decls(), key=str)[:80] if d.arity() == 0}
            except Exception:
                pass
        rep.violation(full, payload, no_input=True)
