"""C08 - improperly nested or truncated markup is never silently accepted as a tree."""
from props.common import run_contracts, replay_known_findings
from props.c10 import TRUSTED
from props.c02 import PARSER_TRUSTED

LEVEL = "proof"


def run(rep, tier, seed):
    rep.trusted += TRUSTED + PARSER_TRUSTED
    rep.assumptions += [
        "proved on the ghost builder: an end tag must name the innermost open element or ParseError is raised (a stray end tag on an empty stack reaches the C builder's IndexError); text after an end tag raises ParseError; close() raises ParseError while an element is open; _start pushes for a start tag without data, and emits a complete child for a data element with or without its end tag",
        "the fault space of whole documents is covered by the bounded fault enumeration: every rendering of every tree with <= 3 nodes (4 thorough) x truncation at each character, deletion / renaming / misspelling / duplication of each end tag, transposition of adjacent end tags, text after an end tag, a stray end tag before each tag, a second top-level element; oracle: strict reference tokenizer (faults that leave a valid body, e.g. deleting a data element's end tag, must still give that body's tree)",
    ]
    run_contracts(rep, "contracts.parser", tier, seed)
    run_contracts(rep, "contracts.parser_native", tier, seed)
    replay_known_findings(rep)
