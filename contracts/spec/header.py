"""OFX header rules (OFX 1.6 section 2.2 / OFX 2.x section 2.2), from the property statement."""
from ofxtools.header import OFXHeaderV1 as V1, OFXHeaderV2 as V2, OFXHeaderError

V2_VERSIONS = (200, 201, 202, 203, 210, 211, 220)
V1_VERSIONS = (102, 103, 151, 160)
SECURITY = ("NONE", "TYPE1")
ENCODING = ("USASCII", "UNICODE", "UTF-8")
CHARSET = ("ISO-8859-1", "1252", "NONE")


def kind_for(version):
    """1 for 1xx (flat text header), 2 for 2xx (XML declarations), 0 otherwise"""
    return 1 if 100 <= version <= 199 else (2 if 200 <= version <= 299 else 0)


def v1_text(version, security, oldfileuid, newfileuid, encoding="USASCII", charset="NONE"):
    """the flat-text header the spec prescribes (CRLF separated, blank line after)"""
    return ("OFXHEADER:100\r\nDATA:OFXSGML\r\nVERSION:" + str(version) + "\r\nSECURITY:" + security + "\r\nENCODING:" + encoding
            + "\r\nCHARSET:" + charset + "\r\nCOMPRESSION:NONE\r\nOLDFILEUID:" + oldfileuid + "\r\nNEWFILEUID:" + newfileuid + "\r\n\r\n")


def v2_text(version, security, oldfileuid, newfileuid):
    return ('<?xml version="1.0" encoding="UTF-8" standalone="no"?>\r\n<?OFX OFXHEADER="200" VERSION="' + str(version)
            + '" SECURITY="' + security + '" OLDFILEUID="' + oldfileuid + '" NEWFILEUID="' + newfileuid + '"?>\r\n')


CODEC_OF = {"ISO-8859-1": "latin_1", "1252": "cp1252", "NONE": "utf_8"}


def decoded(body, charset):
    """the body bytes decoded with the character set the header declares"""
    return body.decode(CODEC_OF[charset])
