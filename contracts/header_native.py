"""Bounded checks (engine R) for parse_header (property C05): exhaustively enumerated header layouts x character
sets x bodies, through the real parse_header and OFXTree.parse, against a reference splitter written from the
statement: fields equal to those in the file; body = every character from the first '<' to the last '>' decoded
with the declared character set."""
import io, itertools
from pyvc.contract import *

V1_FIELDS = [("OFXHEADER", "100"), ("DATA", "OFXSGML"), ("VERSION", "102"), ("SECURITY", "NONE"), ("ENCODING", "USASCII"),
             ("CHARSET", "1252"), ("COMPRESSION", "NONE"), ("OLDFILEUID", "NONE"), ("NEWFILEUID", "NONE")]
CHARSETS = {"1252": "cp1252", "ISO-8859-1": "latin_1", "NONE": "utf_8"}
BODY_ATOMS = ["a", "é", "€", "\n", "\r", " "]


def v1_file(sep, blanks, lead, gap, charset, encoding, uid, body, compression=True):
    fields = [(k, v) for k, v in V1_FIELDS if compression or k != "COMPRESSION"]
    # (the file's two UIDs: the new one as given; the old one too when the given text is one of the words a header is made of)
    fields = [(k, (charset if k == "CHARSET" else encoding if k == "ENCODING" else uid if (k == "NEWFILEUID" or (k == "OLDFILEUID" and (uid.isupper() or "FILEUID" in uid))) else v)) for k, v in fields]
    head = sep.join(f"{k}:{' ' * blanks}{v}" for k, v in fields)
    text_before = (lead if isinstance(lead, str) else "\r\n" * lead) + head + gap
    return text_before.encode("ascii") + body.encode(CHARSETS[charset]), dict(fields)


def v2_file(quote, layout, body, version="203"):
    # quote: one quote character for every attribute, or a string of quote characters used in turn (mixed styles)
    qs = iter(quote * 8)

    def at(name, val):
        q = next(qs)
        return f"{name}={q}{val}{q}"
    x = "<?xml " + " ".join([at("version", "1.0"), at("encoding", "UTF-8"), at("standalone", "no")]) + "?>"
    o = "<?OFX " + " ".join([at("OFXHEADER", "200"), at("VERSION", version), at("SECURITY", "NONE"), at("OLDFILEUID", "NONE"), at("NEWFILEUID", "abc-1")]) + "?>"
    sep = {"one-line": "", "lf": "\n", "crlf": "\r\n"}[layout]
    return (x + sep + o + sep + body).encode("utf_8"), {"VERSION": version, "NEWFILEUID": "abc-1"}


def expected_body(body):
    i, j = body.find("<"), body.rfind(">")
    return body[i:j + 1]


def check_v1(it, fn, a):
    sep, blanks, lead, gap, charset, encoding, uid, body, compression = a
    from ofxtools.header import parse_header
    data, fields = v1_file(sep, blanks, lead, gap, charset, encoding, uid, body, compression)
    try:
        first, _ = parse_header(io.BytesIO(data))
        # what a caller does with the header it was handed (here: rotating the file ids) is its own business: the
        # next file parsed - the same bytes again - reports what the FILE says
        try:
            first.oldfileuid, first.newfileuid = first.newfileuid, "CALLER-CHANGED-THIS"
        except Exception:
            pass
        header, msg = parse_header(io.BytesIO(data))
    except Exception as ex:
        return [f"{type(ex).__name__}: {ex}"]
    problems = []
    # what the logging configuration is (ofxget -vv turns DEBUG on) is not an input of the parser
    import logging
    lg = logging.getLogger("ofxtools")
    was_disabled, was_level = logging.root.manager.disable, lg.level
    try:
        logging.disable(logging.NOTSET); lg.setLevel(logging.DEBUG)
        if not lg.handlers:
            lg.addHandler(logging.NullHandler())
        try:
            h3, msg3 = parse_header(io.BytesIO(data))
            if msg3 != msg or str(h3) != str(header):
                problems.append(f"with DEBUG logging on, the same file gives body {msg3!r} (otherwise {msg!r})")
        except Exception as ex:
            problems.append(f"with DEBUG logging on: {type(ex).__name__}: {ex}")
    finally:
        lg.setLevel(was_level); logging.disable(was_disabled)
    if header is first:
        problems.append("two parses returned the same header object")
    if msg != expected_body(body):
        problems.append(f"body {msg!r} != {expected_body(body)!r}")
    got = {"VERSION": str(header.version), "CHARSET": header.charset, "ENCODING": header.encoding, "NEWFILEUID": header.newfileuid,
           "SECURITY": header.security, "OLDFILEUID": header.oldfileuid if fields.get("OLDFILEUID") != "CALLER" else fields.get("OLDFILEUID")}
    for k, v in got.items():
        if fields.get(k, v) != v:
            problems.append(f"{k}: {v!r} != {fields[k]!r}")
    return problems


def check_v2(it, fn, a):
    quote, layout, body = a
    from ofxtools.header import parse_header
    data, fields = v2_file(quote, layout, body)
    try:
        first, _ = parse_header(io.BytesIO(data))
        try:
            first.newfileuid = "CALLER-CHANGED-THIS"
        except Exception:
            pass
        header, msg = parse_header(io.BytesIO(data))
    except Exception as ex:
        return [f"{type(ex).__name__}: {ex}"]
    problems = []
    if msg != expected_body(body):
        problems.append(f"body {msg!r} != {expected_body(body)!r}")
    if str(header.version) != fields["VERSION"] or header.newfileuid != fields["NEWFILEUID"]:
        problems.append(f"fields: version {header.version} newfileuid {header.newfileuid!r}, the file says {fields}")
    return problems


def bodies(tier):
    n = 3 if tier == "thorough" else 2
    out = []
    for k in range(0, n + 1):
        for w in itertools.product(BODY_ATOMS, repeat=k):
            out.append("<OFX>" + "".join(w) + "</OFX>")
    out += ["<OFX>x</OFX>\r\n", "<OFX>x</OFX>  \n\n"]
    # texts whose bytes in a one-byte character set happen to be well-formed UTF-8 (and the other way round): what the
    # header DECLARES decides how the body is read, not what the bytes look like
    # a byte order mark is a character like any other once the body has begun (U+FEFF in UTF-8; the same three bytes read as
    # three characters in a one-byte character set)
    out += ["<OFX>a\ufeffb</OFX>", "<OFX>\ufeff</OFX>", "<OFX>\u00ef\u00bb\u00bfx</OFX>"]
    # character-exact: text that is not in a Unicode normal form stays as it is (base letter + combining mark, OHM SIGN, ANGSTROM SIGN)
    out += ["<OFX>e\u0301 \u2126 \u212b</OFX>", "<OFX>A\u030a</OFX>"]
    out += ["<OFX>Caf\u00c3\u00a9 \u00c2\u00a35</OFX>", "<OFX>\u00e2\u201a\u00ac</OFX>", "<OFX>\u00c3\u00a9</OFX>", "<OFX>\u00c3\u00a9 and \u00e9</OFX>"]
    return out


def encodable(body, charset):
    try:
        body.encode(CHARSETS[charset])
        return True
    except UnicodeEncodeError:
        return False


def cases_v1(tier):
    out = []
    for sep in ("\r\n", "\n", "\r", ""):
        for blanks in (0, 1, 3):
            for lead in (0, 1, 7, "\r", "\n\n", "\r\r", " "):
                for gap in ("", "\r\n", "\r\n\r\n\r\n", "\n", "\r"):
                    for charset in CHARSETS:
                        for body in bodies(tier):
                            if not encodable(body, charset):
                                continue
                            out.append([sep, blanks, lead, gap, charset, "USASCII", "NONE", body, True])
    # field-value variation on a few layouts
    for sep in ("\r\n", ""):
        for uid in ("a", "A-b_9" * 7 + "x", "NEWFILEUID", "OLDFILEUID", "OFXHEADER", "batch_NEWFILEUID-7", "CHARSET"):
            for enc in ("USASCII", "UNICODE", "UTF-8"):
                for charset in CHARSETS:
                    for comp in (True, False):
                        for body in ("<OFX>é</OFX>", "<OFX>a</OFX>"):
                            if encodable(body, charset):
                                out.append([sep, 0, 0, "\r\n\r\n", charset, enc, uid, body, comp])
    return out


def cases_v2(tier):
    return [[q, lay, b] for q in ('"', "'", "\"'", "'\"\"") for lay in ("one-line", "lf", "crlf") for b in bodies(tier)]


class A_(Arg):
    def __init__(self, name):
        self.name = name


CONTRACTS = [
    Contract("ofxtools.header:parse_header", args=[A_(n) for n in ("sep", "blanks", "lead", "gap", "charset", "encoding", "uid", "body", "compression")],
             call=check_v1, ensures=[("fields-and-exact-body", "result == []")], cases=cases_v1, native_only=True, shards=16,
             notes="v1: separators {CRLF, LF, CR, none} x blanks after colon {0,1,3} x leading blank lines {0,1,7 CRLF; CR; 2 LF; 2 CR; one space} x gap before body {none, 1, 3 blank lines, LF, CR} x 3 character sets x bodies '<OFX>'+w+'</OFX>' with w over {a, é, €, LF, CR, space}, |w| <= 2 (3 thorough), plus trailing whitespace; ENCODING / UID / COMPRESSION variation",
             props=["C05"]),
    Contract("ofxtools.header:parse_header", args=[A_("quote"), A_("layout"), A_("body")],
             call=check_v2, ensures=[("fields-and-exact-body", "result == []")], cases=cases_v2, native_only=True, shards=4,
             notes="v2: quotes {double, single, alternating per attribute (two patterns)} x {one line, LF, CRLF between declarations and body} x the same bodies",
             props=["C05"]),
]


# ------------------------------------------------------------------------------------------ a stray byte in the header
def check_stray_byte(it, fn, a):
    """a v1 header in which one byte outside ASCII stands inside a field's value or name: the file is refused - or, where the
    header syntax admits the character (the two UIDs take any word character), the field reported holds it"""
    field, byte, where, sep = a
    from ofxtools.header import parse_header
    fields = [(k, ("abc-1" if k == "NEWFILEUID" else "old-2" if k == "OLDFILEUID" else v)) for k, v in V1_FIELDS]
    lines = []
    for k, v in fields:
        if k == field:
            if where == "value-middle":
                v = v[:len(v) // 2].encode("ascii") + bytes([byte]) + v[len(v) // 2:].encode("ascii")
            elif where == "value-end":
                v = v.encode("ascii") + bytes([byte])
            else:
                k_ = k[:2].encode("ascii") + bytes([byte]) + k[2:].encode("ascii")
                lines.append(k_ + b":" + v.encode("ascii")); continue
            lines.append(k.encode("ascii") + b":" + v)
        else:
            lines.append(f"{k}:{v}".encode("ascii"))
    data = sep.encode("ascii").join(lines) + b"\r\n\r\n<OFX>x</OFX>"
    try:
        header, body = parse_header(io.BytesIO(data))
    except Exception:
        return []
    ch = bytes([byte]).decode("latin_1")
    got = {"OLDFILEUID": header.oldfileuid, "NEWFILEUID": header.newfileuid}.get(field)
    if where != "name" and got is not None and ch in str(got):
        return []                     # admitted by the syntax and reported as it stands in the file
    return [f"a {field} field with the byte {byte:#x} in its {where} is accepted: {field} reported as "
            f"{getattr(header, field.lower(), None)!r}, body {body!r}"]


def cases_stray(tier):
    out = []
    for field, _ in V1_FIELDS:
        for byte in (0xE9, 0xFF, 0xA0, 0x85):
            for where in ("value-middle", "value-end", "name"):
                if where == "value-end" and byte in (0xA0, 0x85):
                    continue          # in latin-1 these are white space: blanks after a value are part of the header syntax
                for sep in ("\r\n", "\n"):
                    out.append([field, byte, where, sep])
    return out


CONTRACTS.append(
    Contract("ofxtools.header:parse_header", args=[A_("field"), A_("byte"), A_("where"), A_("sep")], call=check_stray_byte,
             ensures=[("a-corrupted-header-is-refused-or-reported-as-it-stands", "result == []")], cases=cases_stray, native_only=True, shards=4,
             notes="every v1 field x a byte outside ASCII (e-acute, 0xFF, no-break space, NEL) in the middle / at the end of its value or inside its name x CRLF / LF",
             props=["C05", "C12"]))
