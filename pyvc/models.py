"""Model library (T-LIB): operators, builtins and str/list/dict methods on symbolic values.

Every model is either exact on a stated sub-domain and raises Unsupported when the
path condition allows values outside it, or returns a fresh unconstrained value
(sound over-approximation).  The models are differential-tested against CPython
by pyvc.selftest on every run.
"""
import ast, builtins, math, operator, types
import z3
from .values import *
from . import core as C

# uninterpreted helpers over opaque texts
str2int = z3.Function("str2int", V, z3.IntSort())
is_intlit = z3.Function("is_intlit", V, z3.BoolSort())
int2str = z3.Function("int2str", z3.IntSort(), V)
pow10 = z3.Function("pow10", z3.IntSort(), z3.IntSort())
lower_f = z3.Function("lower_f", V, V)
upper_f = z3.Function("upper_f", V, V)
strip_f = z3.Function("strip_f", V, V)
concat_f = z3.Function("concat_f", V, V, V)
substr_in = z3.Function("substr_in", V, V, z3.BoolSort())
ofx_intlit = z3.Function("ofx_intlit", V, z3.BoolSort())      # "optional sign followed by decimal digits"


def Unsupported(msg):
    return C.Unsupported(msg)


def Raised(cls, *args):
    return C.Raised(ExcVal(cls, args))


# ---------------------------------------------------------------- string utils
def to_sstr(v):
    if isinstance(v, str):
        return SStr.lit(v)
    return v


def resolve(it, s):
    """fork until every guard is decided; -> fixed SStr"""
    s = to_sstr(s)
    if s.fixed():
        return s
    cache = it.st.ghost.setdefault("_resolved", {})
    hit = cache.get(id(s))
    if hit is not None and hit[0] is s:
        return hit[1]
    out = []
    for g, c in s.items:
        if g is True or it.branch(g):
            out.append((True, c))
    r = SStr(out)
    cache[id(s)] = (s, r)
    return r


def slen(it, s):
    if s.fixed():
        return len(s.items)
    return SInt(z3.Sum([z3.If(g, 1, 0) if g is not True else z3.IntVal(1) for g, _ in s.items]))


def code_eq(x, y):
    if isinstance(x, int) and isinstance(y, int):
        return x == y
    return x == y


def streq(it, a, b):
    """-> bool | z3 Bool.  a, b: SStr | str | SVal(str)"""
    if isinstance(a, SVal) or isinstance(b, SVal):
        for x, y in ((a, b), (b, a)):
            if isinstance(x, SVal) and (y == "" or (isinstance(y, SStr) and y.fixed() and not y.items)):
                return tlen(x.e) == 0          # the empty text is the only text of length 0
        ea = a.e if isinstance(a, SVal) else text_term(it, a)
        eb = b.e if isinstance(b, SVal) else text_term(it, b)
        return ea == eb
    a = to_sstr(a); b = to_sstr(b)
    if a.fixed() and b.fixed():
        if len(a.items) != len(b.items):
            return False
        return zand(*[code_eq(x, y) for (_, x), (_, y) in zip(a.items, b.items)])
    # guarded: compare without forking when one side is fixed: the guarded side must have exactly
    # len(fixed) present chars, matching in order.  general case: fork.
    a = resolve(it, a); b = resolve(it, b)
    return streq(it, a, b)


def text_term(it, s):
    """z3 term of sort V for a concrete text; symbolic shaped strings cannot be embedded"""
    if isinstance(s, str):
        return it.lit(s)
    if isinstance(s, SStr):
        if s.concrete():
            return it.lit(s.pystr())
        raise Unsupported("shaped symbolic string compared with opaque text")
    if isinstance(s, SVal):
        return s.e
    raise Unsupported(f"text_term of {type(s).__name__}")


ASCII_WS = (9, 10, 11, 12, 13, 28, 29, 30, 31, 32)


def in_codes(c, codes):
    return zor(*[c == k for k in codes])


def parse_int(it, s, base):
    s = resolve(it, s)
    if s.concrete():
        return it.native(int, [s.pystr(), base], {})
    codes = [c for _, c in s.items]
    n = len(codes)
    if n == 0:
        raise Raised(ValueError, "invalid literal for int()")
    if base not in (10, 36):
        raise Unsupported("int() base")
    neg = False
    start = 0

    def digit_cond(c):
        d = z3.And(c >= 48, c <= 57)
        if base == 36:
            d = z3.Or(d, z3.And(c >= 65, c <= 90), z3.And(c >= 97, c <= 122))
        return d

    def digit_val(c):
        if isinstance(c, int):
            return int(chr(c), base)
        if base == 36:
            return z3.If(c <= 57, c - 48, z3.If(c <= 90, c - 55, c - 87))
        return c - 48

    def reject(c):
        # c is not a digit here.  ValueError iff inside the modelled domain
        if isinstance(c, int):
            outside = c >= 128 or c in ASCII_WS or c == 95
        else:
            outside = zor(c >= 128, in_codes(c, ASCII_WS), c == 95, c < 0)
        if it.branch(outside):
            raise Unsupported("int(): whitespace/underscore/non-ASCII character outside the modelled domain")
        raise Raised(ValueError, "invalid literal for int()")

    c0 = codes[0]
    issign = (c0 in (43, 45)) if isinstance(c0, int) else z3.Or(c0 == 43, c0 == 45)
    if it.branch(issign):
        if n == 1:
            raise Raised(ValueError, "invalid literal for int()")
        negc = (c0 == 45)
        start = 1
    else:
        negc = False
    acc = 0
    for c in codes[start:]:
        ok = (48 <= c <= 57 or (base == 36 and (65 <= c <= 90 or 97 <= c <= 122))) if isinstance(c, int) else digit_cond(c)
        if not it.branch(ok):
            reject(c)
        acc = acc * base + digit_val(c)
    if isinstance(acc, int) and isinstance(negc, bool):
        return -acc if negc else acc
    acc = zint(acc)
    if negc is False:
        return SInt(acc)
    return SInt(z3.If(negc, -acc, acc))


def _free_vars(e, acc=None, seen=None):
    acc = set() if acc is None else acc
    seen = set() if seen is None else seen
    i = e.get_id()
    if i in seen:
        return acc
    seen.add(i)
    if z3.is_const(e) and e.decl().kind() == z3.Z3_OP_UNINTERPRETED:
        acc.add(i)
    for c in e.children():
        _free_vars(c, acc, seen)
    return acc


def _digits(it, a, k):
    """the k decimal digits of a (0 <= a < 10**k), most significant first, as z3 Int terms.
    Two exact encodings: div/mod terms when a depends only on finite-domain variables (so that the
    tabulation rewrite applies), otherwise fresh digit variables tied to a by one linear equation."""
    if k == 1:
        return [a]
    fin = {v.get_id() for v in it.domains}
    if fin and _free_vars(a) <= fin:
        return [(a / (10 ** (k - 1 - i))) % 10 if i < k - 1 else a % 10 for i in range(k)]
    ds = [it.fresh("dg") for _ in range(k)]
    it.assume(z3.And(*[z3.And(d >= 0, d <= 9) for d in ds]))
    it.assume(a == z3.Sum([d * (10 ** (k - 1 - i)) for i, d in enumerate(ds)]))
    return ds


def int_to_sstr(it, e, width=None, pad=48):
    """decimal rendering of a z3 Int as guarded digits; needs a provable bound"""
    e = z3.simplify(e)
    for k in range(1, 8):
        if it.valid(z3.And(e >= 0, e < 10 ** k)):
            k = max(k, width or 0)
            ds = _digits(it, e, k)
            items = []
            for i in range(k):
                p = 10 ** (k - 1 - i)
                if width is not None and (k - i) <= width:
                    g = True
                else:
                    g = True if i == k - 1 else (e >= p)
                items.append((g, 48 + ds[i]))
            return SStr(items)
    for k in range(1, 8):
        if it.valid(z3.And(e > -(10 ** k), e < 10 ** k)):
            if width is not None:
                raise Unsupported("zero-padded negative")
            a = z3.If(e < 0, -e, e)
            ds = _digits(it, a, k)
            items = [(e < 0, 45)]
            for i in range(k):
                p = 10 ** (k - 1 - i)
                g = True if i == k - 1 else (a >= p)
                items.append((g, 48 + ds[i]))
            return SStr(items)
    return None


def opaque_int_str(it, e):
    t = int2str(e)
    it.assume(str2int(t) == e)
    it.assume(is_intlit(t))
    it.assume(ofx_intlit(t))          # T-LIB: str(int) is an optional '-' followed by decimal digits
    it.assume(tlen(t) >= 1)
    return SVal(str, t)


def fresh_text(it, prefix="txt"):
    t = it.fresh(prefix, "V")
    it.assume(tlen(t) >= 0)
    return SVal(str, t)


# ------------------------------------------------------------------- operators
def as_int(v):
    """-> (ok, z3|int)"""
    if isinstance(v, bool):
        return True, int(v)
    if isinstance(v, int):
        return True, v
    if isinstance(v, SInt):
        return True, v.e
    if isinstance(v, SBool):
        return True, z3.If(v.e, 1, 0)
    return False, None


def mkint(x):
    return x if isinstance(x, int) else SInt(x)


def py_floordiv(it, a, b):
    if isinstance(b, int):
        if b == 0:
            raise Raised(ZeroDivisionError, "division by zero")
        if b > 0:
            return zint(a) / z3.IntVal(b)
        return (-zint(a)) / z3.IntVal(-b)
    if it.branch(b == 0):
        raise Raised(ZeroDivisionError, "division by zero")
    a = zint(a)
    return z3.If(b > 0, a / b, (-a) / (-b))


def binop(it, op, a, b):
    a = it.force(a) if isinstance(a, SIte) else a
    b = it.force(b) if isinstance(b, SIte) else b
    import pathlib as _pl
    if op == "Div" and isinstance(a, _pl.PurePath) and getattr(it, "path_div", None) is not None and isinstance(b, (str, SStr, SVal)) and str(b) != "fiprofiles":
        return it.path_div(a, b)
    if not is_sym(a) and not is_sym(b):
        if deep_concrete(a) and deep_concrete(b):
            try:
                return _NATIVE_OPS[op](a, b)
            except Exception as e:
                raise C.Raised(ExcVal(type(e), e.args))
        if op == "Add" and isinstance(a, (list, tuple)) and type(a) is type(b):
            return a + b
        if op == "Mult" and isinstance(a, (list, tuple)) and isinstance(b, int):
            return a * b
    if isinstance(a, Abstract) and hasattr(a, "p_binop"):
        r = a.p_binop(it, op, b, False)
        if r is not NotImplemented:
            return r
    if isinstance(b, Abstract) and hasattr(b, "p_binop"):
        r = b.p_binop(it, op, a, True)
        if r is not NotImplemented:
            return r
    oka, ia = as_int(a)
    okb, ib = as_int(b)
    if oka and okb:
        if op == "Add":
            return mkint(ia + ib)
        if op == "Sub":
            return mkint(ia - ib)
        if op == "Mult":
            return mkint(ia * ib)
        if op == "FloorDiv":
            return mkint(py_floordiv(it, ia, ib))
        if op == "Mod":
            q = py_floordiv(it, ia, ib)
            return mkint(zint(ia) - zint(ib) * q)
        if op == "Pow":
            if isinstance(ia, int) and ia == 10:
                it.assume(z3.Implies(ib >= 0, pow10(ib) >= 1))
                if it.branch(ib < 0):
                    raise Unsupported("negative exponent")
                return SInt(pow10(ib))
            raise Unsupported("symbolic power")
        raise Unsupported(f"int operator {op}")
    # strings
    if op == "Add" and isinstance(a, (str, SStr)) and isinstance(b, (str, SStr)):
        return SStr(to_sstr(a).items + to_sstr(b).items)
    if op == "Add" and (isinstance(a, SVal) and a.pytype is str or isinstance(b, SVal) and b.pytype is str) \
            and isinstance(a, (str, SStr, SVal)) and isinstance(b, (str, SStr, SVal)):
        try:
            ea, eb = text_term(it, a), text_term(it, b)
        except C.Unsupported:
            return fresh_text(it, "cat")
        t = concat_f(ea, eb)
        it.assume(tlen(t) == tlen(ea) + tlen(eb))
        return SVal(str, t)
    if op == "Mult" and isinstance(a, (str, SStr)) and isinstance(b, int) and not isinstance(b, bool):
        return SStr(to_sstr(a).items * b)
    if op == "Mult" and isinstance(b, (str, SStr)) and isinstance(a, int) and not isinstance(a, bool):
        return SStr(to_sstr(b).items * a)
    if op == "Mult" and (isinstance(a, SInt) and isinstance(b, (str, SStr)) or isinstance(b, SInt) and isinstance(a, (str, SStr))):
        return fresh_text(it, "rep")
    if op == "Mod" and isinstance(a, (str, SStr, SVal)):
        return fresh_text(it, "fmt")          # "%s" % x : message text
    if op == "Add" and isinstance(a, SVal) and a.pytype is bytes or isinstance(b, SVal) and getattr(b, "pytype", None) is bytes:
        t = it.fresh("bytes", "V")
        return SVal(bytes, t)
    if op == "Add" and isinstance(a, GList) or isinstance(b, GList):
        ga = a.items if isinstance(a, GList) else [(True, x) for x in a]
        gb = b.items if isinstance(b, GList) else [(True, x) for x in b]
        return GList(ga + gb)
    raise Unsupported(f"binop {op} on {type(a).__name__}, {type(b).__name__}")


_NATIVE_OPS = {
    "Add": operator.add, "Sub": operator.sub, "Mult": operator.mul, "Div": operator.truediv,
    "FloorDiv": operator.floordiv, "Mod": operator.mod, "Pow": operator.pow,
    "BitOr": operator.or_, "BitAnd": operator.and_, "BitXor": operator.xor,
    "LShift": operator.lshift, "RShift": operator.rshift, "MatMult": operator.matmul,
}


def is_none(it, v):
    """-> bool | z3 Bool"""
    if isinstance(v, SIte):
        return z3.If(v.c, zbool(is_none(it, v.a)), zbool(is_none(it, v.b)))
    return v is None


def equal(it, a, b):
    """Python == on possibly symbolic values -> bool | z3 Bool"""
    if isinstance(a, SIte):
        return z3.If(a.c, zbool(equal(it, a.a, b)), zbool(equal(it, a.b, b)))
    if isinstance(b, SIte):
        return z3.If(b.c, zbool(equal(it, a, b.a)), zbool(equal(it, a, b.b)))
    if not is_sym(a) and not is_sym(b) and deep_concrete(a) and deep_concrete(b):
        return a == b
    if a is None or b is None:
        return a is b
    # opaque values of unknown type compared as terms; a concrete operand is embedded as a constant of its own
    for x, y in ((a, b), (b, a)):
        if isinstance(x, SVal) and x.pytype is object and x.info.get("eq") == "term":
            if isinstance(y, SVal):
                return x.e == y.e
            if isinstance(y, (SInt, SBool, SStr, SObj, Abstract, GList)):
                break
            try:
                return x.e == it.embed(y)
            except TypeError:
                break
    if isinstance(a, Abstract):
        return a.p_eq(it, b)
    if isinstance(b, Abstract):
        return b.p_eq(it, a)
    oka, ia = as_int(a)
    okb, ib = as_int(b)
    if oka and okb:
        return ia == ib
    if isinstance(a, (str, SStr, SVal)) and isinstance(b, (str, SStr, SVal)):
        ta = a.pytype if isinstance(a, SVal) else str
        tb = b.pytype if isinstance(b, SVal) else str
        if ta is str and tb is str:
            return streq(it, a, b)
        if ta is tb and isinstance(a, SVal) and isinstance(b, SVal):
            if a.info.get("eq") == "term":
                return a.e == b.e
            raise Unsupported(f"== on opaque {ta.__name__}")
        return False
    if oka != okb and (oka or okb):
        other = b if oka else a
        if isinstance(other, (str, SStr)) or (isinstance(other, SVal) and other.pytype in (str, bytes)):
            return False
    if isinstance(a, (tuple, list)) and isinstance(b, (tuple, list)) and type(a) is type(b):
        if len(a) != len(b):
            return False
        return zand(*[equal(it, x, y) for x, y in zip(a, b)])
    if isinstance(a, SObj) or isinstance(b, SObj):
        for o in (a, b):
            if isinstance(o, SObj):
                eqm = __import__("inspect").getattr_static(o.cls, "__eq__", None)
                if eqm is not object.__eq__ and eqm is not None and not isinstance(eqm, types.WrapperDescriptorType):
                    raise Unsupported(f"__eq__ of {o.cls.__name__}")
        return a is b
    if isinstance(a, GList) or isinstance(b, GList):
        raise Unsupported("== on guarded list")
    if isinstance(a, (SVal,)) and a.pytype is str and not isinstance(b, (str, SStr, SVal)):
        return False
    if isinstance(b, (SVal,)) and b.pytype is str and not isinstance(a, (str, SStr, SVal)):
        return False
    if isinstance(a, (str, SStr)) and not isinstance(b, (str, SStr, SVal)):
        return False
    if isinstance(b, (str, SStr)) and not isinstance(a, (str, SStr, SVal)):
        return False
    raise Unsupported(f"== on {type(a).__name__}, {type(b).__name__}")


def contains(it, container, item):
    """item in container -> bool | z3 Bool"""
    if isinstance(container, SIte):
        container = it.force(container)
    if isinstance(container, Abstract):
        return container.p_contains(it, item)
    if isinstance(container, range):
        ok, i = as_int(item)
        if not ok:
            return False
        if container.step != 1:
            raise Unsupported("range step")
        return zand(zint(i) >= container.start, zint(i) < container.stop)
    if isinstance(container, (SStr, str)) and isinstance(item, (SStr, str)):
        c = to_sstr(container)
        s = to_sstr(item)
        s = resolve(it, s)
        if len(s.items) == 0:
            return True
        if len(s.items) == 1:
            ch = s.items[0][1]
            return zor(*[zand(g, code_eq(ch, x)) for g, x in c.items])
        c = resolve(it, c)
        n, m = len(c.items), len(s.items)
        return zor(*[zand(*[code_eq(c.items[i + j][1], s.items[j][1]) for j in range(m)]) for i in range(n - m + 1)])
    if isinstance(container, SVal) and container.pytype is str:
        # substring test on an opaque text: uninterpreted predicate
        return substr_in(text_term(it, item), container.e)
    if isinstance(container, GList):
        return zor(*[zand(g, zbool(equal(it, item, x))) for g, x in container.items])
    if isinstance(container, (list, tuple, set, frozenset, dict)) or type(container).__name__ in ("dict_keys", "dict_values", "KeysView"):
        if isinstance(item, SIte):
            return z3.If(item.c, zbool(contains(it, container, item.a)), zbool(contains(it, container, item.b)))
        if not is_sym(item) and deep_concrete(item) and deep_concrete(list(container)):
            return item in container
        return zor(*[equal(it, item, x) for x in list(container)])
    if hasattr(container, "keys") and hasattr(container, "__getitem__"):      # Mapping (ChainMap, ...)
        return contains(it, list(container.keys()), item)
    if isinstance(container, SObj) and "__items__" in container.fields:
        return contains(it, container.fields["__items__"], item)
    raise Unsupported(f"in on {type(container).__name__}")


def compare(it, op, a, b):
    def wrap(r):
        return r if isinstance(r, bool) else SBool(r)
    if op in ("Is", "IsNot"):
        if isinstance(a, SIte) or isinstance(b, SIte):
            if b is None:
                r = is_none(it, a)
            elif a is None:
                r = is_none(it, b)
            else:
                a = it.force(a); b = it.force(b)
                r = a is b
        else:
            r = (a is b)
            if not r and not is_sym(a) and not is_sym(b):
                r = a is b
        return wrap(r if op == "Is" else znot(r))
    if op in ("Eq", "NotEq"):
        r = equal(it, a, b)
        return wrap(r if op == "Eq" else znot(r))
    if op in ("In", "NotIn"):
        r = contains(it, b, a)
        return wrap(r if op == "In" else znot(r))
    a = it.force(a) if isinstance(a, SIte) else a
    b = it.force(b) if isinstance(b, SIte) else b
    if not is_sym(a) and not is_sym(b) and deep_concrete(a) and deep_concrete(b):
        try:
            return {"Lt": operator.lt, "LtE": operator.le, "Gt": operator.gt, "GtE": operator.ge}[op](a, b)
        except Exception as e:
            raise C.Raised(ExcVal(type(e), e.args))
    if isinstance(a, Abstract) and hasattr(a, "p_compare"):
        return wrap(a.p_compare(it, op, b, False))
    if isinstance(b, Abstract) and hasattr(b, "p_compare"):
        return wrap(b.p_compare(it, op, a, True))
    oka, ia = as_int(a)
    okb, ib = as_int(b)
    if oka and okb:
        ia, ib = zint(ia), zint(ib)
        return wrap({"Lt": ia < ib, "LtE": ia <= ib, "Gt": ia > ib, "GtE": ia >= ib}[op])
    if a is None or b is None:
        raise Raised(TypeError, "ordering with None")
    raise Unsupported(f"ordering on {type(a).__name__}, {type(b).__name__}")


def pin_int(it, x):
    """if the symbolic integer x has a single possible value under the path condition, return it as int"""
    if not isinstance(x, SInt):
        return x
    e = z3.simplify(x.e)
    if z3.is_int_value(e):
        return e.as_long()
    it.solver.push()
    for c in it.st.pc + it.st.tmp:
        if c is not True:
            it.solver.add(c)
    r = it.solver.check()
    val = it.solver.model().eval(e, model_completion=True).as_long() if r == z3.sat else None
    it.solver.pop()
    if val is not None and it.valid(e == val):
        return val
    return x


def getitem(it, v, k):
    if isinstance(v, SIte):
        v = it.force(v)
    if isinstance(k, SIte):
        k = it.force(k)
    if isinstance(v, (SStr, GList)) and not (isinstance(v, SStr) and v.fixed()):
        if isinstance(k, SInt) or (isinstance(k, slice) and any(isinstance(x, SInt) for x in (k.start, k.stop, k.step))):
            v = resolve(it, v) if isinstance(v, SStr) else v
    if isinstance(k, SInt):
        k = pin_int(it, k)
    elif isinstance(k, slice) and any(isinstance(x, SInt) for x in (k.start, k.stop, k.step)):
        k = slice(pin_int(it, k.start), pin_int(it, k.stop), pin_int(it, k.step))
    if isinstance(v, Abstract):
        return v.p_getitem(it, k)
    if isinstance(v, (SStr, str)) and (is_sym(v) or is_sym(k)):
        s = resolve(it, to_sstr(v))
        if isinstance(k, slice):
            if any(is_sym(x) for x in (k.start, k.stop, k.step)):
                raise Unsupported("symbolic slice bound")
            return SStr(s.items[k])
        if isinstance(k, int):
            try:
                return SStr([s.items[k]])
            except IndexError:
                raise Raised(IndexError, "string index out of range")
        raise Unsupported("symbolic string index")
    if isinstance(v, SStr) and not is_sym(k):
        return getitem(it, v, k)
    if isinstance(v, GList):
        items = [x for g, x in v.items if g is True or it.branch(g)]
        return getitem(it, items, k)
    if isinstance(v, SObj) and "__items__" in v.fields:
        return getitem(it, v.fields["__items__"], k)
    if isinstance(k, slice) and any(is_sym(x) for x in (k.start, k.stop, k.step)):
        raise Unsupported("symbolic slice bound")
    if not is_sym(k):
        if isinstance(k, SStr):
            k = it.concrete_key(k)
        try:
            return v[k]
        except (KeyError, IndexError, TypeError) as e:
            raise C.Raised(ExcVal(type(e), e.args))
    # symbolic key into a concrete container
    if isinstance(v, dict) or hasattr(v, "keys"):
        keys = list(v.keys())
        res = None
        conds = []
        for key in keys:
            c = equal(it, k, key)
            if c is False:
                continue
            conds.append((c, v[key]))
        hit = zor(*[c for c, _ in conds])
        if not it.branch(hit):
            raise Raised(KeyError, "key")
        res = None
        for c, val in reversed(conds):
            res = val if res is None else it.ite(zbool(c), val, res)
        return res
    if isinstance(v, (list, tuple)):
        ok, i = as_int(k)
        if not ok:
            raise Raised(TypeError, "indices must be integers")
        n = len(v)
        i = zint(i)
        if not it.branch(z3.And(i >= -n, i < n)):
            raise Raised(IndexError, "index out of range")
        res = None
        for j in range(n - 1, -1, -1):
            c = z3.Or(i == j, i == j - n)
            res = v[j] if res is None else it.ite(c, v[j], res)
        return res
    raise Unsupported(f"getitem {type(v).__name__}[{type(k).__name__}]")


# -------------------------------------------------------------------- f-strings
def format_value(it, v, conv, spec):
    """-> SStr | str | None (None = cannot be shaped)"""
    if isinstance(v, SIte):
        v = it.force(v)
    if conv not in (-1, 115):       # !r / !a
        if not is_sym(v) and deep_concrete(v):
            return format(repr(v) if conv == 114 else ascii(v), spec or "")
        return None
    if not is_sym(v) and deep_concrete(v):
        try:
            return format(v, spec or "")
        except Exception as e:
            raise C.Raised(ExcVal(type(e), e.args))
    if isinstance(v, (SStr,)) and not spec:
        return v
    ok, i = as_int(v)
    if ok and not isinstance(v, SBool):
        if spec in ("", "d"):
            return int_to_sstr(it, zint(i))
        if len(spec) == 3 and spec[0] == "0" and spec[1].isdigit() and spec[2] == "d":
            w = int(spec[1])
            if it.valid(z3.And(zint(i) >= 0, zint(i) < 10 ** w)):
                return int_to_sstr(it, zint(i), width=w)
            return None
    return None


def dependent_text(it, e, vals):
    """an f-string that cannot be given a shape: still a FUNCTION of its parts - the same parts give the same text, and the
    text depends on exactly those parts (uninterpreted function per f-string site over the opaque parts; concrete parts are
    folded into the function's name).  Falls back to an unconstrained text when a part has no term of its own."""
    import hashlib
    args, conc = [], []
    for v in vals:
        if isinstance(v, SIte):
            v = it.force(v)
        if isinstance(v, SVal) and v.e.sort() == V:
            args.append(v.e)
        elif not is_sym(v) and deep_concrete(v) and not isinstance(v, (Abstract, SObj)):
            conc.append(repr(v))
        else:
            return fresh_text(it, "fstr")
    if not args:
        return fresh_text(it, "fstr")
    tag = hashlib.sha1(("|".join(conc) + f"@{getattr(e, 'lineno', 0)}:{getattr(e, 'col_offset', 0)}:{ast.dump(e)[:200]}").encode()).hexdigest()[:10]
    f = z3.Function(f"fstr_{tag}", *([V] * len(args)), V)
    t = f(*args)
    it.assume(tlen(t) >= 0)
    return SVal(str, t)


def joinedstr(it, e, env):
    parts = []
    shaped = True
    vals = []
    for p in e.values:
        if isinstance(p, ast.Constant):
            parts.append(p.value)
            continue
        v = it.ev(p.value, env)
        vals.append(v)
        spec = ""
        if p.format_spec is not None:
            sp = joinedstr(it, p.format_spec, env)
            if not isinstance(sp, str):
                shaped = False
                continue
            spec = sp
        if not shaped:
            continue
        r = format_value(it, v, p.conversion, spec)
        if r is None:
            shaped = False
        else:
            parts.append(r)
    if not shaped:
        return dependent_text(it, e, vals)
    if all(isinstance(p, str) for p in parts):
        return "".join(parts)
    items = []
    for p in parts:
        items += to_sstr(p).items
    return SStr(items)


# --------------------------------------------------------------------- builtins
def m_len(it, args, kw):
    x = it.force(args[0]) if isinstance(args[0], SIte) else args[0]
    if isinstance(x, SStr):
        return slen(it, x)
    if isinstance(x, SVal) and x.pytype in (str, bytes):
        it.assume(tlen(x.e) >= 0)
        return SInt(tlen(x.e))
    if isinstance(x, GList):
        return SInt(z3.Sum([z3.If(zbool(g), 1, 0) for g, _ in x.items])) if x.items else 0
    if isinstance(x, Abstract):
        return x.p_len(it)
    if isinstance(x, SObj):
        if "__len__" in x.fields:
            return x.fields["__len__"]
        if "__items__" in x.fields:
            return m_len(it, [x.fields["__items__"]], {})
        raise Unsupported(f"len of symbolic {x.cls.__name__}")
    if is_sym(x):
        raise Raised(TypeError, "object has no len()")
    return it.native(len, [x], {})


def m_int(it, args, kw):
    if not args:
        return 0
    x = it.force(args[0]) if isinstance(args[0], SIte) else args[0]
    base = args[1] if len(args) > 1 else kw.get("base", 10)
    if not is_sym(x):
        return it.native(int, [x] + list(args[1:]), kw)
    if isinstance(x, SInt):
        return x
    if isinstance(x, SBool):
        return SInt(z3.If(x.e, 1, 0))
    if isinstance(x, SStr):
        return parse_int(it, x, base)
    if isinstance(x, SVal) and x.pytype is str:
        if base != 10:
            raise Unsupported("int(opaque, base)")
        if not it.branch(is_intlit(x.e)):
            raise Raised(ValueError, "invalid literal for int()")
        return SInt(str2int(x.e))
    if isinstance(x, Abstract) and hasattr(x, "p_int"):
        return x.p_int(it)
    raise Raised(TypeError, "int() argument")


def m_str(it, args, kw):
    if not args:
        return ""
    x = it.force(args[0]) if isinstance(args[0], SIte) else args[0]
    if not is_sym(x):
        if deep_concrete(x):
            return str(x)
        return fresh_text(it, "str")
    if isinstance(x, SStr) or (isinstance(x, SVal) and x.pytype is str):
        return x
    if isinstance(x, SInt):
        r = int_to_sstr(it, x.e)
        return r if r is not None else opaque_int_str(it, x.e)
    if isinstance(x, SBool):
        return it.ite(x.e, "True", "False")
    if isinstance(x, Abstract) and hasattr(x, "p_str"):
        return x.p_str(it)
    if isinstance(x, SObj):
        import inspect as _i
        f = _i.getattr_static(x.cls, "__str__", None)
        if isinstance(f, types.FunctionType):
            return it.call(f, [x], {})
        return fresh_text(it, "objstr")
    import decimal as _d
    if isinstance(x, SVal) and x.pytype is _d.Decimal:
        from . import models_dec
        return models_dec.p_str(it, x)
    return fresh_text(it, "str")


def m_repr(it, args, kw):
    x = args[0]
    if not is_sym(x) and deep_concrete(x):
        return repr(x)
    return fresh_text(it, "repr")


def m_bool(it, args, kw):
    if not args:
        return False
    return it.tobool(args[0])


def m_sum(it, args, kw):
    total = args[1] if len(args) > 1 else 0
    for g, x in it.giterate(args[0]):
        ok, i = as_int(x)
        if not ok:
            raise Unsupported("sum of non-int")
        okt, t = as_int(total)
        if g is True:
            total = mkint(t + i) if not (isinstance(t, int) and isinstance(i, int)) else t + i
        else:
            total = SInt(zint(t) + z3.If(g, zint(i), 0))
    return total


def m_enumerate(it, args, kw):
    start = args[1] if len(args) > 1 else kw.get("start", 0)
    out = []
    n = start
    allfixed = True
    for g, el in it.giterate(args[0]):
        out.append((g, (n, el)))
        if g is True:
            n = n + 1 if isinstance(n, int) else SInt(n.e + 1)
        else:
            allfixed = False
            n = SInt(zint(n) + z3.If(g, 1, 0))
    return [v for _, v in out] if allfixed else GList(out)


def m_isinstance(it, args, kw):
    v, t = args
    if isinstance(v, SIte):
        return SBool(z3.If(v.c, zbool(_isinst(it, v.a, t)), zbool(_isinst(it, v.b, t))))
    r = _isinst(it, v, t)
    return SBool(r) if isinstance(r, z3.ExprRef) else r


def _isinst(it, v, t):
    if isinstance(v, SIte):
        return z3.If(v.c, zbool(_isinst(it, v.a, t)), zbool(_isinst(it, v.b, t)))
    if isinstance(v, Abstract) and hasattr(v, "p_isinstance"):
        return v.p_isinstance(it, t)
    if is_sym(v):
        pt = v.pytype
        return issubclass(pt, t)
    if isinstance(v, ExcVal):
        return issubclass(v.cls, t)
    if isinstance(v, C.Closure):
        return issubclass(types.FunctionType, t) if not isinstance(t, tuple) else any(issubclass(types.FunctionType, x) for x in t)
    return isinstance(v, t)


def m_type(it, args, kw):
    if len(args) != 1:
        raise Unsupported("type() 3-arg")
    v = args[0]
    if isinstance(v, ExcVal):
        return v.cls
    return it.pytype_of(v)


def m_getattr(it, args, kw):
    if isinstance(args[0], Abstract) and hasattr(args[0], "p_getattr_sym") and is_sym(args[1]) and not (isinstance(args[1], SStr) and args[1].concrete()):
        try:
            return args[0].p_getattr_sym(it, args[1])
        except C.Raised as r:
            if len(args) > 2 and issubclass(r.exc.cls, AttributeError):
                return args[2]
            raise
    if args[0] is None and is_sym(args[1]) and not (isinstance(args[1], SStr) and args[1].concrete()):
        # A-NONEATTR: a symbolic attribute name is assumed not to be one of NoneType's own (dunder) attributes
        if len(args) > 2:
            return args[2]
        raise Raised(AttributeError, "'NoneType' object has no attribute")
    o, name = args[0], it.concrete_key(args[1])
    if len(args) > 2:
        try:
            return it.getattr(o, name)
        except C.Raised as r:
            if issubclass(r.exc.cls, AttributeError):
                return args[2]
            raise
    return it.getattr(o, name)


def m_setattr(it, args, kw):
    if isinstance(args[0], Abstract) and hasattr(args[0], "p_setattr") and is_sym(args[1]) and not (isinstance(args[1], SStr) and args[1].concrete()):
        # an attribute named by a symbolic text: the abstract object decides what a write means (frames record it)
        args[0].p_setattr(it, args[1], args[2])
        return None
    it.setattr(args[0], it.concrete_key(args[1]), args[2])
    return None


def m_hasattr(it, args, kw):
    try:
        it.getattr(args[0], it.concrete_key(args[1]))
        return True
    except C.Raised as r:
        if issubclass(r.exc.cls, AttributeError):
            return False
        raise


def m_abs(it, args, kw):
    x = it.force(args[0]) if isinstance(args[0], SIte) else args[0]
    if isinstance(x, SInt):
        return SInt(z3.If(x.e < 0, -x.e, x.e))
    if isinstance(x, Abstract) and hasattr(x, "p_abs"):
        return x.p_abs(it)
    if not is_sym(x):
        return abs(x)
    raise Unsupported("abs")


def m_divmod(it, args, kw):
    a, b = args
    if not is_sym(a) and not is_sym(b):
        return it.native(divmod, [a, b], {})
    return (binop(it, "FloorDiv", a, b), binop(it, "Mod", a, b))


def m_list(it, args, kw):
    if not args:
        return []
    x = args[0]
    if isinstance(x, GList):
        return x
    if isinstance(x, Abstract) and hasattr(x, "p_tolist"):
        return x.p_tolist(it)
    return list(it.iterate(x))


def m_tuple(it, args, kw):
    if not args:
        return ()
    return tuple(it.iterate(args[0]))


def m_dict(it, args, kw):
    d = {}
    if args:
        src = args[0]
        if isinstance(src, Abstract) and hasattr(src, "p_asdict"):
            src = src.p_asdict(it)
        if isinstance(src, dict) or hasattr(src, "keys"):
            for k in src.keys():
                d[k] = src[k]
        else:
            for pair in it.iterate(src):
                k, v = it.iterate(pair)
                d[it.concrete_key(k)] = v
    d.update(kw)
    return d


class GuardedSet(Abstract):
    """a set of concrete (hashable) elements each of which is in the set under a condition (the keys of an abstract mapping)"""

    def __init__(self, items):
        d = {}
        for g, k in items:
            d[k] = zor(d[k], g) if k in d else g
        self.items = d

    def p_len(self, it):
        if all(g is True for g in self.items.values()):
            return len(self.items)
        return SInt(z3.Sum([z3.If(zbool(g), 1, 0) for g in self.items.values()])) if self.items else 0

    def p_contains(self, it, item):
        return self.items.get(it.concrete_key(item), False)

    def p_truth(self, it):
        return zor(*self.items.values())

    def p_iter(self, it):
        return [k for k, g in self.items.items() if g is True or (g is not False and it.branch(zbool(g)))]

    def p_giter(self, it):
        return [(g, k) for k, g in self.items.items() if g is not False]

    def p_getattr(self, it, name):
        if name in ("intersection", "__and__"):
            def inter(*others):
                cur = dict(self.items)
                for o in others:
                    og = dict((k, g) for g, k in ((g, it.concrete_key(k)) for g, k in it.giterate(o)))
                    cur = {k: zand(g, og[k]) for k, g in cur.items() if k in og}
                return GuardedSet([(g, k) for k, g in cur.items()])
            return inter
        if name in ("union", "__or__"):
            def union(*others):
                allitems = [(g, k) for k, g in self.items.items()]
                for o in others:
                    allitems += [(g, it.concrete_key(k)) for g, k in it.giterate(o)]
                return GuardedSet(allitems)
            return union
        if name in ("difference", "__sub__"):
            def diff(*others):
                cur = dict(self.items)
                for o in others:
                    for g, k in it.giterate(o):
                        k = it.concrete_key(k)
                        if k in cur:
                            cur[k] = zand(cur[k], znot(g))
                return GuardedSet([(g, k) for k, g in cur.items()])
            return diff
        raise Unsupported(f"set.{name} on a set with undecided members")


def m_set(it, args, kw):
    if not args:
        return set()
    if isinstance(args[0], Abstract) and hasattr(args[0], "p_giter"):
        gi = list(args[0].p_giter(it))
        if all(deep_concrete(k) for g, k in gi):
            if all(g is True for g, k in gi):
                return set(k for g, k in gi)
            return GuardedSet(gi)
    items = it.iterate(args[0])
    if all(deep_concrete(x) for x in items):
        return set(items)
    return IdentitySet(items)


class IdentitySet(Abstract):
    """set() of symbolic heap objects (hash by identity): only iteration/len/containment by identity"""

    def __init__(self, items):
        self.items = []
        for x in items:
            if not any(x is y for y in self.items):
                self.items.append(x)

    def uncertain(self):
        syms = [x for x in self.items if is_sym(x) and not isinstance(x, SObj) and not getattr(x, 'identity_object', False)]
        return len(syms) >= 2 or (len(syms) == 1 and len(self.items) > 1)

    def p_iter(self, it):
        if self.uncertain():
            raise Unsupported("set of several symbolic values (size depends on their equality)")
        return list(self.items)

    def p_len(self, it):
        if self.uncertain():
            raise Unsupported("set of several symbolic values (size depends on their equality)")
        return len(self.items)

    def p_getattr(self, it, name):
        if name == "pop":
            def pop():
                if self.uncertain():
                    raise Unsupported("set of several symbolic values")
                if not self.items:
                    raise Raised(KeyError, "pop from an empty set")
                return self.items.pop()
            return pop
        if name == "add":
            def add(x):
                if not any(x is y for y in self.items):
                    self.items.append(x)
            return add
        raise Unsupported(f"set.{name}")

    def p_contains(self, it, item):
        return any(item is y for y in self.items)

    def p_truth(self, it):
        return len(self.items) > 0


def m_range(it, args, kw):
    if all(not is_sym(a) for a in args):
        return range(*args)
    raise Unsupported("symbolic range")


def m_zip(it, args, kw):
    seqs = [it.iterate(a) for a in args]
    return list(zip(*seqs))


def sort_keys(it, items, key):
    """the keys of the items when they are concrete although the items are not (sorting requests by class name, pairs by their
    first member ...): operator.attrgetter / itemgetter natively (plain attribute and index access), closures interpreted"""
    import operator
    keys = []
    for x in items:
        if key is None:
            k = x
        elif isinstance(key, (operator.attrgetter, operator.itemgetter)):
            if isinstance(x, (Sym, Abstract, SObj)):
                raise Unsupported("sort/group key of a symbolic item")
            try:
                k = key(x)
            except Exception as ex:
                raise Unsupported(f"sort/group key: {type(ex).__name__}")
        else:
            k = it.call(key, [x], {})
        if not deep_concrete(k) or isinstance(k, (Sym, Abstract, SObj)):
            raise Unsupported("symbolic sort/group key")
        keys.append(k)
    return keys


def m_sorted(it, args, kw):
    items = it.iterate(args[0])
    if all(deep_concrete(x) for x in items) and not any(isinstance(v, C.Closure) for v in kw.values()):
        return it.native(sorted, [items], kw)
    if set(kw) <= {"key", "reverse"} and kw.get("key") is not None and isinstance(kw.get("reverse", False), bool):
        keys = sort_keys(it, items, kw["key"])
        order = sorted(range(len(items)), key=lambda i: keys[i], reverse=kw.get("reverse", False))    # stable, like sorted()
        return [items[i] for i in order]
    raise Unsupported("sorted on symbolic items")


def lm_sort(it, lst, args, kw):
    if not isinstance(lst, list):
        raise Unsupported("sort of a symbolic list")
    new = m_sorted(it, [list(lst)], kw)
    lst[:] = new
    return None


def m_groupby(it, args, kw):
    """itertools.groupby with concrete keys: [(key, [members])] - consecutive runs, like the real one"""
    items = it.iterate(args[0])
    key = args[1] if len(args) > 1 else kw.get("key")
    keys = sort_keys(it, items, key)
    out = []
    for k, x in zip(keys, items):
        if out and (out[-1][0] is k or out[-1][0] == k):
            out[-1][1].append(x)
        else:
            out.append((k, [x]))
    return out


def m_chain_from_iterable(it, args, kw):
    out = []
    for sub in it.iterate(args[0]):
        out.extend(it.iterate(sub))
    return out


def m_any(it, args, kw):
    r = False
    for g, x in it.giterate(args[0]):
        t = it.truth(x)
        r = zor(r, zand(g, t))
    return r if isinstance(r, bool) else SBool(r)


def m_all(it, args, kw):
    r = True
    for g, x in it.giterate(args[0]):
        t = it.truth(x)
        r = zand(r, zor(znot(g), t))
    return r if isinstance(r, bool) else SBool(r)


def m_minmax(which):
    def f(it, args, kw):
        xs = it.iterate(args[0]) if len(args) == 1 else list(args)
        if all(not is_sym(x) for x in xs):
            return it.native(min if which == "min" else max, [xs], kw)
        r = xs[0]
        for x in xs[1:]:
            c = compare(it, "Lt" if which == "min" else "Gt", x, r)
            r = it.ite(it.truth(c), x, r) if not isinstance(c, bool) else (x if c else r)
        return r
    return f


class SBytes(Abstract):
    """the UTF-8 encoding of a shaped text: kept as the text itself (UTF-8 is an injective homomorphism on
    strings, so concatenation and equality of the encodings are concatenation and equality of the texts)"""
    pytype = bytes
    _immutable = True

    def __init__(self, s):
        self.s = s

    @staticmethod
    def text_of(other):
        if isinstance(other, SBytes):
            return other.s
        if isinstance(other, (bytes, bytearray)):
            try:
                return bytes(other).decode("utf_8")
            except UnicodeDecodeError:
                return None
        return None

    def p_binop(self, it, op, other, reflected):
        if op != "Add":
            return NotImplemented
        o = SBytes.text_of(other)
        if o is None:
            return NotImplemented
        return SBytes(binop(it, "Add", o, self.s) if reflected else binop(it, "Add", self.s, o))

    def p_eq(self, it, other):
        o = SBytes.text_of(other)
        if o is None:
            return False
        return equal(it, self.s, o)

    def p_getattr(self, it, name):
        if name == "decode":
            def decode(encoding="utf-8", errors="strict"):
                if str(encoding).lower().replace("-", "_") not in ("utf_8", "utf8"):
                    raise Unsupported(f"decode({encoding}) of symbolic bytes")
                return self.s
            return decode
        raise Unsupported(f"bytes.{name} on symbolic bytes")

    def p_isinstance(self, it, t):
        return issubclass(bytes, t) if isinstance(t, type) else any(issubclass(bytes, x) for x in t)


def m_bytes(it, args, kw):
    if all(not is_sym(a) for a in args):
        return it.native(bytes, list(args), kw)
    s = args[0]
    enc = args[1] if len(args) > 1 else kw.get("encoding")
    if isinstance(s, SIte):
        s = it.force(s)
    if isinstance(s, SStr) and str(enc).lower().replace("-", "_") in ("utf_8", "utf8") and getattr(it, "shaped_bytes", False):
        return SBytes(s)
    f = z3.Function("encode_" + str(enc).replace("-", "_"), V, V)
    if isinstance(s, SVal):
        return SVal(bytes, f(s.e), {"eq": "term", "decoded": s})
    t = it.fresh("bytes", "V")
    return SVal(bytes, t, {"eq": "term", "decoded": s})


def m_copysign(it, args, kw):
    x, y = args
    if not is_sym(x) and not is_sym(y):
        return math.copysign(x, y)
    okx, ix = as_int(x)
    oky, iy = as_int(y)
    if not (okx and oky):
        raise Unsupported("copysign on non-int")
    ix, iy = zint(ix), zint(iy)
    ax = z3.If(ix < 0, -ix, ix)
    # an int zero carries no sign: copysign(x, 0) == +|x|.  Result is a float in CPython; it is only
    # ever passed on to timedelta(minutes=...), which is exact for integral floats of this magnitude.
    return SInt(z3.If(iy < 0, -ax, ax))


def m_ord(it, args, kw):
    x = args[0]
    if not is_sym(x):
        return it.native(ord, [x], {})
    if isinstance(x, SStr):
        x = resolve(it, x)
        if len(x.items) != 1:
            raise Raised(TypeError, "ord() expected a character")
        c = x.items[0][1]
        return c if isinstance(c, int) else SInt(c)
    raise Unsupported("ord of opaque text")


def m_chr(it, args, kw):
    x = args[0]
    if not is_sym(x):
        return it.native(chr, [x], {})
    if isinstance(x, SInt):
        if not it.valid(z3.And(x.e >= 0, x.e < 0x110000)):
            raise Unsupported("chr range")
        return SStr([(True, x.e)])
    raise Unsupported("chr")


def unescape_symbol(entities):
    """the uninterpreted function standing for saxutils.unescape with this entity table.
    saxutils replaces &lt; and &gt; first, then the given entities in dict order, &amp; last."""
    mid = tuple(sorted(entities.items()))
    key = "unesc_" + "_".join(f"{k.strip('&;')}{ord(v) if len(v) == 1 else 'X'}" for k, v in mid)
    return z3.Function(key, V, V)


def m_unescape(it, args, kw):
    data = args[0]
    ents = args[1] if len(args) > 1 else kw.get("entities", {})
    if not is_sym(data):
        import xml.sax.saxutils as sx
        return it.native(sx.unescape, [data, ents], {})
    if not deep_concrete(ents):
        raise Unsupported("unescape with symbolic entity table")
    if isinstance(data, SStr):
        # no '&' can occur: every str.replace of the chain is the identity
        amp = zor(*[zand(g, zbool(code_eq(c, 38))) if not isinstance(c, int) else (g if c == 38 else False) for g, c in data.items])
        if amp is False or not it.branch(amp):
            return data
        raise Unsupported("unescape on shaped string that may contain '&'")
    return unescape_term(it, dict(ents), data.e)


def unescape_term(it, ents, e):
    """r = unescape(e) with the facts assumed about it (T-LIB): identity on texts without '&'; never longer
    than the input; non-empty input gives non-empty output"""
    f = unescape_symbol(ents)
    r = f(e)
    amp = it.lit("&")
    it.assume(z3.Implies(z3.Not(substr_in(amp, e)), r == e))
    it.assume(z3.And(tlen(r) <= tlen(e), tlen(r) >= 0, z3.Implies(tlen(e) > 0, tlen(r) > 0)))
    return SVal(str, r)


def m_next(it, args, kw):
    raise Unsupported("next()")


def m_print(it, args, kw):
    it.st.ghost["calls"].append(("print", args))
    return None


def m_warn(it, args, kw):
    cat = kw.get("category", args[1] if len(args) > 1 else UserWarning)
    it.st.ghost["warnings"].append((cat, args[0]))
    return None


def m_format_builtin(it, args, kw):
    r = format_value(it, args[0], -1, args[1] if len(args) > 1 else "")
    return r if r is not None else fresh_text(it, "fmt")


def m_locals(it, args, kw):
    raise Unsupported("locals()")


# ---------------------------------------------------------------- str methods
def sm_join(it, sep, args, kw):
    sep = to_sstr(sep) if isinstance(sep, (str, SStr)) else None
    if sep is None:
        return fresh_text(it, "join")
    parts = it.giterate(args[0])
    items = []
    first = True
    opaque = False
    seen_guarded = False
    for g, s in parts:
        if isinstance(s, SIte):
            s = it.force(s)
        if not isinstance(s, (str, SStr)):
            if isinstance(s, SVal) and s.pytype is str:
                opaque = True
                continue
            raise Raised(TypeError, "sequence item: expected str instance")
        s = to_sstr(s)
        if not first and sep.items:
            if g is not True or seen_guarded:
                # separator placement with guarded elements needs forking
                if g is not True and not it.branch(g):
                    continue
                g = True
            items += sep.items
        if g is not True:
            seen_guarded = True
        items += [(zand(g, g2), c) for g2, c in s.items]
        first = False
    if opaque:
        return fresh_text(it, "join")
    return SStr(items)


def sm_zfill(it, s, args, kw):
    s = resolve(it, to_sstr(s))
    n = args[0]
    if is_sym(n):
        raise Unsupported("zfill width")
    pad = n - len(s.items)
    if pad <= 0:
        return s
    if s.items:
        c0 = s.items[0][1]
        sign = (c0 in (43, 45)) if isinstance(c0, int) else z3.Or(c0 == 43, c0 == 45)
        if it.branch(sign):
            return SStr([s.items[0]] + [(True, 48)] * pad + s.items[1:])
    return SStr([(True, 48)] * pad + s.items)


def _case(it, s, upper):
    s = to_sstr(s)
    out = []
    for g, c in s.items:
        if isinstance(c, int):
            r = ord(chr(c).upper()) if upper else ord(chr(c).lower())
            if len(chr(c).upper() if upper else chr(c).lower()) != 1:
                raise Unsupported("case mapping changes length")
            out.append((g, r))
            continue
        ok, _ = it.under(g if g is not True else True, lambda: it.valid(c < 128))
        if not it.valid(z3.Implies(zbool(g), z3.And(c >= 0, c < 128))):
            raise Unsupported("upper()/lower() on non-ASCII symbolic character (outside modelled domain)")
        if upper:
            out.append((g, z3.If(z3.And(c >= 97, c <= 122), c - 32, c)))
        else:
            out.append((g, z3.If(z3.And(c >= 65, c <= 90), c + 32, c)))
    return SStr(out)


def sm_upper(it, s, args, kw):
    if isinstance(s, SVal):
        t = upper_f(s.e)
        it.assume(tlen(t) >= 0)
        return SVal(str, t)
    return _case(it, s, True)


def sm_lower(it, s, args, kw):
    if isinstance(s, SVal):
        t = lower_f(s.e)
        it.assume(tlen(t) >= 0)
        return SVal(str, t)
    return _case(it, s, False)


WS_STRIP = (9, 10, 11, 12, 13, 28, 29, 30, 31, 32, 133, 160, 5760, 8232, 8233, 8239, 8287, 12288) + tuple(range(8192, 8203))


def is_ws_code(c):
    if isinstance(c, int):
        return chr(c).isspace()
    return in_codes(c, WS_STRIP)


def sm_strip(it, s, args, kw):
    if args:
        raise Unsupported("strip(chars)")
    if isinstance(s, SVal):
        t = strip_f(s.e)
        it.assume(z3.And(tlen(t) >= 0, tlen(t) <= tlen(s.e)))
        return SVal(str, t, dict(s.info, stripped_of=s))
    s = resolve(it, to_sstr(s))
    items = list(s.items)
    while items and it.branch(is_ws_code(items[0][1])):
        items.pop(0)
    while items and it.branch(is_ws_code(items[-1][1])):
        items.pop()
    return SStr(items)


def sm_lstrip(it, s, args, kw, right=False):
    if args:
        raise Unsupported("lstrip(chars)")
    if isinstance(s, SVal):
        return fresh_text(it, "lstrip")
    s = resolve(it, to_sstr(s))
    items = list(s.items)
    if right:
        while items and it.branch(is_ws_code(items[-1][1])):
            items.pop()
    else:
        while items and it.branch(is_ws_code(items[0][1])):
            items.pop(0)
    return SStr(items)


def sm_startswith(it, s, args, kw):
    p = args[0]
    if isinstance(p, tuple):
        r = zor(*[zbool(x.e if isinstance(x, SBool) else x) for x in (sm_startswith(it, s, [q], kw) for q in p)])
        return r if isinstance(r, bool) else SBool(r)
    if isinstance(s, SVal) or isinstance(p, SVal):
        f = z3.Function("startswith_f", V, V, z3.BoolSort())
        return SBool(f(text_term(it, s), text_term(it, p)))
    s = resolve(it, to_sstr(s)); p = resolve(it, to_sstr(p))
    if len(p.items) > len(s.items):
        return False
    r = zand(*[code_eq(a[1], b[1]) for a, b in zip(s.items, p.items)])
    return r if isinstance(r, bool) else SBool(r)


def sm_endswith(it, s, args, kw):
    p = args[0]
    if isinstance(p, tuple):
        r = zor(*[zbool(x.e if isinstance(x, SBool) else x) for x in (sm_endswith(it, s, [q], kw) for q in p)])
        return r if isinstance(r, bool) else SBool(r)
    if isinstance(s, SVal) or isinstance(p, SVal):
        f = z3.Function("endswith_f", V, V, z3.BoolSort())
        return SBool(f(text_term(it, s), text_term(it, p)))
    s = resolve(it, to_sstr(s)); p = resolve(it, to_sstr(p))
    if len(p.items) > len(s.items):
        return False
    n = len(p.items)
    r = zand(*[code_eq(a[1], b[1]) for a, b in zip(s.items[len(s.items) - n:], p.items)])
    return r if isinstance(r, bool) else SBool(r)


def sm_replace(it, s, args, kw):
    old, new = args[0], args[1]
    if isinstance(s, SVal) or isinstance(old, SVal) or isinstance(new, SVal):
        f = z3.Function("replace_f", V, V, V, V)
        t = f(text_term(it, s), text_term(it, old), text_term(it, new))
        it.assume(tlen(t) >= 0)
        return SVal(str, t)
    if isinstance(s, str) and isinstance(old, str) and old:
        # a concrete text with a concrete pattern: split and re-join with the (possibly symbolic) replacement
        parts = s.split(old)
        out = to_sstr(parts[0])
        for p_ in parts[1:]:
            out = SStr(list(out.items) + list(to_sstr(new).items) + list(to_sstr(p_).items))
        return out
    s = resolve(it, to_sstr(s)); old = resolve(it, to_sstr(old)); new = to_sstr(new)
    if len(old.items) != 1:
        raise Unsupported("replace with multi-char pattern on shaped string")
    oc = old.items[0][1]
    if len(new.items) == 1:
        nc = new.items[0][1]
        return SStr([(True, c if isinstance(c, int) and isinstance(oc, int) and c != oc else z3.If(zint(c) == zint(oc), zint(nc), zint(c))) for _, c in s.items])
    out = []
    for _, c in s.items:
        if it.branch(code_eq(c, oc) if not (isinstance(c, int) and isinstance(oc, int)) else c == oc):
            out += new.items
        else:
            out.append((True, c))
    return SStr(out)


def sm_format(it, s, args, kw):
    if not is_sym(s) and it.all_concrete(args, kw):
        return it.native(s.format, args, kw)
    if isinstance(s, str):
        # shaped rendering for the simple "{}" templates used by the code under contract
        import string
        try:
            parsed = list(string.Formatter().parse(s))
        except ValueError:
            parsed = None
        if parsed is not None and all((f is None or (f == "" and not spec and conv is None)) for _, f, spec, conv in parsed):
            parts = []
            ai = 0
            okshape = True
            for litx, f, spec, conv in parsed:
                parts.append(litx)
                if f is not None:
                    if ai >= len(args):
                        okshape = False
                        break
                    r = format_value(it, args[ai], -1, "")
                    ai += 1
                    if r is None:
                        a = args[ai - 1]
                        if isinstance(a, SVal) and a.pytype is str:
                            parts.append(a)
                        else:
                            okshape = False
                            break
                    else:
                        parts.append(r)
            if okshape:
                if any(isinstance(p, SVal) for p in parts):
                    res = None
                    for p in parts:
                        if isinstance(p, str) and p == "":
                            continue
                        res = p if res is None else binop(it, "Add", res, p)
                    return res if res is not None else ""
                items = []
                for p in parts:
                    items += to_sstr(p).items
                return SStr(items)
    return fresh_text(it, "format")


def sm_isdigit(it, s, args, kw):
    raise Unsupported("isdigit")


def sm_encode(it, s, args, kw):
    return m_bytes(it, [s] + list(args or ["utf-8"]), kw)


def sm_decode(it, b, args, kw):
    if isinstance(b, SVal) and "decoded" in b.info:
        return b.info["decoded"]
    return fresh_text(it, "decoded")


def sm_index(it, s, args, kw, find=False):
    sub = args[0]
    if len(args) > 1:
        raise Unsupported("str.index with start/end")
    if isinstance(s, SVal) or isinstance(sub, SVal):
        raise Unsupported("str.index on opaque text")
    s = resolve(it, to_sstr(s)); sub = resolve(it, to_sstr(sub))
    m = len(sub.items)
    if m == 0:
        return 0
    n = len(s.items)
    for i in range(n - m + 1):
        c = zand(*[code_eq(s.items[i + j][1], sub.items[j][1]) for j in range(m)])
        if c is True or (c is not False and it.branch(c)):
            return i
    if find:
        return -1
    raise Raised(ValueError, "substring not found")


def sm_split(it, s, args, kw):
    raise Unsupported("split on symbolic string")


# --------------------------------------------------------------- dict/list methods
def dm_get(it, d, args, kw):
    k = args[0]
    default = args[1] if len(args) > 1 else kw.get("default")
    if isinstance(k, SIte):
        return it.ite(k.c, dm_get(it, d, [k.a] + list(args[1:]), kw), dm_get(it, d, [k.b] + list(args[1:]), kw))
    if not is_sym(k):
        try:
            return d.get(k, default)
        except TypeError as e:
            raise C.Raised(ExcVal(TypeError, e.args))
    res = default
    for key in reversed(list(d.keys())):
        c = equal(it, k, key)
        if c is False:
            continue
        if c is True:
            res = d[key]
        else:
            res = it.ite(c, d[key], res)
    return res


def dm_pop(it, d, args, kw):
    k = it.concrete_key(args[0])
    if len(args) > 1:
        return d.pop(k, args[1])
    try:
        return d.pop(k)
    except KeyError as e:
        raise C.Raised(ExcVal(KeyError, e.args))


def native_container_method(name):
    def f(it, obj, args, kw):
        args = [it.concrete_key(a) if isinstance(a, SStr) and a.concrete() else a for a in args]
        try:
            return getattr(obj, name)(*args, **kw)
        except Exception as e:
            raise C.Raised(ExcVal(type(e), e.args))
    return f


def lm_index(it, lst, args, kw):
    x = args[0]
    conds = []
    for i, y in enumerate(lst):
        conds.append((equal(it, x, y), i))
    for c, i in conds:
        if c is True:
            return i
        if c is False:
            continue
        if it.branch(c):
            return i
    raise Raised(ValueError, "not in list")


def lm_remove(it, lst, args, kw):
    x = args[0]
    for i, y in enumerate(lst):
        c = equal(it, x, y)
        if c is True or (c is not False and it.branch(c)):
            del lst[i]
            return None
    raise Raised(ValueError, "list.remove(x): x not in list")


def lm_count(it, lst, args, kw):
    x = args[0]
    total = 0
    for y in lst:
        c = equal(it, x, y)
        total = mkint(zint(total) + z3.If(zbool(c), 1, 0)) if not isinstance(c, bool) else (total + int(c) if isinstance(total, int) else SInt(total.e + int(c)))
    return total


def install(it):
    B = builtins
    it.models.update({
        B.len: m_len, B.int: m_int, B.str: m_str, B.repr: m_repr, B.bool: m_bool, B.sum: m_sum,
        B.enumerate: m_enumerate, B.isinstance: m_isinstance, B.type: m_type, B.getattr: m_getattr,
        B.setattr: m_setattr, B.hasattr: m_hasattr, B.abs: m_abs, B.divmod: m_divmod, B.list: m_list,
        B.tuple: m_tuple, B.dict: m_dict, B.set: m_set, B.frozenset: m_set, B.range: m_range, B.zip: m_zip, B.sorted: m_sorted,
        B.any: m_any, B.all: m_all, B.min: m_minmax("min"), B.max: m_minmax("max"), B.bytes: m_bytes,
        B.print: m_print, B.ord: m_ord, B.chr: m_chr, B.format: m_format_builtin, B.locals: m_locals, B.next: m_next,
        math.copysign: m_copysign,
    })
    import warnings, itertools
    it.models[warnings.warn] = m_warn
    it.models[itertools.groupby] = m_groupby
    it.models[itertools.chain.from_iterable] = m_chain_from_iterable
    import xml.sax.saxutils as sx
    it.models[sx.unescape] = m_unescape
    from . import models_dec, models_dt, regex_match
    models_dec.install(it)
    models_dt.install(it)
    regex_match.install(it)
    for name, fn in [("join", sm_join), ("zfill", sm_zfill), ("upper", sm_upper), ("lower", sm_lower),
                     ("strip", sm_strip), ("startswith", sm_startswith), ("endswith", sm_endswith),
                     ("replace", sm_replace), ("format", sm_format), ("isdigit", sm_isdigit),
                     ("encode", sm_encode), ("split", sm_split), ("index", sm_index), ("lstrip", sm_lstrip),
                     ("rstrip", lambda it, s_, a, k: sm_lstrip(it, s_, a, k, right=True)),
                     ("find", lambda it, s_, a, k: sm_index(it, s_, a, k, find=True))]:
        it.methods[(str, name)] = fn
    it.methods[(bytes, "decode")] = sm_decode
    it.methods[(dict, "get")] = dm_get
    it.methods[(dict, "pop")] = dm_pop
    for name in ("items", "keys", "values", "update", "copy", "setdefault", "clear"):
        it.methods[(dict, name)] = native_container_method(name)
    for name in ("append", "extend", "insert", "pop", "copy", "reverse", "clear"):
        it.methods[(list, name)] = native_container_method(name)
    it.methods[(list, "index")] = lm_index
    it.methods[(list, "sort")] = lm_sort
    it.methods[(tuple, "index")] = lm_index
    it.methods[(list, "remove")] = lm_remove
    it.methods[(list, "count")] = lm_count
    it.methods[(tuple, "count")] = lm_count
