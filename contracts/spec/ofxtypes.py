"""OFX data-type rules (OFX 1.6 section 3.2.8 / OFX 2 schema simple types), written independently of
ofxtools.Types.  Each function is plain Python (the executable reference); functions that work on texts
of unknown shape additionally carry `_pyvc_model`, the symbolic counterpart used in proofs (an
uninterpreted function or predicate -- what is assumed about it is stated next to it)."""
import z3
from pyvc.values import SVal, SBool, SInt, V, tlen, is_sym
from pyvc import models as M

ENTITIES = {"&amp;": "&", "&lt;": "<", "&gt;": ">", "&nbsp;": " ", "&apos;": "'", "&quot;": '"'}


def decode_entities(text):
    """single left-to-right pass: each of the six OFX/XML entities is replaced once, nothing is re-scanned"""
    out = []
    i = 0
    n = len(text)
    while i < n:
        if text[i] == "&":
            hit = None
            for ent, ch in ENTITIES.items():
                if text.startswith(ent, i):
                    hit = (ent, ch)
                    break
            if hit:
                out.append(hit[1])
                i += len(hit[0])
                continue
        out.append(text[i])
        i += 1
    return "".join(out)


def _decode_entities_model(it, args, kw):
    # the same symbol saxutils.unescape is modelled by when it is handed exactly the OFX table
    # (assumption T-LIB/unescape: the sequential str.replace chain with '&amp;' last equals the single pass;
    #  cross-checked natively on sampled texts every run)
    return M.unescape_term(it, {"&nbsp;": " ", "&apos;": "'", "&quot;": '"'}, M.text_term(it, args[0]))


decode_entities._pyvc_model = _decode_entities_model


def has_entity(text):
    return any(e in text for e in ENTITIES)


def bool_value(text):
    return {"Y": True, "N": False}[text]


def is_int_text(text):
    """an optional sign followed by decimal digits"""
    t = text
    if t[:1] in ("+", "-"):
        t = t[1:]
    return len(t) > 0 and all(c in "0123456789" for c in t)


def int_value(text):
    sign = -1 if text[:1] == "-" else 1
    t = text[1:] if text[:1] in ("+", "-") else text
    v = 0
    for c in t:
        v = v * 10 + (ord(c) - 48)
    return sign * v


def _int_value_model(it, args, kw):
    return SInt(M.str2int(M.text_term(it, args[0])))


ofx_intlit = M.ofx_intlit


def _is_int_text_model(it, args, kw):
    # T-LIB axiom (about CPython's int(), cross-checked natively): every OFX integer text is accepted by int()
    # with the value int_value() assigns; the converse does not hold (see lenient_int_text)
    e = M.text_term(it, args[0])
    it.assume(z3.Implies(ofx_intlit(e), M.is_intlit(e)))
    return SBool(ofx_intlit(e))


int_value._pyvc_model = _int_value_model
is_int_text._pyvc_model = _is_int_text_model


def python_int_accepts(text):
    """what CPython's int() accepts (sign, digits, surrounding whitespace, single underscores, Unicode digits)"""
    try:
        int(text)
        return True
    except ValueError:
        return False


def _python_int_accepts_model(it, args, kw):
    return SBool(M.is_intlit(M.text_term(it, args[0])))


python_int_accepts._pyvc_model = _python_int_accepts_model


def lenient_int_text(text):
    """KNOWN FINDING predicate: accepted by the library although it is not an OFX integer text"""
    return python_int_accepts(text) and not is_int_text(text)


def ten_to(n):
    return 10 ** n


def _ten_to_model(it, args, kw):
    from pyvc.values import zint
    n = it.force(args[0])
    ok, i = M.as_int(n)
    if not ok:
        raise M.Raised(TypeError, "unsupported operand")
    it.assume(M.pow10(zint(i)) >= 1)
    return SInt(M.pow10(zint(i)))


ten_to._pyvc_model = _ten_to_model


def is_int_lexical(text):
    """C11: optional sign and decimal digits"""
    return is_int_text(text)


def via(converter, method, value):
    """the wrapped converter's own answer (ListElement must delegate to it, nothing else)"""
    return getattr(converter, method)(value)


# ----------------------------------------------------------------------------- decimals
import decimal as _decimal
from pyvc import models_dec as MD


def is_decimal_text(text):
    """optional sign, digits, at most one separator '.' or ',' (digits on at least one side)"""
    t = text[1:] if text[:1] in ("+", "-") else text
    seps = [c for c in t if c in ".,"]
    if len(seps) > 1:
        return False
    digits = [c for c in t if c not in ".,"]
    return len(digits) > 0 and all(c in "0123456789" for c in digits)


def parse_decimal(text):
    """value and exponent of an OFX decimal text, built from its digits (no call into the code under test)"""
    neg = text[:1] == "-"
    t = text[1:] if text[:1] in ("+", "-") else text
    t = t.replace(",", ".")
    if "." in t:
        ip, fp = t.split(".")
    else:
        ip, fp = t, ""
    digits = tuple(int(c) for c in (ip + fp)) or (0,)
    return _decimal.Decimal((1 if neg else 0, digits, -len(fp)))


def decimal_value(text, places):
    """the value OFX assigns: the number written, rounded half-even to `places` decimals when the element has a fixed scale"""
    d = parse_decimal(text)
    if places is None:
        return d
    q = _decimal.Decimal((0, (1,), -places))
    return d.quantize(q, rounding=_decimal.ROUND_HALF_EVEN)


def same_decimal(a, b):
    """equal in value and exponent"""
    return isinstance(a, _decimal.Decimal) and isinstance(b, _decimal.Decimal) and a.as_tuple() == b.as_tuple()


def python_decimal_accepts(text):
    try:
        _decimal.Decimal(text)
        return True
    except _decimal.InvalidOperation:
        try:
            _decimal.Decimal(text.replace(",", "."))
            return True
        except _decimal.InvalidOperation:
            return False


def lenient_decimal_text(text):
    """KNOWN FINDING predicate: accepted by the library although it is not an OFX decimal text (NaN, Infinity, 1E+2, 1_0, ' 1')"""
    return python_decimal_accepts(text) and not is_decimal_text(text)


def is_plain_decimal_lexical(text):
    """C11: plain notation, optional sign, at most one separator - never exponent, NaN, Infinity"""
    return is_decimal_text(text)


def quantum(places):
    return _decimal.Decimal((0, (1,), -places))


# symbolic counterparts (structure only; the numeric laws of `decimal` are T-LIB)
def py_decimal(text):
    return _decimal.Decimal(text)


def py_decimal_ok(text):
    try:
        _decimal.Decimal(text)
        return True
    except _decimal.InvalidOperation:
        return False


py_decimal._pyvc_model = lambda it, a, k: MD.D(MD.dec_of(M.text_term(it, a[0])))
py_decimal_ok._pyvc_model = lambda it, a, k: SBool(MD.dec_ok(M.text_term(it, a[0])))


def comma_to_point(text):
    return text.replace(",", ".")


def _comma_model(it, a, k):
    return M.sm_replace(it, a[0], [",", "."], {})


comma_to_point._pyvc_model = _comma_model


def py_quantize(d, q):
    return d.quantize(q)


def py_quantize_ok(d, q):
    try:
        d.quantize(q)
        return True
    except _decimal.InvalidOperation:
        return False


def _q(it, q):
    q = it.force(q)
    return q.e if isinstance(q, SVal) else MD.lit_dec(it, q)


py_quantize._pyvc_model = lambda it, a, k: MD.D(MD.dec_quant(a[0].e, _q(it, a[1])))
py_quantize_ok._pyvc_model = lambda it, a, k: SBool(MD.dec_quant_ok(a[0].e, _q(it, a[1])))


def py_same_quantum(d, q):
    return d.same_quantum(q)


py_same_quantum._pyvc_model = lambda it, a, k: SBool(MD.dec_same_q(a[0].e, _q(it, a[1])))


def py_str(d):
    return str(d)


py_str._pyvc_model = lambda it, a, k: MD.p_str(it, a[0])


def _same_decimal_model(it, a, k):
    x, y = it.force(a[0]), it.force(a[1])
    if x is None or y is None:
        return False
    return SBool(_q(it, x) == _q(it, y))


same_decimal._pyvc_model = _same_decimal_model


def outcome_of(converter, method, value):
    """what the wrapped converter itself does with the value: ('ok', result) or ('raised', exception class name)"""
    try:
        return ("ok", getattr(converter, method)(value))
    except Exception as ex:
        return ("raised", type(ex).__name__)
