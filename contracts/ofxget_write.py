"""C18 - persistence: mk_server_cfg (the body of ofxget --write) under contract.

For ONE option o of CONFIGURABLE at a time (the loop treats the options independently: every other option is
absent from the arguments), with everything about o symbolic -
    the value given on this run (any non-null value, or null),
    whether the user's file already has o in the server's section and/or in its [DEFAULT] section (and which
      texts), whether the FI database has it in the server's section / its defaults (and which values)
- the real mk_server_cfg runs against an abstract ConfigParser, and the postcondition is the property's own
statement:

    the value given on this run is the value in effect on the next run without command-line options

where "in effect on the next run" is configparser's layering of read([fi.cfg, user file]): the server section
of the user file, then that of the FI database, then the user's [DEFAULT], then the database's, then the
built-in default.  arg2config is abstract (enc) with its reader (dec) assumed inverse: dec(o, enc(o, v)) == v -
the codecs themselves are exercised by the bounded persistence run on real files.

clientuid is special-cased by the code (the global default identifier is never copied into a section): it has no
contract here; the bounded persistence run checks that one default identifier is generated and kept."""
import z3
from pyvc.contract import *
from pyvc.values import *
from pyvc import core as C
from pyvc import models as M
from ofxtools.scripts import ofxget as G
from contracts.client import Marker

enc = z3.Function("arg2config_text", V, V, V)       # (option, value) -> text written
dec = z3.Function("config_text_value", V, V, V)     # (option, text) -> value read
NoneV = z3.Const("NoneV", V)


def tv(it, v):
    if v is None:
        return NoneV
    if isinstance(v, SVal):
        return v.e
    return it.embed(v)


class ASection(Abstract):
    """a section proxy of the user's ConfigParser: own options, falling through to [DEFAULT]"""
    pytype = dict

    def __init__(self, cfg, name):
        self.cfg = cfg; self.name = name

    def own(self):
        return self.cfg.sections[self.name]

    def p_contains(self, it, item):
        k = it.concrete_key(item)
        o = self.own().get(k, (False, None))[0]
        d = self.cfg.sections["DEFAULT"].get(k, (False, None))[0] if self.name != "DEFAULT" else False
        return zor(zbool(o), zbool(d)) if not (isinstance(o, bool) and isinstance(d, bool)) else (o or d)

    def p_getitem(self, it, key):
        k = it.concrete_key(key)
        o = self.own().get(k, (False, None))
        if o[0] is True or (o[0] is not False and it.branch(zbool(o[0]))):
            return o[1]
        if self.name != "DEFAULT":
            d = self.cfg.sections["DEFAULT"].get(k, (False, None))
            if d[0] is True or (d[0] is not False and it.branch(zbool(d[0]))):
                return d[1]
        raise C.Raised(ExcVal(KeyError, (k,)))

    def p_setitem(self, it, key, value):
        k = it.concrete_key(key)
        self.own()[k] = (True, value)
        self.cfg.log.append(("set", self.name, k))


class AConfig(Abstract):
    """the module-level USERCFG: clear()+read() load the (symbolic) content of the user's file"""

    def __init__(self, server, default_opts, server_opts, section_exists):
        self.server = server
        self.sections = {"DEFAULT": dict(default_opts)}
        self.pending = dict(server_opts)
        self.section_exists = section_exists
        self.log = []

    def p_getattr(self, it, name):
        if name == "clear":
            return lambda: None
        if name == "read":
            def read(path):
                if self.section_exists is True or it.branch(zbool(self.section_exists)):
                    self.sections[self.server] = dict(self.pending)
                return [path]
            return read
        if name == "default_section":
            return "DEFAULT"
        if name == "has_section":
            return lambda s: it.concrete_key(s) in self.sections and it.concrete_key(s) != "DEFAULT"
        if name == "has_option":
            def has_option(s, o):
                s = it.concrete_key(s); o = it.concrete_key(o)
                if s not in self.sections:
                    return False
                return M.contains(it, ASection(self, s), o)
            return has_option
        if name == "remove_option":
            def remove_option(s, o):
                s = it.concrete_key(s); o = it.concrete_key(o)
                had = self.sections[s].get(o, (False, None))[0]
                self.sections[s][o] = (False, None)
                self.log.append(("remove", s, o))
                return had if isinstance(had, bool) else SBool(had)
            return remove_option
        raise C.Unsupported(f"ConfigParser.{name}")

    def p_getitem(self, it, key):
        k = it.concrete_key(key)
        if k not in self.sections:
            raise C.Raised(ExcVal(KeyError, (k,)))
        return ASection(self, k)

    def p_setitem(self, it, key, value):
        k = it.concrete_key(key)
        self.sections[k] = {}
        self.log.append(("new-section", k))


class WriteArg(Arg):
    """everything about one option"""

    def __init__(self, opt, name="w"):
        self.name = name; self.opt = opt

    def make(self, it):
        o = self.opt
        d = {
            "opt": o,
            "given": SBool(z3.Bool("cli_gives_the_option")),            # o in args
            "null": SBool(z3.Bool("cli_value_is_null")),                # value in NULL_ARGS
            "value": SVal(object, z3.Const("cli_value", V), {"eq": "term"}),
            "us": SBool(z3.Bool("user_section_has_it")), "us_text": SVal(str, z3.Const("user_section_text", V)),
            "ud": SBool(z3.Bool("user_default_has_it")), "ud_text": SVal(str, z3.Const("user_default_text", V)),
            "fs": SBool(z3.Bool("fi_section_or_defaults_have_it")), "fs_value": SVal(object, z3.Const("fi_value", V), {"eq": "term"}),
            "section_exists": SBool(z3.Bool("user_file_has_the_server_section")),
            "uid_global": SBool(z3.Bool("user_default_has_clientuid")), "uid_text": SVal(str, z3.Const("global_clientuid", V)),
        }
        asm = [z3.Implies(d["us"].e, d["section_exists"].e)]
        return d, asm


def call_mk(it, fn, a):
    w = a[0]
    o = w["opt"]
    it.models[G.arg2config] = lambda it_, ar, kw: SVal(str, enc(tv(it_, ar[0]), tv(it_, ar[2])))
    default_opts = {"clientuid": (w["uid_global"].e, w["uid_text"])}
    if o != "clientuid":
        default_opts[o] = (w["ud"].e, w["ud_text"])
    cfg = AConfig("mybank", default_opts, {o: (w["us"].e, w["us_text"])}, w["section_exists"].e)
    import ofxtools.scripts.ofxget as g

    class AArgs(Abstract):
        pytype = dict

        def p_contains(self, it_, item):
            return w["given"].e if it_.concrete_key(item) == o else False

        def p_getitem(self, it_, key):
            k = it_.concrete_key(key)
            if k == o:
                if it_.branch(w["given"].e):
                    if it_.branch(w["null"].e):
                        return None
                    return w["value"]
                if k != "url":
                    raise C.Raised(ExcVal(KeyError, (k,)))
            if k == "url":
                return "https://example.invalid/ofx"      # merge_config always provides the key
            raise C.Raised(ExcVal(KeyError, (k,)))

        def p_getattr(self, it_, name):
            if name == "get":
                return lambda k, default=None: "mybank" if it_.concrete_key(k) == "server" else default
            raise C.Unsupported(f"args.{name}")

    class ALib(Abstract):
        pytype = dict

        def p_getattr(self, it_, name):
            if name == "get":
                def get(k, default=None):
                    if it_.concrete_key(k) == o and it_.branch(w["fs"].e):
                        return w["fs_value"]
                    return default
                return get
            raise C.Unsupported(f"lib_cfg.{name}")
    it.models[G.read_config] = lambda it_, ar, kw: ALib()
    # the non-null value is none of None, '', []
    it.assume(z3.And(w["value"].e != NoneV, w["value"].e != it.embed(""), w["value"].e != it.embed([])))
    node = it.index.node_for(G.mk_server_cfg)
    env = C.Env(None, G)
    env.vars.update({"USERCFG": cfg, "LIBCFG": Marker("LIBCFG"), "USERCONFIGPATH": "ofxget.cfg",
                     "OFXClient": Marker("OFXClient", uuid=SVal(str, z3.Const("fresh_uuid", V)))})
    clo = C.Closure(node, env, G, "mk_server_cfg")
    it.call(clo, [AArgs()], {})
    sec = cfg.sections.get("mybank", {})
    own = sec.get(o, (False, None))
    return {"own": SBool(zbool(own[0])) if not isinstance(own[0], bool) else own[0], "own_text": own[1],
            "default_uid": (lambda d: (True if d[0] is True else (d[0] if isinstance(d[0], bool) else SBool(d[0])), d[1]))(cfg.sections["DEFAULT"].get("clientuid", (False, None))), "log": list(cfg.log)}


def next_effective(it, w, res):
    """typed value in effect on the next run: user[server] > fi[server or defaults] > user[DEFAULT] > DEFAULTS"""
    o = w["opt"]
    oe = it.embed(o)
    built_in = it.embed(G.DEFAULTS[o]) if G.DEFAULTS[o] is not None else NoneV
    own = res["own"]
    own_b = zbool(own.e if isinstance(own, SBool) else own)
    own_t = res["own_text"].e if isinstance(res["own_text"], SVal) else NoneV
    return z3.If(own_b, dec(oe, own_t),
                 z3.If(w["fs"].e, w["fs_value"].e,
                       z3.If(w["ud"].e, dec(oe, w["ud_text"].e), built_in)))


def persisted(w, result):
    raise RuntimeError("symbolic only")


def _persisted_model(it, a, kw):
    w, res = a
    oe = it.embed(w["opt"])
    v = w["value"].e
    # codec axiom for the value at hand and for the texts compared with its encoding
    it.assume(dec(oe, enc(oe, v)) == v)
    return SBool(next_effective(it, w, res) == v)


persisted._pyvc_model = _persisted_model
persisted._pyvc_always = True

import contracts.spec.ofxget as _sp
_sp.persisted_after_write = persisted

CONTRACTS = []
for o in G.CONFIGURABLE:
    if o == "clientuid":
        continue
    CONTRACTS.append(Contract("ofxtools.scripts.ofxget:mk_server_cfg", args=[WriteArg(o)], call=call_mk,
                              ensures=[("C18-value-given-is-in-effect-next-run", "not w['given'] or w['null'] or spec.ofxget.persisted_after_write(w, result)"),
                                       ("C18-global-default-clientuid-kept", "not w['uid_global'] or (result['default_uid'][0] and result['default_uid'][1] == w['uid_text'])"),
                                       ("C18-global-default-clientuid-created-once", "w['uid_global'] or result['default_uid'][0]"),
                                       ("nothing-touched-when-not-given", "(w['given'] and not w['null']) or len([e for e in result['log'] if e[0] in ('set', 'remove') and e[2] == w['opt']]) == 0")],
                              raises=[(ValueError, "w['opt'] == 'url'", "may")],      # a URL equal to the server nickname: no nickname, nothing to write
                              notes=f"option {o}: value, presence in the user's server section / [DEFAULT] section / FI database all symbolic",
                              props=["C18"], symbolic_only=True))
