"""Sidecar contracts for the request composition in ofxtools.Client (property C06): sign-on, the five
transaction-wrapper builders, the wrap_stmtrq dispatch arms, and the version / end-tag guards.  Model classes
are really instantiated (Aggregate.__init__ interpreted); element converters are abstract (contracts.agghooks)."""
import datetime
import z3
from pyvc.contract import *
from pyvc.values import *
from pyvc import core as C
from pyvc import models as M
from ofxtools import Client as CL
from ofxtools.Client import OFXClient, StmtRq, CcStmtRq, InvStmtRq, StmtEndRq, CcStmtEndRq
from contracts.client import ClientArg, Marker, T, log
from contracts import agghooks


def OT(name):
    return OptArg(T(name))


def dt(name):
    return OptArg(TextArg(name))       # an opaque date-time value (only routed, never inspected)


def setup(it):
    agghooks.install(it)
    it.models[OFXClient.dtclient] = lambda it_, a, k: Marker("now")


def call_method(name, kwnames):
    def call(it, fn, a):
        setup(it)
        return it.call(getattr(OFXClient, name), [a[0]], {k: v for k, v in zip(kwnames, a[1:])})
    return call


def H(path, attr, value):
    return f"spec.client.holds({path}, {attr!r}, {value})"


CONTRACTS = [
    # 0 ------------------------------------------------------------------ signon
    Contract("ofxtools.Client:OFXClient.signon",
             args=[ClientArg(), T("userpass"), OT("userid")], call=call_method("signon", ["userpass", "userid"]),
             ensures=[("credentials", H("result.sonrq", "userpass", "userpass") + " and " + H("result.sonrq", "userid", "self.userid if userid is None else userid")),
                      ("application-identity", H("result.sonrq", "language", "self.language") + " and " + H("result.sonrq", "appid", "self.appid") + " and " + H("result.sonrq", "appver", "self.appver")),
                      ("FI-iff-ORG", "(self.org is None and result.sonrq.fi is None) or (self.org is not None and " + H("result.sonrq.fi", "org", "self.org") + " and " + H("result.sonrq.fi", "fid", "self.fid") + ")"),
                      ("CLIENTUID-iff-configured-and-version>=103", H("result.sonrq", "clientuid", "self.clientuid if self.version >= 103 else None"))],
             raises=[(ValueError, "True", "may"), (TypeError, "True", "may")],
             props=["C06", "C14"], symbolic_only=True),
    # 1 ------------------------------------------------------------------ stmttrnrq
    Contract("ofxtools.Client:OFXClient.stmttrnrq",
             args=[ClientArg(), T("bankid"), T("acctid"), T("accttype"), dt("dtstart"), dt("dtend"), BoolArg("inctran")],
             call=call_method("stmttrnrq", ["bankid", "acctid", "accttype", "dtstart", "dtend", "inctran"]),
             ensures=[("account", H("result.stmtrq.bankacctfrom", "bankid", "bankid") + " and " + H("result.stmtrq.bankacctfrom", "acctid", "acctid") + " and " + H("result.stmtrq.bankacctfrom", "accttype", "accttype")),
                      ("dates-and-flag", H("result.stmtrq.inctran", "dtstart", "dtstart") + " and " + H("result.stmtrq.inctran", "dtend", "dtend") + " and " + H("result.stmtrq.inctran", "include", "inctran")),
                      ("trnuid", "spec.client.has_value(result, 'trnuid')")],
             raises=[(ValueError, "True", "may"), (TypeError, "True", "may")], props=["C06"], symbolic_only=True),
    # 2 stmtendtrnrq
    Contract("ofxtools.Client:OFXClient.stmtendtrnrq",
             args=[ClientArg(), T("bankid"), T("acctid"), T("accttype"), dt("dtstart"), dt("dtend")],
             call=call_method("stmtendtrnrq", ["bankid", "acctid", "accttype", "dtstart", "dtend"]),
             ensures=[("account", H("result.stmtendrq.bankacctfrom", "bankid", "bankid") + " and " + H("result.stmtendrq.bankacctfrom", "acctid", "acctid") + " and " + H("result.stmtendrq.bankacctfrom", "accttype", "accttype")),
                      ("dates", H("result.stmtendrq", "dtstart", "dtstart") + " and " + H("result.stmtendrq", "dtend", "dtend")),
                      ("trnuid", "spec.client.has_value(result, 'trnuid')")],
             raises=[(ValueError, "True", "may"), (TypeError, "True", "may")], props=["C06"], symbolic_only=True),
    # 3 ccstmttrnrq
    Contract("ofxtools.Client:OFXClient.ccstmttrnrq",
             args=[ClientArg(), T("acctid"), dt("dtstart"), dt("dtend"), BoolArg("inctran")],
             call=call_method("ccstmttrnrq", ["acctid", "dtstart", "dtend", "inctran"]),
             ensures=[("account", H("result.ccstmtrq.ccacctfrom", "acctid", "acctid")),
                      ("dates-and-flag", H("result.ccstmtrq.inctran", "dtstart", "dtstart") + " and " + H("result.ccstmtrq.inctran", "dtend", "dtend") + " and " + H("result.ccstmtrq.inctran", "include", "inctran"))],
             raises=[(ValueError, "True", "may"), (TypeError, "True", "may")], props=["C06"], symbolic_only=True),
    # 4 ccstmtendtrnrq
    Contract("ofxtools.Client:OFXClient.ccstmtendtrnrq",
             args=[ClientArg(), T("acctid"), dt("dtstart"), dt("dtend")],
             call=call_method("ccstmtendtrnrq", ["acctid", "dtstart", "dtend"]),
             ensures=[("account", H("result.ccstmtendrq.ccacctfrom", "acctid", "acctid")),
                      ("dates", H("result.ccstmtendrq", "dtstart", "dtstart") + " and " + H("result.ccstmtendrq", "dtend", "dtend"))],
             raises=[(ValueError, "True", "may"), (TypeError, "True", "may")], props=["C06"], symbolic_only=True),
    # 5 invstmttrnrq
    Contract("ofxtools.Client:OFXClient.invstmttrnrq",
             args=[ClientArg(), T("acctid"), T("brokerid"), dt("dtstart"), dt("dtend"), BoolArg("inctran"), BoolArg("incoo"), dt("dtasof"), BoolArg("incpos"), BoolArg("incbal")],
             call=call_method("invstmttrnrq", ["acctid", "brokerid", "dtstart", "dtend", "inctran", "incoo", "dtasof", "incpos", "incbal"]),
             ensures=[("account", H("result.invstmtrq.invacctfrom", "acctid", "acctid") + " and " + H("result.invstmtrq.invacctfrom", "brokerid", "brokerid")),
                      ("transactions-iff-asked", "(not inctran and result.invstmtrq.inctran is None) or (inctran and " + H("result.invstmtrq.inctran", "dtstart", "dtstart") + " and " + H("result.invstmtrq.inctran", "dtend", "dtend") + " and " + H("result.invstmtrq.inctran", "include", "True") + ")"),
                      ("flags", H("result.invstmtrq", "incoo", "incoo") + " and " + H("result.invstmtrq", "incbal", "incbal") + " and " + H("result.invstmtrq.incpos", "include", "incpos") + " and " + H("result.invstmtrq.incpos", "dtasof", "dtasof"))],
             raises=[(ValueError, "True", "may"), (TypeError, "True", "may")], props=["C06"], symbolic_only=True),
]


# ------------------------------------------------------------------ wrap_stmtrq arms: one wrapper per request, each with its own fields, in order
class RqArg(Arg):
    """a request tuple of the given NamedTuple class with symbolic field values"""

    def __init__(self, name, cls):
        self.name = name; self.cls = cls

    def make(self, it):
        vals = {}
        asm = []
        for f in self.cls._fields:
            if f.startswith("inc"):
                vals[f] = SBool(z3.Bool(f"{self.name}_{f}"))
            elif f.startswith("dt"):
                vals[f] = SIte(z3.Bool(f"{self.name}_{f}_none"), None, SVal(object, z3.Const(f"{self.name}_{f}", V), {"eq": "term"}))
            else:
                t = z3.Const(f"{self.name}_{f}", V)
                vals[f] = SVal(str, t); asm.append(tlen(t) >= 1)
        return self.cls(**vals), asm


BUILDER_OF = {StmtRq: "stmttrnrq", StmtEndRq: "stmtendtrnrq", CcStmtRq: "ccstmttrnrq", CcStmtEndRq: "ccstmtendtrnrq", InvStmtRq: "invstmttrnrq"}
ID_OF = {StmtRq: "bankid", StmtEndRq: "bankid", InvStmtRq: "brokerid"}


def call_wrap(cls):
    """modular: the five builders are abstract callees here (their own contracts, 1-5 above, say where every argument
    goes); what is proved of the dispatch arm is WHICH builder it calls, HOW OFTEN and WITH WHAT"""
    def call(it, fn, a):
        setup(it)
        for k, nm in BUILDER_OF.items():
            it.models[getattr(OFXClient, nm)] = (lambda nm_: lambda it_, args, kw: (log(it_, "builder", nm_, args[0], dict(kw), list(args[1:])),
                                                                                     Marker("wrapper", builder=nm_, kw=dict(kw)))[1])(nm)
        return it.call(CL.wrap_stmtrq, [cls(), [a[1], a[2]], a[0]], {})
    return call


def wrapped_from(ghost, result, client, rqs, kind):
    raise RuntimeError("symbolic only")


def _wrapped_from(it, a, kw):
    ghost, result, client, rqs, kind = a
    cls = {k.__name__: k for k in BUILDER_OF}[kind]
    calls_ = [c for c in ghost["calls"] if c[0] == "builder"]
    if len(calls_) != len(rqs) or not isinstance(result, tuple) or len(result) != 2 or len(result[1]) != len(rqs):
        return False
    for i, (c, rq) in enumerate(zip(calls_, rqs)):
        if c[1] != BUILDER_OF[cls] or c[2] is not client or c[4]:
            return False
        want = dict(rq._asdict())
        if cls in ID_OF:
            want[ID_OF[cls]] = it.getattr(client, ID_OF[cls])
        got = c[3]
        if set(got) != set(want):
            return False
        for k, v in want.items():
            g = got[k]
            same = g is v or (isinstance(g, SVal) and isinstance(v, SVal) and g.e.eq(v.e)) or (isinstance(g, SBool) and isinstance(v, SBool) and g.e.eq(v.e)) \
                or (not isinstance(g, (Sym, Abstract)) and not isinstance(v, (Sym, Abstract)) and type(g) is type(v) and g == v)
            if not same:
                return False
        w = result[1][i]
        if not (isinstance(w, Marker) and w.label == "wrapper" and w.attrs["kw"] is not None and w.attrs["builder"] == BUILDER_OF[cls]):
            return False
    return True


wrapped_from._pyvc_model = _wrapped_from
wrapped_from._pyvc_always = True
import contracts.spec.client as _spc0
_spc0.wrapped_from = wrapped_from

WRAP = {StmtRq: "BANKMSGSRQV1", StmtEndRq: "BANKMSGSRQV1", CcStmtRq: "CREDITCARDMSGSRQV1", CcStmtEndRq: "CREDITCARDMSGSRQV1", InvStmtRq: "INVSTMTMSGSRQV1"}
W0 = len(CONTRACTS)
for cls, msgset in WRAP.items():
    CONTRACTS.append(Contract("ofxtools.Client:wrap_stmtrq", args=[ClientArg(), RqArg("rq0", cls), RqArg("rq1", cls)], call=call_wrap(cls),
                              ensures=[("message-set", f"result[0].__name__ == {msgset!r} and len(result[1]) == 2"),
                                       ("one-builder-call-per-request-with-the-request's-own-fields-and-the-client's-id",
                                        f"spec.client.wrapped_from(ghost, result, self, [rq0, rq1], {cls.__name__!r})")],
                              notes=f"dispatch arm for {cls.__name__}: two symbolic requests stand for the request sequence (per-request step); the builder is an abstract callee (contracts 1-5)",
                              props=["C06"], symbolic_only=True))


# ------------------------------------------------------------------ version / end-tag guards
def call_init_guard(it, fn, a):
    return it.call(OFXClient, [a[0]], {"version": a[1], "close_elements": a[2]})


def call_serialize(it, fn, a):
    self, version, close = a
    it.models[CL.make_header] = lambda it_, ar, kw: (log(it_, "make_header", kw.get("version")), Marker("header"))[1]
    it.models[CL.utils.indent] = lambda it_, ar, kw: log(it_, "indent")
    it.models[CL.utils.tostring_unclosed_elements] = lambda it_, ar, kw: (log(it_, "unclosed"), SVal(bytes, it_.fresh("body", "V")))[1]
    it.models[CL.ET.tostring] = lambda it_, ar, kw: (log(it_, "closed", kw.get("method")), SVal(bytes, it_.fresh("body", "V")))[1]
    ofx = Marker("ofx", to_etree=lambda: Marker("tree"))
    return it.call(OFXClient.serialize, [self, ofx], {"version": version, "close_elements": close})


G0 = len(CONTRACTS)
CONTRACTS += [
    Contract("ofxtools.Client:OFXClient.__init__",
             args=[T("url"), IntArg("version", 100, 299), BoolArg("close_elements")], call=call_init_guard,
             ensures=[("configured", "result.version == version and result.close_elements is close_elements")],
             raises=[(ValueError, "version >= 200 and not close_elements", "must")],
             notes="versions 2xx refuse to omit end tags (constructor)", props=["C06"], symbolic_only=True),
    Contract("ofxtools.Client:OFXClient.serialize",
             args=[ClientArg(), OptArg(IntArg("version", 100, 299)), OneOfArg("close_elements", [None, True, False])], call=call_serialize,
             ensures=[("header-version", "spec.client.calls(ghost, 'make_header')[0][1] == (self.version if version is None else version)"),
                      ("body-form", "(len(spec.client.calls(ghost, 'unclosed')) == 1) == ((self.close_elements if close_elements is None else close_elements) is False)"),
                      ("html-method-for-closed-forms", "len(spec.client.calls(ghost, 'unclosed')) == 1 or spec.client.calls(ghost, 'closed')[0][1] == 'html'"),
                      ("pretty-iff-configured", "(len(spec.client.calls(ghost, 'indent')) == 1) == bool(self.prettyprint)")],
             raises=[(ValueError, "(self.close_elements if close_elements is None else close_elements) is False and (self.version if version is None else version) >= 200", "must")],
             notes="versions 2xx refuse to omit end tags (serialize override path)", props=["C06"], symbolic_only=True),
]


# ------------------------------------------------------------------ request_statements: the assembly (sort / group / wrap / message sets)
# Requests of the five kinds in a given order of kinds, every field symbolic.  The per-kind wrapping is the wrap_stmtrq
# contracts above and is abstract here: wrap(rq) stands for the wrapper the arm builds for rq.  Proved: the OFX handed
# to download() has exactly the message sets of the kinds asked for, each holding exactly one wrapper per request of its
# kinds - none lost, none twice, none in another set - requests of one kind in the order given; the sign-on built from
# the password is the one sent; nothing else is passed to OFX().
from contracts.client import install_request_models, calls as _calls

MSGSET_OF = {StmtRq: "BANKMSGSRQV1", StmtEndRq: "BANKMSGSRQV1", CcStmtRq: "CREDITCARDMSGSRQV1", CcStmtEndRq: "CREDITCARDMSGSRQV1", InvStmtRq: "INVSTMTMSGSRQV1"}


class RqListArg(Arg):
    def __init__(self, kinds, name="rqs"):
        self.kinds = kinds; self.name = name

    def make(self, it):
        out, asm = [], []
        for i, k in enumerate(self.kinds):
            v, a = RqArg(f"rq{i}", k).make(it)
            out.append(v); asm += a
        return out, asm


def call_assembly(it, fn, a):
    self, password, rqs = a[:3]
    dryrun = a[3] if len(a) > 3 else True
    skip = a[4] if len(a) > 4 else False
    install_request_models(it)

    def m_wrap(it_, args, kw):
        nt, group, client = args
        group = it_.iterate(group)
        log(it_, "wrap_stmtrq", type(nt), list(group), client)
        return (getattr(CL, MSGSET_OF[type(nt)]), [Marker("wrapper", of=rq) for rq in group])
    it.models[CL.wrap_stmtrq] = m_wrap
    for nm in set(MSGSET_OF.values()):
        it.models[getattr(CL, nm)] = (lambda nm_: lambda it_, args, kw: (log(it_, nm_, list(args), dict(kw)), Marker(nm_, members=list(args), kw=dict(kw)))[1])(nm)
    return it.call(OFXClient.request_statements, [self, password] + list(rqs), {"dryrun": dryrun, "skip_profile": skip})


def assembled_ok(ghost, rqs, client):
    raise RuntimeError("symbolic only")


def _assembled_ok(it, a, kw):
    ghost, rqs, client = a
    ofx = [c for c in ghost["calls"] if c[0] == "OFX"]
    if len(ofx) != 1 or ofx[0][1]:
        return False
    kwargs = dict(ofx[0][2])
    so = kwargs.pop("signonmsgsrqv1", None)
    if not (isinstance(so, Marker) and so.label == "signon"):
        return False
    want = {}
    for rq in rqs:
        want.setdefault(MSGSET_OF[type(rq)].lower(), []).append(rq)
    if set(kwargs) != set(want):
        return False
    for name, ms in kwargs.items():
        if not (isinstance(ms, Marker) and ms.label.lower() == name and not ms.attrs["kw"]):
            return False
        got = [w.attrs["of"] for w in ms.attrs["members"] if isinstance(w, Marker) and w.label == "wrapper"]
        if len(got) != len(ms.attrs["members"]) or len(got) != len(want[name]):
            return False
        # each request exactly once (identity), requests of one kind in the order given
        if sorted(map(id, got)) != sorted(map(id, want[name])):
            return False
        for k in set(map(type, got)):
            if [id(x) for x in got if type(x) is k] != [id(x) for x in want[name] if type(x) is k]:
                return False
    # every wrap call was made for this client
    return all(c[3] is client for c in ghost["calls"] if c[0] == "wrap_stmtrq")


assembled_ok._pyvc_model = _assembled_ok
assembled_ok._pyvc_always = True
import contracts.spec.client as _spc
_spc.assembled_ok = assembled_ok

A0 = len(CONTRACTS)
KIND_PATTERNS = [[], [StmtRq], [InvStmtRq, StmtRq], [StmtRq, CcStmtRq, StmtRq], [StmtEndRq, StmtRq, CcStmtEndRq, CcStmtRq],
                 [InvStmtRq, CcStmtRq, StmtRq, InvStmtRq, StmtEndRq], [CcStmtRq, CcStmtRq, CcStmtEndRq, StmtEndRq, StmtEndRq, StmtRq]]
for kinds in KIND_PATTERNS:
    CONTRACTS.append(Contract("ofxtools.Client:OFXClient.request_statements", args=[ClientArg(), T("password"), RqListArg(kinds), BoolArg("dryrun"), BoolArg("skip_profile")], call=call_assembly,
                              ensures=[("one-wrapper-per-request-in-its-own-message-set", "spec.client.assembled_ok(ghost, rqs, self)"),
                                       ("C14-profile-looked-up-only-when-needed (never on a dry run), whatever is requested", "len(spec.client.calls(ghost, '_get_service_urls')) == (0 if (dryrun or skip_profile) else 1)"),
                                       ("C14-url-rule", "spec.client.calls(ghost, 'download')[0][2]['url'] == ('' if dryrun else (self.url if skip_profile else spec.client.PROFILE_URL()))"),
                                       ("C14-dryrun-passed-on", "spec.client.calls(ghost, 'download')[0][2]['dryrun'] is dryrun"),
                                       ("sign-on-from-the-password", "len(spec.client.calls(ghost, 'signon')) == 1 and spec.client.calls(ghost, 'signon')[0][1] is password"),
                                       ("one-download-of-that-OFX", "len(spec.client.calls(ghost, 'download')) == 1 and len(spec.client.calls(ghost, 'OFX')) == 1")],
                              notes=f"request kinds in this order: {[k.__name__ for k in kinds]}; all fields symbolic; dry run / skip_profile symbolic; wrap_stmtrq abstract (its arms have their own contracts)",
                              props=["C06", "C14"], symbolic_only=True))
