"""Sidecar contracts for ofxtools.Client.OFXClient (properties C14, C15, C06).
Callees outside the function under contract are abstract: they record their arguments in the ghost call log
and return opaque values (contracts only, never bodies)."""
import datetime, io, http.cookiejar, urllib.request as urllib_request
import z3
from pyvc.contract import *
from pyvc.values import *
from pyvc import core as C
from pyvc import models as M
from ofxtools import Client as CL
from ofxtools.Client import OFXClient, AUTH_PLACEHOLDER

ser_f = z3.Function("serialized", V, V)
resp_f = z3.Function("response_body", V, V)


def T(name, nonempty=True):
    return TextArg(name, nonempty=nonempty, sampler=lambda r: r.choice(["https://a.example/ofx", "u&<p>", "x", "é€", "p w d"]))


class ClientArg(Arg):
    name = "self"

    def __init__(self, **over):
        self.over = over

    def make(self, it):
        f = {}
        asm = []
        for k in ("url", "userid", "appid", "appver", "language", "useragent"):
            t = z3.Const("self_" + k, V)
            f[k] = SVal(str, t); asm.append(tlen(t) >= 1)
        for k in ("clientuid", "org", "fid", "bankid", "brokerid"):
            t = z3.Const("self_" + k, V)
            f[k] = SIte(z3.Bool(f"self_{k}_none"), None, SVal(str, t)); asm.append(tlen(t) >= 1)
        v = z3.Int("self_version")
        f["version"] = SInt(v); asm += [v >= 100, v <= 299]
        for k in ("prettyprint", "close_elements", "persist_cookies"):
            f[k] = SBool(z3.Bool("self_" + k))
        f["cookiejar"] = Marker("jar-of-self")
        f.update(self.over)
        return SObj(OFXClient, f, fresh=False, label="self"), asm


class Marker(Abstract):
    """an opaque object identified by its label (cookie jars, openers, requests ...)"""
    _immutable = True

    def __init__(self, label, **attrs):
        self.label = label; self.attrs = attrs

    def p_getattr(self, it, name):
        if name in self.attrs:
            return self.attrs[name]
        raise C.Unsupported(f"{self.label}.{name}")

    def p_truth(self, it):
        return True

    def __repr__(self):
        return f"Marker({self.label})"


class ABytesIO(Abstract):
    pytype = io.BytesIO

    def __init__(self, content):
        self.content = content


def log(it, *rec):
    it.st.ghost["calls"].append(rec)


def calls(ghost, name):
    return [c for c in ghost["calls"] if c[0] == name]


# ----------------------------------------------------------------------------- abstract callees
def m_serialize(it, args, kw):
    log(it, "serialize", args[1], dict(kw))
    e = args[1].e if isinstance(args[1], SVal) else it.fresh("ofx", "V")
    return SVal(bytes, ser_f(e), {"eq": "term"})


def m_post_request(it, args, kw):
    log(it, "post_request", args[1], args[2], args[3] if len(args) > 3 else kw.get("timeout"))
    return SVal(bytes, it.fresh("http_response", "V"), {"eq": "term"})


def m_BytesIO(it, args, kw):
    return ABytesIO(args[0] if args else b"")


def install_download_models(it):
    it.models[OFXClient.serialize] = m_serialize
    it.models[OFXClient.post_request] = m_post_request
    it.models[io.BytesIO] = m_BytesIO
    it.models[CL.BytesIO] = m_BytesIO


def call_download(it, fn, a):
    install_download_models(it)
    self, ofx, dryrun, url, timeout = a
    return it.call(OFXClient.download, [self, ofx], {"dryrun": dryrun, "url": url, "timeout": timeout})


def install_urllib_models(it):
    def m_proc(it_, args, kw):
        return Marker("HTTPCookieProcessor", jar=args[0] if args else None)

    def m_build_opener(it_, args, kw):
        handlers = list(args)

        def open_(req, timeout=None):
            log(it_, "open", req, timeout, handlers)
            # the server / the network may fail any attempt: an HTTP error status, a connection error, a time-out
            n = len([c for c in it_.st.ghost["calls"] if c[0] == "open"])
            if it_.branch(z3.Bool(f"attempt_{n}_fails")):
                import urllib.error, socket
                kind = urllib.error.HTTPError if it_.branch(z3.Bool(f"attempt_{n}_fails_with_http_status")) else (urllib.error.URLError if it_.branch(z3.Bool(f"attempt_{n}_fails_with_url_error")) else socket.timeout)
                raise C.Raised(ExcVal(kind, ("request failed",)))
            return Marker("response", read=lambda: SVal(bytes, it_.fresh("http_response", "V"), {"eq": "term"}))
        return Marker("opener", open=open_)

    def m_Request(it_, args, kw):
        rec = {"url": args[0], "method": kw.get("method"), "data": kw.get("data"), "headers": kw.get("headers")}
        log(it_, "Request", rec)
        return Marker("request", rec=rec)
    it.models[urllib_request.HTTPCookieProcessor] = m_proc
    it.models[urllib_request.build_opener] = m_build_opener
    it.models[urllib_request.Request] = m_Request


def call_post_request(it, fn, a):
    install_urllib_models(it)
    return it.call(OFXClient.post_request, list(a), {})


def install_request_models(it):
    def m_urls(it_, args, kw):
        log(it_, "_get_service_urls")
        u = SVal(str, z3.Const("PROFILE_URL", V))
        return {CL.StmtRq: u, CL.CcStmtRq: u}

    def m_signon(it_, args, kw):
        log(it_, "signon", args[1] if len(args) > 1 else kw.get("userpass"), kw.get("userid", args[2] if len(args) > 2 else None))
        return Marker("signon")

    def m_download(it_, args, kw):
        log(it_, "download", args[1], dict(kw))
        return ABytesIO(SVal(bytes, it_.fresh("dl", "V")))

    def m_model(label):
        def f(it_, args, kw):
            log(it_, label, list(args), dict(kw))
            return Marker(label)
        return f
    it.models[OFXClient._get_service_urls] = m_urls
    it.models[OFXClient.signon] = m_signon
    it.models[OFXClient.download] = m_download
    for nm in ("OFX", "ACCTINFORQ", "ACCTINFOTRNRQ", "SIGNUPMSGSRQV1", "TAX1099RQ", "TAX1099TRNRQ", "TAX1099MSGSRQV1",
               "PROFRQ", "PROFTRNRQ", "PROFMSGSRQV1"):
        it.models[getattr(CL, nm)] = m_model(nm)


def call_request(name, extra_args=()):
    def call(it, fn, a):
        install_request_models(it)
        self, password, dryrun, skip = a
        return it.call(getattr(OFXClient, name), [self, password] + list(extra_args), {"dryrun": dryrun, "skip_profile": skip})
    return call


def call_request_profile(it, fn, a):
    install_request_models(it)
    self, url = a
    return it.call(OFXClient._request_profile, [self], {"url": url})


def call_init(it, fn, a):
    made = []

    policies = []

    def m_jar(it_, args, kw):
        j = Marker(f"CookieJar#{len(made)}")
        made.append(j)
        policies.append(args[0] if args else kw.get("policy"))
        return j

    def m_policy(it_, args, kw):
        # a policy object built with restricting arguments is not the standard policy
        return Marker("DefaultCookiePolicy", restricted=bool(args) or any(v is not None and v is not False for k, v in kw.items()
                                                                            if k in ("blocked_domains", "allowed_domains", "secure_protocols")) or
                      any(k not in ("blocked_domains", "allowed_domains", "secure_protocols") for k in kw))
    it.models[http.cookiejar.CookieJar] = m_jar
    it.models[http.cookiejar.DefaultCookiePolicy] = m_policy
    o = it.call(OFXClient, list(a), {})
    standard = all(p is None or (isinstance(p, Marker) and p.label == "DefaultCookiePolicy" and not p.attrs.get("restricted")) for p in policies)
    return (o, made, standard)


CONTRACTS = [
    # 0 ------------------------------------------------------------------ download: nothing is sent on a dry run; otherwise exactly one POST
    Contract("ofxtools.Client:OFXClient.download",
             args=[ClientArg(), TextArg("ofx"), BoolArg("dryrun"), OptArg(T("url")), Const("timeout", None)],
             call=call_download,
             ensures=[("dry-run-sends-nothing", "not dryrun or len(spec.client.calls(ghost, 'post_request')) == 0"),
                      ("dry-run-returns-the-request", "not dryrun or spec.client.is_serialized(result, ofx)"),
                      ("exactly-one-post", "dryrun or len(spec.client.calls(ghost, 'post_request')) == 1"),
                      ("post-goes-to-the-url", "dryrun or spec.client.calls(ghost, 'post_request')[0][1] == (self.url if url is None else url)"),
                      ("post-body-is-the-serialized-request", "dryrun or spec.client.is_serialized_value(spec.client.calls(ghost, 'post_request')[0][2], ofx)"),
                      ("serialized-once", "len(spec.client.calls(ghost, 'serialize')) == 1")],
             props=["C14", "C06"], symbolic_only=True),
    # 1 ------------------------------------------------------------------ post_request (urllib branch)
    Contract("ofxtools.Client:OFXClient.post_request",
             args=[ClientArg(), T("url"), TextArg("serialized_request"), OneOfArg("timeout", [None, False, 3.5])],
             call=call_post_request,
             ensures=[("one-request-one-open", "len(spec.client.calls(ghost, 'Request')) == 1 and len(spec.client.calls(ghost, 'open')) == 1"),
                      ("POST-url-body", "spec.client.calls(ghost, 'Request')[0][1]['method'] == 'POST' and spec.client.calls(ghost, 'Request')[0][1]['url'] == url and spec.client.calls(ghost, 'Request')[0][1]['data'] is serialized_request"),
                      ("headers", "spec.client.headers_ok(spec.client.calls(ghost, 'Request')[0][1]['headers'], self.useragent)"),
                      ("cookie-jar-of-this-client-iff-persist", "spec.client.jar_rule(spec.client.calls(ghost, 'open')[0][3], self.persist_cookies, self.cookiejar)"),
                      ("timeout", "spec.client.calls(ghost, 'open')[0][2] == (10.0 if timeout in (None, False) else timeout)")],
             raises=[(OSError, "True", "may")],        # HTTPError / URLError / socket.timeout from the one attempt propagate
             on_raise=[("a-failed-request-is-not-sent-again", "len(spec.client.calls(ghost, 'Request')) <= 1 and len(spec.client.calls(ghost, 'open')) <= 1")],
             notes="USE_REQUESTS is False in this sandbox (A-NOREQ): the urllib branch is the verified path; every attempt may fail (HTTP status, URL error, time-out): the request - credentials included - goes out exactly once either way", props=["C14"], symbolic_only=True),
    # 2 ------------------------------------------------------------------ http_headers
    Contract("ofxtools.Client:OFXClient.http_headers",
             args=[ClientArg()], call=lambda it, fn, a: it.getattr(a[0], "http_headers"),
             ensures=[("headers", "spec.client.headers_ok(result, self.useragent)")], props=["C14"], symbolic_only=True),
]
ACCTUP_DATE = Marker("the-date-the-caller-asks-with", tzinfo=Marker("its-own-zone"),
                     # whatever is derived from the caller's date is another object (a relabelled or shifted date-time)
                     replace=lambda *a, **k: Marker("a-date-derived-from-the-caller's"), astimezone=lambda *a, **k: Marker("a-date-derived-from-the-caller's"),
                     utcoffset=lambda *a, **k: Marker("its-offset"))
for nm, extra in (("request_statements", ()), ("request_accounts", (ACCTUP_DATE,)), ("request_tax1099", ())):
    CONTRACTS.append(Contract(
        f"ofxtools.Client:OFXClient.{nm}",
        args=[ClientArg(), T("password"), BoolArg("dryrun"), BoolArg("skip_profile")], call=call_request(nm, extra),
        ensures=[("one-download", "len(spec.client.calls(ghost, 'download')) == 1"),
                 ("url-rule", "spec.client.calls(ghost, 'download')[0][2]['url'] == ('' if dryrun else (self.url if skip_profile else spec.client.PROFILE_URL()))"),
                 ("dryrun-passed-on", "spec.client.calls(ghost, 'download')[0][2]['dryrun'] is dryrun"),
                 ("profile-looked-up-only-when-needed", "len(spec.client.calls(ghost, '_get_service_urls')) == (0 if (dryrun or skip_profile) else 1)"),
                 ("credentials", "len(spec.client.calls(ghost, 'signon')) == 1 and spec.client.calls(ghost, 'signon')[0][1] is password and spec.client.calls(ghost, 'signon')[0][2] is None")],
        notes="no requests given (the composition of the wrappers is C06)", props=["C14"] + (["C06"] if nm == "request_accounts" else []), symbolic_only=True))
    if nm == "request_accounts":
        CONTRACTS[-1].ensures.append(("C06-the-date-asked-with-is-the-caller's, as it is",
                                      "len(spec.client.calls(ghost, 'ACCTINFORQ')) == 1 and spec.client.calls(ghost, 'ACCTINFORQ')[0][2]['dtacctup'] is spec.client.ACCTUP_DATE()"))
CONTRACTS += [
    # 6 ------------------------------------------------------------------ profile requests carry only the placeholder credentials
    Contract("ofxtools.Client:OFXClient._request_profile",
             args=[ClientArg(), OptArg(T("url"))], call=call_request_profile,
             ensures=[("anonymous", "len(spec.client.calls(ghost, 'signon')) == 1 and spec.client.calls(ghost, 'signon')[0][1] == spec.client.PLACEHOLDER and spec.client.calls(ghost, 'signon')[0][2] == spec.client.PLACEHOLDER"),
                      ("url-passed-through", "spec.client.calls(ghost, 'download')[0][2]['url'] is url")],
             notes="download() resolves url None to the configured self.url (contract 0)", props=["C14"], symbolic_only=True),
    # 7 ------------------------------------------------------------------ every instance gets its own fresh cookie jar
    Contract("ofxtools.Client:OFXClient.__init__",
             args=[T("url")], call=call_init,
             ensures=[("fresh-jar", "len(result[1]) == 1 and result[0].cookiejar is result[1][0]"),
                      ("jar-with-the-standard-unrestricted-policy", "result[2]")],
             notes="the jar is allocated inside __init__ and stored nowhere else, so no other instance can reach it; cookie replay itself is http.cookiejar "
                   "under its standard policy (T-EXT) - a jar built with a restricting policy (allowed/blocked domains) would not replay what every server sets",
             props=["C14"], symbolic_only=True),
]


# =============================================================================== request_profile (C15)
import builtins, pathlib
from ofxtools import config as CFG

parse_ok = z3.Function("profile_parse_ok", V, z3.BoolSort())      # the response text parses and converts
status_code = z3.Function("profile_status_code", V, z3.IntSort())
dtprofup_of = z3.Function("profile_dtprofup", V, z3.IntSort())     # instant of PROFRS/DTPROFUP


class AInstant(Abstract):
    pytype = datetime.datetime

    def __init__(self, e):
        self.e = e

    def p_compare(self, it, op, other, reflected):
        a, b = (other.e, self.e) if reflected else (self.e, other.e)
        return {"Lt": a < b, "LtE": a <= b, "Gt": a > b, "GtE": a >= b}[op]

    def p_eq(self, it, other):
        return isinstance(other, AInstant) and self.e == other.e


def content_read(fs):
    """what a read of the cache file returns.  Sequential model: the content the file had when the call began (CACHE0).
    Interference model (fs['interference']): another writer may have truncated or rewritten the file between any two steps of
    this call, so every read returns a content of its own about which nothing is known."""
    n = fs["reads"] = fs.get("reads", 0) + 1
    if fs.get("interference") and n > 1:
        return z3.Const(f"CACHE_as_read_{n}", V)
    return fs["content"]


class APath(Abstract):
    """a path below the profile directory.  The FIRST one built in a call is the institution's cache entry (persistpath); any
    other is a scratch file with a content of its own (nothing is there until the call writes it)."""
    pytype = pathlib.PurePath

    def __init__(self, fs, name=None, parent=None):
        self.fs = fs; self.name = name; self.parent = parent
        fs.setdefault("paths", []).append(self)
        self.is_cache = len(fs["paths"]) == 1
        self.content = None            # scratch files: what this call has written to them

    def derived(self, suffix):
        q = APath(self.fs, name=("derived", self, suffix), parent=self)
        return q

    def p_getattr(self, it, name):
        if name == "exists":
            if self.is_cache:
                return lambda: SBool(self.fs["present"])
            return lambda: self.content is not None
        if name == "read_bytes":
            if self.is_cache:
                return lambda: SVal(bytes, content_read(self.fs), {"eq": "term"})
            if self.content is None:
                raise C.Raised(ExcVal(FileNotFoundError, ("scratch file",)))
            return lambda: self.content
        if name in ("with_suffix", "with_name", "with_stem"):
            return lambda x: self.derived((name, x))
        if name == "parent":
            return Marker("profile-directory")
        raise C.Unsupported(f"path.{name}")

    def p_binop(self, it, op, other, reflected):
        raise C.Unsupported("path arithmetic on a cache path")


def cache_mutation(it, fs, data):
    """the cache entry gets a new content in one step (open for writing + write, or a scratch file moved onto it)"""
    log(it, "fs-open-for-write")
    fs["events"].append("truncate")
    if data is not None:
        log(it, "fs-write", data)
        fs["events"].append(("write", data))
        fs["content_after"] = data


class AFile(Abstract):
    def __init__(self, fs, mode, it, path=None):
        self.fs = fs; self.mode = mode; self.path = path
        self.cache = path is None or getattr(path, "is_cache", True)
        if "w" in mode:
            if self.cache:
                log(it, "fs-open-for-write")
                fs["events"].append("truncate")
            else:
                log(it, "fs-scratch-open", path)
                path.content = SVal(bytes, it.embed(b""), {"eq": "term"})

    def p_enter(self, it):
        return self

    def p_exit(self, it):
        self.fs["events"].append("close")

    def p_getattr(self, it, name):
        if name == "read":
            if self.cache:
                return lambda: SVal(bytes, content_read(self.fs), {"eq": "term"})
            return lambda: self.path.content
        if name == "write":
            def write(data):
                if self.cache:
                    log(it, "fs-write", data)
                    self.fs["events"].append(("write", data))
                    self.fs["content_after"] = data
                else:
                    log(it, "fs-scratch-write", self.path, data)
                    self.path.content = data
            return write
        raise C.Unsupported(f"file.{name}")


class ABuf(Abstract):
    """BytesIO over opaque content"""
    pytype = io.BytesIO

    def __init__(self, content):
        self.content = content

    def p_getattr(self, it, name):
        if name == "seek":
            return lambda pos: 0
        if name == "read":
            return lambda: self.content
        raise C.Unsupported(f"BytesIO.{name}")


class AParser(Abstract):
    def __init__(self):
        self.src = None

    def p_getattr(self, it, name):
        if name == "parse":
            def parse(buf):
                if isinstance(buf, APath):
                    buf = ABuf(SVal(bytes, content_read(buf.fs), {"eq": "term"}))     # the parser opens and reads the file itself
                if not isinstance(buf, ABuf) or not isinstance(buf.content, SVal):
                    raise C.Unsupported("parse of a non-abstract buffer")
                self.src = buf.content.e
                if not it.branch(parse_ok(self.src)):
                    raise C.Raised(ExcVal(SyntaxError, ("response does not parse",)))
                return None
            return parse
        if name == "convert":
            return lambda: AOfxProfile(self.src)
        raise C.Unsupported(f"parser.{name}")


class AOfxProfile(Abstract):
    def __init__(self, src):
        self.src = src

    def p_getattr(self, it, name):
        if name == "profmsgsrsv1":
            return [Marker("proftrnrs",
                           status=Marker("status", code=SInt(status_code(self.src))),
                           profrs=Marker("profrs", dtprofup=AInstant(dtprofup_of(self.src))))]
        raise C.Unsupported(f"ofx.{name}")


def call_request_profile_cached(it, fn, a):
    self, dryrun, cached = a[:3]
    persist = a[3] if len(a) > 3 else True
    fs = {"present": cached.e if isinstance(cached, SBool) else z3.BoolVal(bool(cached)), "content": z3.Const("CACHE0", V), "events": [],
          "interference": len(a) > 4 and a[4] == "interference"}

    def m_open(it_, args, kw):
        return AFile(fs, args[1] if len(args) > 1 else kw.get("mode", "r"), it_, args[0] if isinstance(args[0], APath) else None)

    def m_div(path, name):
        return APath(fs, name=name, parent=path)

    def m_replace(it_, args, kw):
        src, dst = args[0], args[1]
        if not isinstance(src, APath) or not isinstance(dst, APath):
            raise C.Unsupported("os.replace of a path outside the model")
        log(it_, "fs-replace", src, dst)
        if src.is_cache:
            raise C.Unsupported("the cache entry moved away")
        if src.content is None:
            raise C.Raised(ExcVal(FileNotFoundError, ("scratch file",)))
        if dst.is_cache:
            cache_mutation(it_, fs, src.content)
            fs["present_after"] = True
        else:
            dst.content = src.content
        src.content = None
        return None
    import os as _os
    it.models[_os.replace] = m_replace
    it.models[_os.rename] = m_replace
    it.models[_os.getpid] = lambda it_, args, kw: 4711

    def m_rp(it_, args, kw):
        log(it_, "_request_profile", kw.get("dtprofup"), dict(kw))
        if it_.branch(z3.Bool("transport_fails")):
            raise C.Raised(ExcVal(OSError, ("transport failure",)))
        return ABuf(SVal(bytes, z3.Const("RESPONSE", V), {"eq": "term"}))
    it.models[builtins.open] = m_open
    it.models[OFXClient._request_profile] = m_rp
    it.models[CL.OFXTree] = lambda it_, args, kw: AParser()
    it.models[CL.BytesIO] = lambda it_, args, kw: ABuf(args[0])
    it.models[io.BytesIO] = it.models[CL.BytesIO]
    it.path_div = m_div
    it.models[pathlib.Path.mkdir] = lambda it_, args, kw: None
    try:
        r = it.call(OFXClient.request_profile, [self], {"dryrun": dryrun, "persist": persist})
    finally:
        pass
    return (r, fs)


C15_0 = len(CONTRACTS)
INV0 = "(not cached or spec.client.cache_wellformed(spec.client.CACHE0()))"
CONTRACTS += [
    Contract("ofxtools.Client:OFXClient.request_profile",
             args=[ClientArg(), BoolArg("dryrun"), BoolArg("cached"), BoolArg("persist")], call=call_request_profile_cached,
             requires=[INV0],
             ensures=[("dry-run-writes-nothing", "not dryrun or len(spec.client.calls(ghost, 'fs-open-for-write')) == 0"),
                      ("asks-with-the-date-held", "spec.client.asked_with(ghost, cached)"),
                      ("up-to-date: cached profile returned, cache untouched",
                       "dryrun or spec.client.response_code() != 1 or (cached and spec.client.is_content(result[0], spec.client.CACHE0()) and len(spec.client.calls(ghost, 'fs-open-for-write')) == 0)"),
                      ("newer: response cached whole and returned, never older than the one held",
                       "dryrun or spec.client.response_code() == 1 or (spec.client.response_code() == 0 and spec.client.is_content(result[0], spec.client.RESPONSE()) and spec.client.written_exactly(ghost, spec.client.RESPONSE()) and (not cached or spec.client.dt(spec.client.CACHE0()) <= spec.client.dt(spec.client.RESPONSE())))"),
                      ("invariant-preserved", "dryrun or spec.client.response_code() == 1 or spec.client.cache_wellformed(spec.client.RESPONSE())"),
                      ("only-this-institution's-own-files-are-written", "spec.client.own_files(ghost, result[1])")],
             raises=[(Exception, "len(spec.client.calls(ghost, 'fs-open-for-write')) == 0 and spec.client.failure_justified(cached)", "may")],
             notes="for either value of the persist option; sequential, atomic calls only; ghost file = (present, content); the parser is abstract: parse_ok / status code / DTPROFUP of a byte string; every raising path (transport error, garbage, error status, older profile) is proved to come before the cache file is opened for writing",
             props=["C15"], symbolic_only=True),
    # the part of the concurrency clause a per-call contract can carry (rely/guarantee): whatever other writers do to the cache file
    # between the steps of this call - so every read of it may see an empty, partial or different file - the bytes a successful
    # call hands back, and the bytes it writes, are bytes this very call has parsed as one whole profile
    Contract("ofxtools.Client:OFXClient.request_profile",
             args=[ClientArg(), BoolArg("dryrun"), BoolArg("cached"), BoolArg("persist"), Const("mode", "interference")], call=call_request_profile_cached,
             ensures=[("under-interference: only bytes this call has itself parsed as a whole profile are returned",
                       "dryrun or spec.client.validated_by_this_call(result[0])"),
                      ("under-interference: only the parsed response is written",
                       "dryrun or len(spec.client.calls(ghost, 'fs-open-for-write')) == 0 or spec.client.written_exactly(ghost, spec.client.RESPONSE())")],
             raises=[(Exception, "True", "may")],
             notes="rely: the environment may change the cache file between any two steps (each read returns unconstrained content); "
                   "guarantee: no unchecked read is passed on.  Interleavings of the WRITE steps (truncate / write) of two calls are not decided.",
             props=["C15"], symbolic_only=True),
]


# =============================================================================== _get_service_urls (C14): the URL the profile advertises, as it is
from ofxtools.models import BANKMSGSET, CREDITCARDMSGSET, INVSTMTMSGSET


class ProfileSetsArg(Arg):
    """the message sets a profile lists: any of bank / credit card / investment present or not, in one of two orders, each with
    an opaque URL and a symbolic CLOSINGAVAIL"""

    def __init__(self, order, name="sets"):
        self.order = order; self.name = name

    def make(self, it):
        out = []
        for cls in self.order:
            n = cls.__name__
            out.append((z3.Bool(f"profile_lists_{n}"),
                        SObj(cls, {"__items__": [], "url": SVal(str, z3.Const(f"url_{n}", V)), "closingavail": SBool(z3.Bool(f"closingavail_{n}"))}, fresh=False, label=n)))
        return out, []


def call_service_urls(it, fn, a):
    self, sets = a
    listed = [s for g, s in sets if it.branch(g)]
    it.models[OFXClient.request_profile] = lambda it_, args, kw: (log(it_, "request_profile", dict(kw)), Marker("profile-bytes"))[1]

    class AP(Abstract):
        def p_getattr(self_, it_, name):
            if name == "parse":
                return lambda buf: None
            if name == "convert":
                return lambda: Marker("ofx", profmsgsrsv1=[Marker("proftrnrs", msgsetlist=list(listed))])
            raise C.Unsupported(f"parser.{name}")
    it.models[CL.OFXTree] = lambda it_, args, kw: AP()
    r = it.call(OFXClient._get_service_urls, [self], {})
    return (r, listed)


def service_urls_ok(result):
    raise RuntimeError("symbolic only")


def _service_urls_ok(it, a, kw):
    (urls, listed), = a
    if not isinstance(urls, dict):
        return False
    want = {}
    first = {}
    for s in listed:
        first.setdefault(s.cls, s)
    for s in listed:
        rq = {BANKMSGSET: CL.StmtRq, CREDITCARDMSGSET: CL.CcStmtRq, INVSTMTMSGSET: CL.InvStmtRq}[s.cls]
        want[rq] = s.fields["url"]           # a later entry of the same kind wins (dict comprehension)
    for cls, rq in ((BANKMSGSET, CL.StmtEndRq), (CREDITCARDMSGSET, CL.CcStmtEndRq)):
        if cls in first and it.branch(first[cls].fields["closingavail"].e):
            want[rq] = first[cls].fields["url"]
    if set(urls) != set(want):
        return False
    return all(urls[k] is want[k] or (isinstance(urls[k], SVal) and urls[k].e.eq(want[k].e)) for k in want)


service_urls_ok._pyvc_model = _service_urls_ok
service_urls_ok._pyvc_always = True
import contracts.spec.client as _spc2
_spc2.service_urls_ok = service_urls_ok

for order in ([BANKMSGSET, CREDITCARDMSGSET, INVSTMTMSGSET], [INVSTMTMSGSET, CREDITCARDMSGSET, BANKMSGSET]):
    CONTRACTS.append(Contract("ofxtools.Client:OFXClient._get_service_urls", args=[ClientArg(), ProfileSetsArg(order)], call=call_service_urls,
                              ensures=[("the-advertised-URL-unchanged-per-kind-of-request", "spec.client.service_urls_ok(result)"),
                                       ("one-profile-request", "len(spec.client.calls(ghost, 'request_profile')) == 1")],
                              notes=f"message sets {[c.__name__ for c in order]} each listed or not; URLs opaque texts: returned as they are (no rewriting), closing-statement requests mapped iff CLOSINGAVAIL",
                              props=["C14"], symbolic_only=True))


import contracts.spec.client as _spc3
_spc3.ACCTUP_DATE = lambda: ACCTUP_DATE
_spc3.ACCTUP_DATE._pyvc_model = lambda it, a, kw: ACCTUP_DATE
_spc3.ACCTUP_DATE._pyvc_always = True
