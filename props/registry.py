"""Single source for MANIFEST.json: `python3 -m props.registry` rewrites it."""
import json, os

VERIF = os.path.dirname(os.path.dirname(os.path.abspath(__file__)))
PENDING = "check not built yet in this session (planned, see DESIGN.md section 9); not a statement that the technique cannot apply"

CLAIMED = {
    "C20": dict(
        category="proof",
        text="Every obligation generated from the current source of the seven check-digit functions in ofxtools/utils.py is discharged by SMT for all inputs of the stated alphabets: computed check digit == published algorithm (spec functions written from the algorithm), validate_* iff, converters produce validating ISINs embedding the original, wrong length / unknown prefix / changed check character never validate. Loop-free after unrolling over the fixed identifier lengths, all characters symbolic, so the proof is complete for these domains, not bounded.",
        design_ref="DESIGN.md 9 (C20)",
        note="Trusted: pyvc engine and its model library (int(str,36), str(int), join, enumerate, slicing, dict.get; cross-checked against CPython on sampled inputs each run), z3/cvc5, finite-domain tabulation rewrite (domain membership re-proved per obligation). Domains: CUSIP over [0-9A-Z*@#], SEDOL over [0-9A-Z] minus AEIO (vowels proved refused), ISIN over [0-9A-Z] with the 84 two-letter agency prefixes; isin_checksum is proved by a 512-way case split on the digit/letter pattern. Callers use callee contracts at call sites. Characters outside printable ASCII are outside the int() model and not claimed.",
        technique="contracts on the real functions; VCs generated from the AST by symbolic execution (pyvc), discharged by z3 with finite-domain tabulation; counter-models replayed on the real code",
        engine="pyvc"),
}


def build():
    ids = [json.loads(l)["id"] for l in open(os.path.join(VERIF, "properties.jsonl"))]
    reasons = {}
    try:
        from props import not_applicable
        reasons = not_applicable.REASONS
    except Exception:
        pass
    checks = []
    for i in ids:
        if i not in CLAIMED:
            continue
        c = CLAIMED[i]
        checks.append({
            "property_id": i,
            "quick_cmd": f"./check {i} --tier quick",
            "thorough_cmd": f"./check {i} --tier thorough",
            "evidence_file": f"/verif/evidence/{i}.json",
            "replay_cmd_template": f"./check {i} --replay {{path}}",
            "engine": c.get("engine", "pyvc"),
            "level_claimed": {"category": c["category"], "text": c["text"], "design_ref": c.get("design_ref", "DESIGN.md 9")},
            "level_note": c["note"],
            "technique": c["technique"],
        })
    m = {
        "version": 1,
        "setup_cmd": "./setup.sh",
        "hooks": {
            "guard": "OFXTOOLS_VERIF",
            "enable": "no hooks are needed: contracts are sidecar files under /verif/contracts keyed by module and qualified name; checks read /repo's working tree as it is (guard name reserved, unused)",
            "baseline_off_cmd": "cd /repo && /venv/bin/python -m pytest -ra -q -p no:cacheprovider --timeout=900 --continue-on-collection-errors",
            "source_commits": [],
            "add_only": True,
        },
        "engines": [
            {"name": "pyvc", "path": "/verif/pyvc", "serves_properties": sorted(k for k, v in CLAIMED.items() if v.get("engine", "pyvc").startswith("pyvc")),
             "kind_free_text": "VC generator: mixed concrete/symbolic interpreter over the real AST of /repo functions (re-read every run), sidecar contracts, z3 + cvc5 discharge, native replay of counter-models"},
        ],
        "checks": checks,
        "notes": "Technique family: contract-based deductive verification of the real code. Exit 0 held / 1 violation (VIOLATION line) / 3 machinery failure. Bounded stand-ins are labelled bounded in the evidence and never counted in obligations/discharged. See DESIGN.md.",
        "not_applicable": [{"property_id": i, "reason": reasons.get(i, PENDING)} for i in ids if i not in CLAIMED],
    }
    json.dump(m, open(os.path.join(VERIF, "MANIFEST.json"), "w"), indent=1)
    return m


if __name__ == "__main__":
    m = build()
    import jsonschema
    jsonschema.validate(m, json.load(open("/root/.vp/MANIFEST.schema.json")))
    print("MANIFEST.json written:", len(m["checks"]), "checks,", len(m["not_applicable"]), "not applicable/pending")
